"""C13 — error suppression is exact and the exit status tells the truth (partial).

R13.1  blockers never reach the ignore logic: every early return of Errors.add_error_info that
       drops an error for an ignore comment / ignored file / disabled code is under
       `not info.blocker`; Errors.is_ignored_error answers False for blockers before anything else.
R13.2  pairing: an error dropped because is_ignored_error() said so (and its code is enabled) is
       recorded in used_ignored_lines before the return; nothing else ever appends there.
R13.3  who may append to error_info_map: only _add_error_info; its callers are exactly
       add_error_info, note_for_info and report_simple_error.
R13.4  exit status data-flow in main.main: the value handed to sys.exit/hard_exit is `code`, whose
       only assignments are 0, `2 if blockers else 1` (guarded by a non-note message existing) and
       the install-types override; `blockers` is set only in run_build's CompileError handler.
"""

from __future__ import annotations

import ast

from ..cfg import CFG, call_name
from ..index import AnalysisError, get_index, norm
from ..report import Check
from .c12 import guard_chain


def chain_texts(f, node) -> list[str]:
    conj, _ = guard_chain(f, node)
    return [norm(c) for c in conj]


def run(chk: Check) -> None:
    ix = get_index()
    run_codes_and_unused(chk, ix)
    run_parser_ignores(chk, ix)
    run_bypass_sites(chk, ix)
    from .c10 import run_only_once_slot
    run_only_once_slot(chk, ix, "R13.10")
    run_notes_carry_code(chk, ix)
    run_watchers_see_everything(chk, ix)
    run_state_asks_about_its_own_module(chk, ix)
    run_severity_by_first_marker(chk, ix)
    from .c07 import run_line_spans_inclusive
    run_line_spans_inclusive(chk, ix, "R13.15")
    run_code_selection_is_keyed(chk, ix)
    run_reports_on_behalf_use_that_modules_options(chk, ix)
    run_unused_ignore_predicate_agrees(chk, ix)
    aei = ix.func("mypy.errors.Errors.add_error_info")
    g = CFG(aei.node)

    # ---------------- R13.1
    r1 = chk.rule("R13.1", "every early return of add_error_info that drops an error for an ignore comment, an ignored file or a disabled code is control-dependent on `not info.blocker`; is_ignored_error returns False for blockers first", floor=4)
    adds = [n for n in g.nodes if any(call_name(c) == "_add_error_info" for c in n.calls())]
    if len(adds) != 1:
        raise AnalysisError(f"expected one call of _add_error_info in add_error_info, found {len(adds)}")
    add = adds[0]
    early = [n for n in g.nodes if n.kind == "stmt" and isinstance(n.stmt, ast.Return) and n in g.reachable([g.entry], avoiding=[add], labels_excluded=("exc",))]
    if len(early) < 3:
        raise AnalysisError("fewer than 3 early returns found in add_error_info")
    for rt in early:
        texts = chain_texts(aei, rt.stmt)
        where = aei.loc(rt.stmt)
        key = f"early return guarded by [{' ; '.join(t[:50] for t in texts)}]"
        if any("_filter_error" in t for t in texts):
            r1.ok(key, where, "ErrorWatcher filter (applies to blockers too by design: watchers capture, they do not suppress output)")
        elif any(t == "info.only_once" for t in texts):
            r1.ok(key, where, "duplicate of an only_once message")
        elif any(t == "not info.blocker" for t in texts):
            r1.ok(key, where, "ignore logic, under `not info.blocker`")
        else:
            r1.violation(key, where, "add_error_info can drop an error on a path that is not guarded by `not info.blocker`: a blocking error could be suppressed")
    iie = ix.func("mypy.errors.Errors.is_ignored_error")
    gi = CFG(iie.node)
    btests = [n for n in gi.nodes if n.kind == "test" and norm(n.exprs[0]) == "info.blocker"]
    truthy = [n for n in gi.nodes if n.kind == "stmt" and isinstance(n.stmt, ast.Return) and not (isinstance(n.stmt.value, ast.Constant) and n.stmt.value.value is False)]
    if not truthy:
        raise AnalysisError("is_ignored_error has no accepting return")
    for rt in truthy:
        ok = False
        for bt in btests:
            tsucc = [m for m, lab in bt.succ if lab == "true"]
            if gi.must_pass(gi.entry, [rt], [bt], labels_excluded=("exc",)) and rt not in gi.reachable(tsucc, labels_excluded=("exc",)):
                # and the true branch only returns False
                tr = [n for n in gi.reachable(tsucc, labels_excluded=("exc",)) if isinstance(n.stmt, ast.Return) and n.kind == "stmt"]
                if tr and all(isinstance(n.stmt.value, ast.Constant) and n.stmt.value.value is False for n in tr):
                    ok = True
        key = f"is_ignored_error: `{norm(rt.stmt)[:60]}` unreachable for blockers"
        if ok:
            r1.ok(key, iie.loc(rt.stmt))
        else:
            r1.violation(key, iie.loc(rt.stmt), "an accepting return of is_ignored_error is reachable without first answering False for info.blocker")

    # ---------------- R13.5
    r5 = chk.rule("R13.5", "is_error_code_enabled decides in the order: code explicitly disabled -> off; code explicitly enabled -> on; parent code disabled -> off; else default (an explicit enable of a sub-code overrides disabling its parent)", floor=3)
    ice = ix.func("mypy.errors.Errors.is_error_code_enabled")
    ge = CFG(ice.node)
    alias = {}
    for n in ast.walk(ice.node):
        if isinstance(n, ast.Assign) and isinstance(n.targets[0], ast.Name):
            alias[n.targets[0].id] = norm(n.value)

    def src_of(e):
        t = norm(e)
        return alias.get(t, t)

    def classify_test(t: ast.expr):
        if isinstance(t, ast.BoolOp) and isinstance(t.op, ast.And):
            parts = [classify_test(v) for v in t.values]
            if "parent-disabled" in parts or any(p == "disabled" for p in parts) and any("sub_code_of" in " ".join(src_of(x) for x in ast.walk(v) if isinstance(x, (ast.Name, ast.Attribute))) for v in t.values):
                return "parent-disabled"
            return next((p for p in parts if p), None)
        if isinstance(t, ast.Compare) and len(t.ops) == 1 and isinstance(t.ops[0], ast.In):
            where = src_of(t.comparators[0])
            what = src_of(t.left)
            kind = "disabled" if "disabled_error_codes" in where else ("enabled" if "enabled_error_codes" in where else None)
            if kind == "disabled" and "sub_code_of" in what:
                return "parent-disabled"
            return kind
        return None

    tests = {}
    for n in ge.nodes:
        if n.kind == "test":
            k = classify_test(n.exprs[0])
            if k:
                tests.setdefault(k, n)
    if set(tests) >= {"disabled", "enabled", "parent-disabled"}:
        for first, second in (("disabled", "enabled"), ("enabled", "parent-disabled")):
            a, b = tests[first], tests[second]
            fsucc = [m for m, lab in a.succ if lab == "false"]
            ok = ge.must_pass(ge.entry, [b], [a], labels_excluded=("exc",)) and b in ge.reachable(fsucc, labels_excluded=("exc",)) and b not in ge.reachable([m for m, lab in a.succ if lab == "true"], labels_excluded=("exc",))
            key = f"is_error_code_enabled: `{first}` test decides before `{second}` test"
            if ok:
                r5.ok(key, ice.loc(a.stmt))
            else:
                r5.violation(key, ice.loc(b.stmt), f"the `{second}` test can be reached without the `{first}` test having answered first: " + ("an explicitly enabled sub-code is switched off by disabling its parent code" if second == "parent-disabled" else "an explicitly disabled code can be reported"))
        # polarity of the answers
        for k, want in (("disabled", False), ("enabled", True), ("parent-disabled", False)):
            t = tests[k]
            tsucc = [m for m, lab in t.succ if lab == "true"]
            first = tsucc[0] if tsucc else None
            if first is not None and isinstance(first.stmt, ast.Return) and isinstance(first.stmt.value, ast.Constant) and first.stmt.value.value is want:
                r5.ok(f"is_error_code_enabled: `{k}` answers {want}", ice.loc(t.stmt))
            else:
                r5.violation(f"is_error_code_enabled: `{k}` answers {want}", ice.loc(t.stmt), "wrong polarity")
    else:
        raise AnalysisError(f"is_error_code_enabled: decision tests not recognised ({sorted(tests)})")

    # ---------------- R13.2
    r2 = chk.rule("R13.2", "suppressed by an ignore comment (code enabled) => recorded in used_ignored_lines before returning; no other site appends to used_ignored_lines", floor=2)
    ign_tests = [n for n in g.nodes if n.kind == "test" and any(call_name(c) == "is_ignored_error" for c in n.calls())]
    if not ign_tests:
        raise AnalysisError("is_ignored_error test not found in add_error_info")
    appends = [n for n in g.nodes if any(call_name(c) == "append" and "used_ignored_lines" in norm(c.func) for c in n.calls())]
    for t in ign_tests:
        tsucc = [m for m, lab in t.succ if lab == "true"]
        region = g.reachable(tsucc, avoiding=appends + [t], labels_excluded=("exc",))
        bad = []
        for n in region:
            if n.kind == "stmt" and isinstance(n.stmt, ast.Return):
                texts = chain_texts(aei, n.stmt)
                if not any(t2.startswith("not self.is_error_code_enabled(") for t2 in texts):
                    bad.append(n)
            if n is add:
                bad.append(n)
        key = "ignored (code enabled) => used_ignored_lines[file][line].append before return"
        if bad or not appends:
            r2.violation(key, aei.loc(t.stmt), "an error can be dropped by an ignore comment without the comment being recorded as used (it would then be reported as unused)", witness=[aei.loc(b.stmt) for b in bad])
        else:
            r2.ok(key, aei.loc(t.stmt))
    for a in appends:
        dom_ok = any(g.must_pass(g.entry, [a], [t], labels_excluded=("exc",)) and a not in g.reachable([m for m, lab in t.succ if lab == "false"], avoiding=[t], labels_excluded=("exc",)) for t in ign_tests)
        # appended code must be the error's own code
        if dom_ok:
            r2.ok("append only after is_ignored_error() returned true", aei.loc(a.stmt))
        else:
            r2.violation("append only after is_ignored_error() returned true", aei.loc(a.stmt), "an ignore comment is recorded as used on a path where it suppressed nothing")
    # a disabled code never marks the comment as used
    en_tests = [n for n in g.nodes if n.kind == "test" and any(call_name(c) == "is_error_code_enabled" for c in n.calls())]
    for a in appends:
        ok = False
        for t in en_tests:
            e = t.exprs[0]
            negated = isinstance(e, ast.UnaryOp) and isinstance(e.op, ast.Not)
            disabled_side = [m for m, lab in t.succ if lab == ("true" if negated else "false")]
            if g.must_pass(g.entry, [a], [t], labels_excluded=("exc",)) and a not in g.reachable(disabled_side, avoiding=[t], labels_excluded=("exc",)):
                ok = True
        key = "the comment is recorded as used only when the suppressed error's code is enabled"
        if ok:
            r2.ok(key, aei.loc(a.stmt))
        else:
            r2.violation(key, aei.loc(a.stmt), "an error whose code is disabled (it would not have been reported anyway) marks the `type: ignore` comment as used: --warn-unused-ignores then misses a comment that suppresses nothing")
    # who-may-append
    writers = []
    for q, f in ix.functions.items():
        if f.parent is not None:
            continue
        for n in ast.walk(f.node):
            if isinstance(n, ast.Call) and isinstance(n.func, ast.Attribute) and n.func.attr in ("append", "extend", "add", "update", "setdefault") and "used_ignored_lines" in norm(n.func.value):
                writers.append((q, n))
            elif isinstance(n, (ast.Assign, ast.AugAssign)):
                tg = n.targets if isinstance(n, ast.Assign) else [n.target]
                for t in tg:
                    if isinstance(t, ast.Subscript) and "used_ignored_lines" in norm(t.value) and "self." in norm(t.value):
                        writers.append((q, n))
    for q, n in writers:
        key = f"writer of used_ignored_lines in {q}"
        if q == aei.qualname:
            r2.ok(key, ix.functions[q].loc(n))
        else:
            r2.violation(key, ix.functions[q].loc(n), "used_ignored_lines is written outside add_error_info: an ignore can become 'used' without having suppressed an error")

    # ---------------- R13.3
    r3 = chk.rule("R13.3", "only _add_error_info appends to error_info_map; its callers are add_error_info, note_for_info, report_simple_error", floor=4)
    expected_callers = {"mypy.errors.Errors.add_error_info", "mypy.errors.Errors.note_for_info", "mypy.errors.Errors.report_simple_error"}
    for q, f in ix.functions.items():
        if f.parent is not None:
            continue
        for n in ast.walk(f.node):
            if isinstance(n, ast.Call) and isinstance(n.func, ast.Attribute):
                if n.func.attr == "_add_error_info":
                    key = f"caller of _add_error_info: {q}"
                    if q in expected_callers:
                        r3.ok(key, f.loc(n))
                    else:
                        r3.violation(key, f.loc(n), "a new path into the error map that bypasses add_error_info's ignore / blocker / only_once logic")
                if n.func.attr in ("append", "extend", "insert") and "error_info_map" in norm(n.func.value):
                    key = f"append to error_info_map in {q}"
                    if q == "mypy.errors.Errors._add_error_info":
                        r3.ok(key, f.loc(n))
                    else:
                        r3.violation(key, f.loc(n), "error_info_map is appended to outside _add_error_info")

    # ---------------- R13.4
    r4 = chk.rule("R13.4", "exit status: the value reaching sys.exit/hard_exit in main() is `code`; code is 0, or (2 if blockers else 1) when a non-note message exists, or the install-types override; blockers is set only when CompileError was caught", floor=6)
    mn = ix.func("mypy.main.main")
    # Evaluate `code` as a function of three atoms by walking its assignments in source order:
    #   N = "a non-note message exists" (messages and n_notes < len(messages)), B = blockers, I = install-types override
    assigns = sorted(
        (n for n in ast.walk(mn.node) if isinstance(n, ast.Assign) and any(isinstance(t, ast.Name) and t.id == "code" for t in n.targets)),
        key=lambda n: n.lineno,
    )
    if not assigns:
        raise AnalysisError("main() no longer assigns `code`")

    def atom(expr: ast.expr, env: dict) -> bool:
        t = norm(expr).replace(" ", "")
        if isinstance(expr, ast.BoolOp):
            vals = [atom(v, env) for v in expr.values]
            return all(vals) if isinstance(expr.op, ast.And) else any(vals)
        if isinstance(expr, ast.UnaryOp) and isinstance(expr.op, ast.Not):
            return not atom(expr.operand, env)
        if t == "messages":
            return env["M"]
        if t in ("n_notes<len(messages)", "len(messages)>n_notes"):
            return env["N"]
        if t in ("n_notes==len(messages)",):
            return not env["N"]
        if isinstance(expr, ast.Call) and call_name(expr) == "only_notes" and expr.args and norm(expr.args[0]) == "messages":
            return not env["N"]  # every message is a note (definition checked below)
        if t == "blockers":
            return env["B"]
        if "install_types" in t or t == "result":
            return env["I"]
        raise AnalysisError(f"R13.4: unrecognised guard of an assignment to the exit status: {norm(expr)[:80]}")

    def value(expr: ast.expr, env: dict) -> int:
        if isinstance(expr, ast.Constant) and isinstance(expr.value, int):
            return expr.value
        if isinstance(expr, ast.IfExp):
            return value(expr.body, env) if atom(expr.test, env) else value(expr.orelse, env)
        if isinstance(expr, ast.Name) and expr.id == "code":
            return env["code"]
        raise AnalysisError(f"R13.4: unrecognised value assigned to the exit status: {norm(expr)[:80]}")

    from ..cfg import branch_conditions
    mparents = mn.module.parents()
    bad_rows = []
    rows = 0
    for M in (False, True):
        for N in (False, True):
            for B in (False, True):
                for I in (False, True):
                    if N and not M:
                        continue  # a non-note message implies a message
                    env = {"M": M, "N": N, "B": B, "I": I, "code": None}
                    for a in assigns:
                        conj, negs = branch_conditions(mparents, mn.node, a)
                        if any("install_types" in norm(c) for c in conj + negs):
                            taken = env["I"]  # the documented install-types override, as one atom
                        else:
                            taken = all(atom(c, env) for c in conj) and not any(atom(c, env) for c in negs)
                        if taken:
                            env["code"] = value(a.value, env)
                    want = 2 if I else (0 if not (M and N) else (2 if B else 1))
                    rows += 1
                    if env["code"] != want:
                        bad_rows.append(f"messages={M} non-note={N} blockers={B} install-override={I}: code={env['code']} (expected {want})")
    on = ix.functions.get("mypy.util.only_notes")
    if on is not None:
        rets = [norm(r.value) for r in ast.walk(on.node) if isinstance(r, ast.Return) and r.value is not None]
        want_text = any(x.replace(" ", "") in ("count_stats(messages)[1]==len(messages)", "n_notes==len(messages)") for x in rets)
        want_json = any("severity" in x and "note" in x and x.startswith("all(") for x in rets)
        k2 = "util.only_notes: true iff every message is a note, in the text form and in the JSON form"
        if want_text and want_json and len(rets) == 2:
            r4.ok(k2, on.loc(), "; ".join(rets)[:120])
        else:
            r4.violation(k2, on.loc(), f"the helper the exit status is computed from returns {rets}: not `count_stats(messages)[1] == len(messages)` for text and `all(severity is note)` for JSON lines")
    key = "exit status truth table over (message exists, non-note exists, blockers, install override)"
    if bad_rows:
        r4.violation(key, mn.loc(assigns[0]), "; ".join(bad_rows))
    else:
        r4.ok(key, mn.loc(assigns[0]), f"{rows} rows, {len(assigns)} assignments")
    for n in ast.walk(mn.node):
        if isinstance(n, ast.Call) and norm(n.func) in ("sys.exit", "util.hard_exit", "hard_exit"):
            args = [norm(a) for a in n.args]
            key = f"{norm(n.func)}({', '.join(args)})"
            if args == ["code"]:
                texts = chain_texts(mn, n)
                if all(t in ("options.fast_exit", "code") for t in texts):
                    r4.ok(key, mn.loc(n), f"guards: {texts}")
                else:
                    r4.violation(key, mn.loc(n), f"exit guarded by an unexpected condition {texts}: some status values never reach the exit call")
            else:
                r4.violation(key, mn.loc(n), "process exit with a value other than the computed status")
    # count_stats result and blockers come from run_build's outputs
    srcs = [norm(n) for n in ast.walk(mn.node) if isinstance(n, ast.Assign) and any("n_notes" in norm(t) for t in n.targets)]
    if srcs and all("util.count_stats(messages)" in s for s in srcs):
        r4.ok("n_notes from util.count_stats(messages)", mn.loc())
    else:
        r4.violation("n_notes from util.count_stats(messages)", mn.loc(), f"note count no longer derived from the printed messages: {srcs}")
    srcs = [n for n in ast.walk(mn.node) if isinstance(n, ast.Assign) and any("blockers" in norm(t) for t in n.targets)]
    if srcs and all(norm(s.value).startswith("run_build(") for s in srcs):
        r4.ok("messages, blockers from run_build(...)", mn.loc())
    else:
        r4.violation("messages, blockers from run_build(...)", mn.loc(), "blockers/messages no longer come from run_build")
    rb = ix.func("mypy.main.run_build")
    for n in ast.walk(rb.node):
        if isinstance(n, ast.Assign) and any(isinstance(t, ast.Name) and t.id == "blockers" for t in n.targets):
            v = norm(n.value)
            parents = rb.module.parents()
            p = parents.get(n)
            in_handler = False
            while p is not None and p is not rb.node:
                if isinstance(p, ast.ExceptHandler) and p.type is not None and norm(p.type) == "CompileError":
                    in_handler = True
                p = parents.get(p)
            key = f"run_build: blockers = {v}"
            if v == "False" and not in_handler:
                r4.ok(key, rb.loc(n))
            elif v == "True" and in_handler:
                r4.ok(key, rb.loc(n), "inside `except CompileError`")
            else:
                r4.violation(key, rb.loc(n), "blockers flag set outside the CompileError handler (or cleared inside it): exit status 2 no longer means 'a blocking error stopped analysis'")
    rets = [n for n in ast.walk(rb.node) if isinstance(n, ast.Return) and n.value is not None]
    for rt in rets:
        if isinstance(rt.value, ast.Tuple) and [norm(e) for e in rt.value.elts[1:]] == ["messages", "blockers"]:
            r4.ok("run_build returns (.., messages, blockers)", rb.loc(rt))
        else:
            r4.violation("run_build returns (.., messages, blockers)", rb.loc(rt), "return shape changed")
    cs = ix.func("mypy.util.count_stats")
    src = norm(cs.node)
    # the markers may be looked for by a helper the function calls (util.message_severity)
    for c in ast.walk(cs.node):
        if isinstance(c, ast.Call) and isinstance(c.func, ast.Name) and c.func.id in cs.module.functions:
            src += " " + norm(cs.module.functions[c.func.id].node)
    if "': error:'" in src and "': note:'" in src:
        r4.ok("count_stats classifies by ': error:' / ': note:' severity markers", cs.loc())
    else:
        r4.violation("count_stats classifies by ': error:' / ': note:' severity markers", cs.loc(), "severity markers changed")


def run_codes_and_unused(chk: Check, ix) -> None:
    from ..pattern import find_all, has
    # ---------------- R13.6
    r6 = chk.rule("R13.6", "enabling an error code overrides disabling it wherever the two option lists are turned into code sets: process_error_codes subtracts the enabled set from the disabled set after both were filled; apply_changes applies disable_error_code first and enable_error_code second, each moving the code between the two sets", floor=4)
    pec = ix.func("mypy.options.Options.process_error_codes")
    g = CFG(pec.node)
    fills = [n for n in g.nodes if n.kind == "stmt" and isinstance(n.stmt, ast.AugAssign) and isinstance(n.stmt.op, ast.BitOr) and norm(n.stmt.target) in ("self.disabled_error_codes", "self.enabled_error_codes")]
    sub = [n for n in g.nodes if n.kind == "stmt" and isinstance(n.stmt, ast.AugAssign) and isinstance(n.stmt.op, ast.Sub) and norm(n.stmt) == "self.disabled_error_codes -= self.enabled_error_codes"]
    if len(fills) == 2 and sub and all(sub[0] in g.reachable([f_], labels_excluded=("exc",)) and f_ not in g.reachable(sub, labels_excluded=("exc",)) for f_ in fills) and g.must_pass(g.entry, [g.exit], sub, labels_excluded=("exc",)):
        r6.ok("process_error_codes: disabled -= enabled after both sets were filled, on every normal path", pec.loc(sub[0].stmt))
    else:
        r6.violation("process_error_codes: disabled -= enabled after both sets were filled, on every normal path", pec.loc(), "a code that is both disabled and enabled on the command line / in the config can stay disabled")
    ac = ix.func("mypy.options.Options.apply_changes")
    loops = [l for l in ac.node.body if isinstance(l, ast.For)]
    dis = [l for l in loops if norm(l.iter).endswith(".disable_error_code")]
    en = [l for l in loops if norm(l.iter).endswith(".enable_error_code")]
    if dis and en and dis[0].lineno < en[0].lineno:
        r6.ok("apply_changes: disable_error_code is applied before enable_error_code", ac.loc(en[0]))
    else:
        r6.violation("apply_changes: disable_error_code is applied before enable_error_code", ac.loc(), "the per-module disable list is applied last (or one list is not applied): enabling a code in a section no longer overrides disabling it")
    for which, lp, add_to, drop_from in (("disable", dis, "disabled_error_codes", "enabled_error_codes"), ("enable", en, "enabled_error_codes", "disabled_error_codes")):
        key = f"apply_changes: {which}_error_code adds to {add_to} and removes from {drop_from}"
        if lp and has(lp[0], f"$o.{add_to}.add($c)") and has(lp[0], f"$o.{drop_from}.discard($c)"):
            r6.ok(key, ac.loc(lp[0]))
        else:
            r6.violation(key, ac.loc(lp[0]) if lp else ac.loc(), "the loop does not move the code between the two sets: a code can end up in both (or neither) set, and is_error_code_enabled then answers by test order instead of by the last setting")
    inh = has(ac.node, "$n.disabled_error_codes = self.disabled_error_codes.copy()") and has(ac.node, "$n.enabled_error_codes = self.enabled_error_codes.copy()")
    if inh:
        r6.ok("apply_changes starts from copies of the inherited code sets", ac.loc())
    else:
        r6.violation("apply_changes starts from copies of the inherited code sets", ac.loc(), "per-module code sets do not start from (a copy of) the inherited sets: a section's codes leak into or are cut off from the global sets")

    # ---------------- R13.7
    r7 = chk.rule("R13.7", "unused-ignore reporting: skipped for typeshed / ignored files / skipped lines; a comment with codes is reported iff one of its codes was not used, a bare comment iff nothing was used; reported through report_simple_error (never through the ignore logic); ignore-without-code only for bare comments and not on top of an unused-ignore warning", floor=6)
    gu = ix.func("mypy.errors.Errors.generate_unused_ignore_errors")
    gw = ix.func("mypy.errors.Errors.generate_ignore_without_code_errors")
    for f in (gu, gw):
        first = f.node.body[0]
        key = f"{f.name}: nothing is generated for typeshed or files whose errors are ignored"
        if isinstance(first, ast.If) and norm(first.test) in ("is_typeshed or file in self.ignored_files", "file in self.ignored_files or is_typeshed") and isinstance(first.body[0], ast.Return):
            r7.ok(key, f.loc(first))
        else:
            r7.violation(key, f.loc(first), "unused-ignore style diagnostics are produced for files whose errors are ignored wholesale (every ignore there looks unused)")
        key = f"{f.name}: lines in skipped_lines (unreachable code) are not reported"
        if has(f.node, "if $l in self.skipped_lines[file]:\n    continue"):
            r7.ok(key, f.loc())
        else:
            r7.violation(key, f.loc(), "ignore comments in code that was skipped as unreachable would be reported as unused")
        simple = [c for c in ast.walk(f.node) if isinstance(c, ast.Call) and call_name(c) == "report_simple_error"]
        other = [c for c in ast.walk(f.node) if isinstance(c, ast.Call) and call_name(c) in ("report", "add_error_info")]
        key = f"{f.name}: reports through report_simple_error only"
        if simple and not other:
            r7.ok(key, f.loc(simple[0]))
        else:
            r7.violation(key, f.loc(), "the diagnostic goes through the ignore logic and is itself swallowed by the comment it is about")
    b = find_all(gu.node, [
        "$used = set($ul[$line])",
        "$unused = [$c for $c in $ign if $c not in $used]",
        "if not $ign and $used:\n    continue",
        "if $ign and (not $unused):\n    continue",
    ])
    if b:
        r7.ok("unused-ignore: `ignore[codes]` reported iff a listed code is unused; bare `ignore` iff nothing was used", gu.loc())
    else:
        r7.violation("unused-ignore: `ignore[codes]` reported iff a listed code is unused; bare `ignore` iff nothing was used", gu.loc(), "the decision which comments are unused no longer has this shape (listed codes minus used codes; two skip conditions)")
    if has(gw.node, "if $codes:\n    continue") and has(gw.node, "if is_warning_unused_ignores and (not $u[$l]):\n    continue"):
        r7.ok("ignore-without-code: only bare comments; not in addition to an unused-ignore warning", gw.loc())
    else:
        r7.violation("ignore-without-code: only bare comments; not in addition to an unused-ignore warning", gw.loc(), "the two skip conditions of generate_ignore_without_code_errors changed")


def run_parser_ignores(chk: Check, ix) -> None:
    """R13.8: diagnostics reported while parsing are subject to the file's ignore comments and disabled codes."""
    r8 = chk.rule("R13.8", "add_error_info applies ignore comments and disabled codes only to files registered in Errors.ignored_lines, and a file is registered by State.setup_errors only after parsing; so each front end registers the ignore map itself (set_file_ignored_lines) on every path before it reports a parse-time diagnostic", floor=2)
    sites = [("mypy.fastparse.ASTConverter.fail", "report"), ("mypy.parse.load_from_raw", "report_parse_error")]
    for q, reporter in sites:
        f = ix.func(q)
        g = CFG(f.node)
        reps = [n for n in g.nodes if any(call_name(c) == reporter for c in n.calls())]
        regs = [n for n in g.nodes if any(call_name(c) == "set_file_ignored_lines" for c in n.calls())]
        if not reps:
            raise AnalysisError(f"{q}: no call of {reporter} found")
        key = f"{q}: set_file_ignored_lines before every {reporter}(...)"
        ok = bool(regs) and all(g.must_pass(g.entry, [r_], regs, labels_excluded=("exc",)) for r_ in reps)
        if regs and not ok:
            # `if xs: register(...)` followed by `for x in xs: report(x)`: the loop body runs only when xs is non-empty
            par8 = f.module.parents()
            def loop_iter(stmt):
                p_ = par8.get(stmt)
                while p_ is not None and p_ is not f.node:
                    if isinstance(p_, ast.For):
                        return norm(p_.iter)
                    p_ = par8.get(p_)
                return None
            from ..cfg import branch_conditions
            gpos, gneg = branch_conditions(par8, f.node, regs[0].stmt)
            its = {loop_iter(r_.stmt) for r_ in reps}
            if len(its) == 1 and None not in its and [norm(t) for t in gpos] == [next(iter(its))] and not gneg:
                heads = [n for n in g.nodes if n.kind == "test" and norm(n.exprs[0]) == next(iter(its))]
                ok = bool(heads) and all(g.must_pass(g.entry, [r_], heads, labels_excluded=("exc",)) for r_ in reps)
        if ok:
            r8.ok(key, f.loc(regs[0].stmt))
        else:
            r8.violation(key, f.loc(reps[0].stmt), "a parse-time diagnostic is reported while the file is not (yet) in Errors.ignored_lines: a `# type: ignore` on its line does not suppress it and is then reported as unused, --disable-error-code does not remove it, and the exit status is 1 where everything was ignored")
    aei = ix.func("mypy.errors.Errors.add_error_info")
    if any(isinstance(t, ast.If) and norm(t.test) == "file in self.ignored_lines" for t in ast.walk(aei.node)):
        r8.ok("add_error_info consults ignores only for files in self.ignored_lines (why registration matters)", aei.loc())
    else:
        r8.info("add_error_info no longer guards the ignore logic by `file in self.ignored_lines`", aei.loc(), "registration before reporting may no longer be needed")


def _bool_eval(e: ast.expr, val) -> bool:
    """Evaluate a boolean combination; `val(leaf)` gives the truth value of a non-boolean leaf."""
    if isinstance(e, ast.BoolOp):
        vs = [_bool_eval(v, val) for v in e.values]
        return all(vs) if isinstance(e.op, ast.And) else any(vs)
    if isinstance(e, ast.UnaryOp) and isinstance(e.op, ast.Not):
        return not _bool_eval(e.operand, val)
    return val(e)


def _leaves(e: ast.expr) -> list[ast.expr]:
    if isinstance(e, ast.BoolOp):
        return [l for v in e.values for l in _leaves(v)]
    if isinstance(e, ast.UnaryOp) and isinstance(e.op, ast.Not):
        return _leaves(e.operand)
    return [e]


def run_bypass_sites(chk: Check, ix) -> None:
    """R13.9: diagnostics that bypass add_error_info are generated only when their own code is not disabled."""
    import itertools
    from ..cfg import branch_conditions
    r9 = chk.rule("R13.9", "the generators of diagnostics that are reported through report_simple_error (which bypasses is_error_code_enabled) are called only under a condition that is false whenever the diagnostic's own code is in disabled_error_codes, whatever the other settings are (evaluated over all truth assignments of the condition's atoms, with enabled and disabled disjoint as R13.6 establishes), and that is true when the code is enabled and not disabled", floor=4)
    gens: dict[str, str] = {}
    for f in ix.functions.values():
        if f.cls is None or f.cls.qualname != "mypy.errors.Errors":
            continue
        for c in ast.walk(f.node):
            if isinstance(c, ast.Call) and call_name(c) == "report_simple_error":
                for k in c.keywords:
                    if k.arg == "code" and norm(k.value).startswith("codes."):
                        gens[f.name] = norm(k.value)
    if not gens:
        raise AnalysisError("no Errors method reports through report_simple_error with a code")
    if len(gens) < 2:
        # R13.7 reports a generator that stopped using report_simple_error; this rule covers the ones left
        r9.info(f"only {sorted(gens)} report through report_simple_error", "mypy/errors.py", "see R13.7")
    n_sites = 0
    for f in sorted(ix.functions.values(), key=lambda f: f.qualname):
        if f.module.name.startswith("mypy.test") or (f.cls is not None and f.cls.qualname == "mypy.errors.Errors"):
            continue
        calls = [c for c in ast.walk(f.node) if isinstance(c, ast.Call) and isinstance(c.func, ast.Attribute) and c.func.attr in gens]
        if not calls:
            continue
        par = f.module.parents()
        for c in calls:
            n_sites += 1
            code = gens[c.func.attr]
            st = c
            while not isinstance(st, ast.stmt):
                st = par[st]
            pos, neg = branch_conditions(par, f.node, st, early_exits=True)
            cond = ast.BoolOp(op=ast.And(), values=list(pos) + [ast.UnaryOp(op=ast.Not(), operand=t) for t in neg]) if (pos or neg) else None
            key = f"{f.qualname} -> {c.func.attr}: not generated when {code} is disabled"
            if cond is None:
                r9.violation(key, f.loc(c), f"the call is unconditional: {code} diagnostics are produced although the code is disabled (report_simple_error does not consult is_error_code_enabled)")
                continue

            def kind(l: ast.expr) -> str:
                if isinstance(l, ast.Compare) and len(l.ops) == 1 and isinstance(l.ops[0], (ast.In, ast.NotIn)) and norm(l.left) == code:
                    side = norm(l.comparators[0])
                    if side.endswith("disabled_error_codes"):
                        return "dis" if isinstance(l.ops[0], ast.In) else "notdis"
                    if side.endswith("enabled_error_codes"):
                        return "en" if isinstance(l.ops[0], ast.In) else "noten"
                if isinstance(l, ast.Call) and call_name(l) == "is_error_code_enabled" and l.args and norm(l.args[0]) == code:
                    return "isen"
                return "free:" + norm(l)
            leaves = _leaves(cond)
            free = sorted({kind(l) for l in leaves if kind(l).startswith("free:")})
            bad_dis = None
            live = False
            for disabled, enabled in ((True, False), (False, True), (False, False)):
                for bits in itertools.product((False, True), repeat=len(free)):
                    env = dict(zip(free, bits))

                    def val(l, disabled=disabled, enabled=enabled, env=env):
                        k = kind(l)
                        return {"dis": disabled, "notdis": not disabled, "en": enabled, "noten": not enabled, "isen": enabled and not disabled}.get(k, env.get(k, False))
                    res = _bool_eval(cond, val)
                    if disabled and res and bad_dis is None:
                        bad_dis = {k[5:]: v for k, v in env.items()}
                    if enabled and not disabled and all(bits) and res:
                        live = True
            if bad_dis is not None:
                r9.violation(key, f.loc(c), f"with {code} in disabled_error_codes the call is still made when {bad_dis or 'always'}: the diagnostic (and a non-zero exit status) is produced for a code the user disabled")
            else:
                r9.ok(key, f.loc(c), f"guard: {norm(cond)[:140]}")
            key2 = f"{f.qualname} -> {c.func.attr}: generated when {code} is enabled"
            if live:
                r9.ok(key2, f.loc(c))
            else:
                r9.violation(key2, f.loc(c), f"the guard `{norm(cond)[:140]}` is false even with {code} explicitly enabled and every other atom true")
    if n_sites < len(gens):
        raise AnalysisError(f"only {n_sites} call sites of {sorted(gens)} found")


def run_notes_carry_code(chk: Check, ix) -> None:
    """R13.11: a note that explains a coded error carries that code."""
    r11 = chk.rule("R13.11", "a note reported without `code=` / `parent_error=` gets the code `misc`; where a function reports errors only with an explicit code, the notes it reports next to them carry a code too (the error's), because an ignore comment or a disabled code removes diagnostics by code: an un-coded note survives the suppression of the error it explains, and a second note then complains that `misc` is not covered", floor=20)
    n = 0
    for q, f in sorted(ix.functions.items()):
        mn = f.module.name
        if f.parent is not None or not mn.startswith("mypy.") or ".test" in mn or mn.startswith(("mypy.stub", "mypy.dmypy")):
            continue
        calls = [c for c in ast.walk(f.node) if isinstance(c, ast.Call) and isinstance(c.func, ast.Attribute)]
        fails = [c for c in calls if c.func.attr == "fail"]
        notes = [c for c in calls if c.func.attr in ("note", "note_multiline")]
        if not fails or not notes:
            continue
        coded = [c for c in fails if any(k.arg == "code" and not (isinstance(k.value, ast.Constant) and k.value.value is None) for k in c.keywords)]
        if len(coded) != len(fails):
            continue  # the function also reports errors without an explicit code (they are `misc` themselves)
        codes_used = sorted({norm(next(k.value for k in c.keywords if k.arg == "code")) for c in coded})
        for nt in notes:
            n += 1
            kws = {k.arg for k in nt.keywords}
            key = f"{q}: note `{norm(nt.args[0])[:50] if nt.args else ''}` next to {codes_used} errors carries a code"
            if {"code", "parent_error"} & kws:
                r11.ok(key, f.loc(nt))
            else:
                r11.violation(key, f.loc(nt), f"the function reports its errors with code {codes_used} and this note with none (so `misc`): `# type: ignore[{codes_used[0].split('.')[-1].lower().replace('_', '-')}]` removes the error and leaves the note")
    # note-only helpers of MessageBuilder called by a method that reports a coded error
    mb = ix.cls("mypy.messages.MessageBuilder")
    for hname, h in sorted(mb.methods.items()):
        hcalls = [c for c in ast.walk(h.node) if isinstance(c, ast.Call) and isinstance(c.func, ast.Attribute) and norm(c.func.value) == "self"]
        hnotes = [c for c in hcalls if c.func.attr in ("note", "note_multiline")]
        if not hnotes or any(c.func.attr == "fail" for c in hcalls):
            continue
        callers = []
        for cname, cm in mb.methods.items():
            if cm is h:
                continue
            # the helper is called in the statement right after a coded `self.fail(...)` of the same block
            adjacent = False
            for blk_owner in ast.walk(cm.node):
                for fld in ("body", "orelse", "finalbody"):
                    blk = getattr(blk_owner, fld, None)
                    if not isinstance(blk, list):
                        continue
                    for prev, cur in zip(blk, blk[1:]):
                        is_use = isinstance(cur, ast.Expr) and isinstance(cur.value, ast.Call) and isinstance(cur.value.func, ast.Attribute) and norm(cur.value.func.value) == "self" and cur.value.func.attr == hname
                        is_fail = isinstance(prev, ast.Expr) and isinstance(prev.value, ast.Call) and isinstance(prev.value.func, ast.Attribute) and prev.value.func.attr == "fail" and any(k.arg == "code" for k in prev.value.keywords)
                        if is_use and is_fail:
                            adjacent = True
            if adjacent:
                callers.append(cname)
        if not callers:
            continue
        for nt in hnotes:
            n += 1
            kws = {k.arg for k in nt.keywords}
            key = f"MessageBuilder.{hname}: the note of a helper called next to coded errors ({', '.join(sorted(callers))[:60]}) carries a code"
            if {"code", "parent_error"} & kws:
                r11.ok(key, h.loc(nt))
            else:
                r11.violation(key, h.loc(nt), f"{hname} is called by {sorted(callers)} right after a `self.fail(..., code=...)`, but its note has no code (so `misc`): suppressing the error by its code leaves the note behind")
    if n < 20:
        raise AnalysisError(f"only {n} notes next to coded errors found")


def run_watchers_see_everything(chk: Check, ix) -> None:
    """R13.12: the ErrorWatcher stack is consulted before any decision that depends on codes, ignores or options."""
    from ..cfg import CFG
    r = chk.rule("R13.12", "the checker decides speculative checks (which overload item matches, __add__ or __radd__, which union item accepts a call) by asking ErrorWatchers whether an error was produced, so what a watcher sees must not depend on which error codes are enabled or ignored: in Errors.add_error_info and Errors._add_error_info every `return` is preceded on every CFG path by the call `self._filter_error(file, info)` (the watcher stack), i.e. nothing returns earlier", floor=2)
    for mname in ("add_error_info", "_add_error_info"):
        f = ix.func(f"mypy.errors.Errors.{mname}")
        g = CFG(f.node)
        filt = [n for n in g.nodes if n.stmt is not None and any(isinstance(c, ast.Call) and call_name(c) == "_filter_error" for c in ast.walk(n.stmt.test if n.kind == "test" and hasattr(n.stmt, "test") else n.stmt))]
        if not filt:
            if mname == "_add_error_info":
                r.info(f"Errors.{mname} no longer consults the watcher stack itself", f.loc(), "only add_error_info is checked")
                continue
            raise AnalysisError(f"Errors.{mname}: the `_filter_error` call was not found")
        rets = [n for n in g.nodes if n.kind == "stmt" and isinstance(n.stmt, ast.Return)]
        early = [x for x in rets if not g.must_pass(g.entry, [x], filt, labels_excluded=("exc",))]
        key = f"Errors.{mname}: no return before the ErrorWatcher stack has seen the error"
        if not early:
            r.ok(key, f.loc(filt[0].stmt))
        else:
            r.violation(key, f.loc(early[0].stmt), f"the `return` at line {early[0].stmt.lineno} is reachable without passing `self._filter_error(...)`: an error dropped here (disabled code, ignored line) is invisible to the watchers, a speculative check then succeeds where it fails by default, another overload item / operator method is chosen and diagnostics with *other* codes change when a code is disabled")


def run_state_asks_about_its_own_module(chk: Check, ix) -> None:
    """R13.13: a per-module question to the Errors object is asked after the module has been made current."""
    from ..cfg import CFG
    r = chk.rule("R13.13", "Errors.is_error_code_enabled answers from Errors.options, the options of the file passed to set_file() last. A build.State method that asks it (whether to produce per-module diagnostics such as ignore-without-code) first makes its own module current (`self.manager.errors.set_file(self.xpath, self.id, self.options)` on every path to the question), or answers from self.options directly as generate_unused_ignore_notes does: otherwise, inside an import cycle, the answer is that of whichever module of the cycle was finished last, and the diagnostics depend on the order of the files on the command line", floor=1)
    st = ix.cls("mypy.build.State")
    n = 0
    for name, f in sorted(st.methods.items()):
        asks = [c for c in ast.walk(f.node) if isinstance(c, ast.Call) and call_name(c) == "is_error_code_enabled" and norm(c.func).startswith("self.manager.errors.")]
        if not asks:
            continue
        n += 1
        g = CFG(f.node)

        def node_of(call):
            for nd in g.nodes:
                if nd.stmt is not None and any(x is call for x in ast.walk(nd.stmt.test if nd.kind == "test" and hasattr(nd.stmt, "test") else nd.stmt)):
                    return nd
            return None
        sets = [nd for nd in g.nodes if nd.kind == "stmt" and any(isinstance(c, ast.Call) and call_name(c) == "set_file" and c.args and norm(c.args[0]) in ("self.xpath", "self.path") for c in ast.walk(nd.stmt))]
        key = f"State.{name}: the module is made current before Errors is asked about an error code"
        nodes = [node_of(c) for c in asks]
        if all(nd is not None and sets and g.must_pass(g.entry, [nd], sets, labels_excluded=("exc",)) for nd in nodes):
            r.ok(key, f.loc(asks[0]))
        else:
            r.violation(key, f.loc(asks[0]), "`self.manager.errors.is_error_code_enabled(...)` is asked without a preceding set_file(self.xpath, ...): with `[mypy-a] enable_error_code = ignore-without-code` and a cycle a <-> b, `mypy a.py b.py` reports the error in both modules and `mypy b.py a.py` in none")
    # no asker at all: the instance floor of the rule reports it (as a note when the property already has a violation)


def run_severity_by_first_marker(chk: Check, ix) -> None:
    """R13.14: whether a formatted message is an error or a note is not decided by the text it quotes."""
    r = chk.rule("R13.14", "util.count_stats (the summary line, and through util.only_notes the exit status of mypy and the daemon) classifies formatted messages; a message may quote program text containing `: note:` or `: error:` (a string literal, a Literal type), so the two selections are not two independent containment tests (`': error:' in e`, `': note:' in e`): an error quoting `: note:` would count as a note (exit status 0 with `Found 1 error`), a note quoting `: error:` as an error", floor=1)
    f = ix.func("mypy.util.count_stats")
    bare = []
    for comp in ast.walk(f.node):
        if isinstance(comp, (ast.ListComp, ast.SetComp, ast.GeneratorExp)):
            for g in comp.generators:
                for c in g.ifs:
                    if isinstance(c, ast.Compare) and len(c.ops) == 1 and isinstance(c.ops[0], ast.In) and isinstance(c.left, ast.Constant) and isinstance(c.left.value, str) and c.left.value.strip() in (": error:", ": note:", "error:", "note:"):
                        bare.append(c)
    key = "count_stats: a message is classified by its severity marker, not by containing a marker's text"
    if len(bare) >= 2:
        r.violation(key, f.loc(bare[0]), f"`{norm(bare[0])}` and `{norm(bare[1])}` are independent containment tests: `x: Literal[\"a\"] = \": note:\"` is counted as an error *and* as a note, only_notes() holds and mypy exits 0 although it found an error")
    else:
        r.ok(key, f.loc())


def run_code_selection_is_keyed(chk: Check, ix) -> None:
    """R13.16: the option values that decide whether a code is enabled are part of the cache validity key."""
    r16 = chk.rule("R13.16", "the diagnostics of a module that is fresh in the cache are replayed as they were stored, i.e. as filtered by Errors.is_error_code_enabled() in the run that wrote them. Disabling or enabling a code in a later run removes or adds 'precisely the diagnostics carrying that code' only if the record is invalidated, so every Options attribute that is_error_code_enabled() reads (the *effective* per-module sets, which apply_changes() accumulates over config sections while the raw lists are replaced per section) is in OPTIONS_AFFECTING_CACHE (evaluated constant)", floor=2)
    f = ix.func("mypy.errors.Errors.is_error_code_enabled")
    mopt = ix.module("mypy.options")
    key = set(ix.const_eval(mopt, mopt.assigns["OPTIONS_AFFECTING_CACHE"]))
    read = sorted({a.attr for a in ast.walk(f.node) if isinstance(a, ast.Attribute) and norm(a.value) in ("self.options", "options")})
    if len(read) < 2:
        raise AnalysisError(f"Errors.is_error_code_enabled reads {read} from the options (expected the disabled and enabled code sets)")
    for o in read:
        k = f"is_error_code_enabled: Options.{o} is part of the cache key"
        if o in key:
            r16.ok(k, f.loc())
        else:
            r16.violation(k, "mypy/options.py", f"`{o}` decides which diagnostics a run stores for a module but is not in OPTIONS_AFFECTING_CACHE: with a per-module config section (which resets the raw disable_error_code / enable_error_code lists to []) a changed --disable-error-code / --enable-error-code leaves the module's record fresh, and the previous run's diagnostics and exit status are replayed")


def run_reports_on_behalf_use_that_modules_options(chk: Check, ix) -> None:
    """R13.17: a suppressible diagnostic reported for a module is filtered by that module's options."""
    r17 = chk.rule("R13.17", "Errors decides whether a code is enabled from the options handed to set_file(). The module-level functions of build.py that report a *non-blocking* diagnostic on behalf of a build State (`errors.set_file(<state>.xpath, <state>.id, opts)` followed by manager.error(...) without blocker=True: module_not_found, skipping_module, skipping_ancestor) pass that State's own options (`<state>.options`), where per-module and inline `disable_error_code` live; with the global options the diagnostic can only be removed from the command line", floor=3)
    b = ix.module("mypy.build")
    n = 0
    for f in b.functions.values():
        for c in ast.walk(f.node):
            if not (isinstance(c, ast.Call) and call_name(c) == "set_file" and len(c.args) + len(c.keywords) >= 3 and isinstance(c.args[0], ast.Attribute) and c.args[0].attr == "xpath" and isinstance(c.args[0].value, ast.Name)):
                continue
            st = c.args[0].value.id
            opts = c.args[2] if len(c.args) >= 3 else next((k.value for k in c.keywords if k.arg == "options"), None)
            if opts is None:
                continue
            # non-blocking reports in the function?
            reports = [e for e in ast.walk(f.node) if isinstance(e, ast.Call) and call_name(e) == "error" and not any(k.arg == "blocker" and isinstance(k.value, ast.Constant) and k.value.value is True for k in e.keywords)]
            if not reports:
                continue
            n += 1
            key = f"build.{f.name}: diagnostics attributed to `{st}` are filtered by `{st}.options`"
            if norm(opts) == f"{st}.options":
                r17.ok(key, f.loc(c))
            else:
                r17.violation(key, f.loc(c), f"set_file(..., {norm(opts)}): the per-module / inline `disable_error_code` of `{st}` is not consulted, so the error is not removed by disabling its code for that module (only by the global flag)")
    if n < 3:
        raise AnalysisError(f"build.py: only {n} module-level functions reporting a non-blocking diagnostic on behalf of a State found")


def run_unused_ignore_predicate_agrees(chk: Check, ix) -> None:
    """R13.18: both ignore-comment generators mean the same by 'unused ignores are reported'."""
    r18 = chk.rule("R13.18", "State.generate_unused_ignore_notes reports unused ignores under a condition over three inputs (warn_unused_ignores, UNUSED_IGNORE in enabled_error_codes, UNUSED_IGNORE not in disabled_error_codes); State.generate_ignore_without_code_notes passes 'unused ignores are reported' to Errors.generate_ignore_without_code_errors, which then leaves an unused bare ignore to the other generator. The value passed (a local or an expression) reads the same three inputs, so that an unused bare `# type: ignore` is reported exactly once however the report was enabled", floor=1)
    st = ix.cls("mypy.build.State")
    a, b = st.methods.get("generate_unused_ignore_notes"), st.methods.get("generate_ignore_without_code_notes")
    if a is None or b is None:
        raise AnalysisError("State.generate_unused_ignore_notes / generate_ignore_without_code_notes not found")

    def inputs(e: ast.AST) -> set[str]:
        out = set()
        for x in ast.walk(e):
            if isinstance(x, ast.Attribute) and norm(x.value) == "self.options":
                out.add(x.attr)
        return out
    from ..cfg import branch_conditions
    gen = [c for c in ast.walk(a.node) if isinstance(c, ast.Call) and call_name(c) == "generate_unused_ignore_errors"]
    if not gen:
        raise AnalysisError("generate_unused_ignore_notes: call of generate_unused_ignore_errors not found")
    par_a = a.module.parents()
    st_ = gen[0]
    while not isinstance(st_, ast.stmt):
        st_ = par_a[st_]
    pos_, neg_ = branch_conditions(par_a, a.node, st_, early_exits=True)
    want = set().union(*[inputs(t) for t in pos_ + neg_]) if pos_ or neg_ else set()
    if len(want) < 3:
        raise AnalysisError(f"generate_unused_ignore_notes: guard reads only {sorted(want)}")
    calls = [c for c in ast.walk(b.node) if isinstance(c, ast.Call) and call_name(c) == "generate_ignore_without_code_errors"]
    if len(calls) != 1 or len(calls[0].args) < 2:
        raise AnalysisError("generate_ignore_without_code_notes: call of generate_ignore_without_code_errors(file, is_warning_unused_ignores, ...) not found")
    arg = calls[0].args[1]
    if isinstance(arg, ast.Name):
        defs = [x.value for x in ast.walk(b.node) if isinstance(x, ast.Assign) and len(x.targets) == 1 and isinstance(x.targets[0], ast.Name) and x.targets[0].id == arg.id]
        got = set().union(*[inputs(d) for d in defs]) if defs else set()
    elif isinstance(arg, ast.Call) and isinstance(arg.func, ast.Attribute) and norm(arg.func.value) == "self" and arg.func.attr in st.methods:
        got = inputs(st.methods[arg.func.attr].node)
    else:
        got = inputs(arg)
    key = "generate_ignore_without_code_notes: 'unused ignores are reported' is computed from the inputs generate_unused_ignore_notes tests"
    if got == want:
        r18.ok(key, b.loc(calls[0]))
    else:
        r18.violation(key, b.loc(calls[0]), f"the value passed reads {sorted(got)} but the unused-ignore generator decides from {sorted(want)}: with `--enable-error-code unused-ignore --enable-error-code ignore-without-code` an unused bare `# type: ignore` gets both errors (with --warn-unused-ignores only one)")
