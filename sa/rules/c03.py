"""C03 — the daemon's fine-grained updates equal a full check (partial).

R03.1  re-processing pipeline order in reprocess_nodes and the propagation loop: old snapshot <
       clear errors < strip < semantic analysis < merge < type check < new snapshot < compare <
       update deps, all on every normal path; the trigger set returned is what the snapshots'
       comparison produced; targets with errors are always re-queued; protocol caches reset before
       reprocessing.
R03.2  type snapshots separate unequal types: for every Type subclass, the fields its __eq__
       compares are read by SnapshotTypeVisitor.visit_T.
R03.3  component-coverage matrix for TypeReplaceVisitor (astmerge), TypeTriggersVisitor (deps),
       SnapshotTypeVisitor (astdiff).
R03.4  fix-point bound of the propagation loop: instance of R20.1 (checked by C20).
"""

from __future__ import annotations

import ast

from ..cfg import CFG, call_name
from ..index import AnalysisError, get_index, norm
from ..matrix import coverage, reads_of_param, type_classes, visit_method_name
from ..report import Check
from .c11 import eq_fields

PIPELINE = [
    ("snapshot_symbol_table", "old snapshot taken before anything is stripped", 0),
    ("clear_errors_in_targets", "errors of the targets removed (else an error whose cause was fixed survives)", 0),
    ("strip_target", "semantic information of the targets stripped", 0),
    ("semantic_analysis_for_targets", "targets re-analysed", 0),
    ("merge_asts", "new AST merged into the old identities (else other modules keep references to dead nodes)", 0),
    ("check_second_pass", "targets re-checked", 0),
    ("snapshot_symbol_table", "new snapshot taken after checking", 1),
    ("compare_symbol_table_snapshots", "old and new snapshots compared", 0),
    ("update_deps", "dependencies of the targets regenerated", 0),
]


def run(chk: Check) -> None:
    ix = get_index()
    run_follow_imports(chk, ix)
    run_status(chk, ix)
    run_change_detection(chk, ix)
    run_traverser_children(chk, ix)
    run_checker_caches(chk, ix)
    run_twin_fields(chk, ix)
    run_not_in_dependency(chk, ix)
    run_reprocess_ignore_notes(chk, ix)
    run_mro_walk_dependencies(chk, ix)
    run_module_tests_not_substrings(chk, ix)
    run_var_snapshot_flags(chk, ix)
    run_relative_import_ids(chk, ix)
    run_stat_compared_for_equality(chk, ix)
    run_typeinfo_snapshot_flags(chk, ix)
    run_relative_imports_resolved_against_module(chk, ix)

    r1 = chk.rule("R03.1", "reprocess_nodes performs snapshot < clear < strip < analyse < merge < check < snapshot < compare < update_deps on every normal path, returns the compared triggers, and the propagation loop re-queues error targets and resets protocol caches first", floor=12)
    rp = ix.func("mypy.server.update.reprocess_nodes")
    g = CFG(rp.node, loops_at_least_once=True)

    def nodes_calling(name):
        return sorted([n for n in g.nodes if any(call_name(c) == name for c in n.calls())], key=lambda n: n.lineno)

    rets = [n for n in g.nodes if n.kind == "stmt" and isinstance(n.stmt, ast.Return) and n.stmt.value is not None and norm(n.stmt.value) != "set()"]
    if not rets:
        raise AnalysisError("reprocess_nodes: final return not found")
    prev = None
    prev_name = None
    for name, why, occ in PIPELINE:
        ns = nodes_calling(name)
        if len(ns) <= occ:
            r1.violation(f"reprocess_nodes: step {name}#{occ + 1} present", rp.loc(), f"step missing: {why}")
            prev = None
            continue
        n = ns[occ]
        # a step applied per element inside a loop (`for name in old_symbols: if name in new_symbols:
        # merge_asts(...)`) is represented by the head of its outermost enclosing loop
        outer = None
        for lp in ast.walk(rp.node):
            if isinstance(lp, ast.For) and any(x is n.stmt for x in ast.walk(lp)) and lp in rp.node.body:
                outer = lp
        if outer is not None:
            heads = [x for x in g.nodes if x.kind == "for-iter" and x.stmt is outer]
            if heads:
                n = heads[0]
        key = f"reprocess_nodes: {prev_name or 'entry'} < {name}" + ("#2" if occ else "")
        on_all = all(g.must_pass(g.entry, [r], [n], labels_excluded=("exc",)) for r in rets)
        after_prev = prev is None or g.must_pass(g.entry, [n], [prev], labels_excluded=("exc",))
        if on_all and after_prev:
            r1.ok(key, rp.loc(n.stmt), why)
        elif not on_all:
            r1.violation(key, rp.loc(n.stmt), f"a normal path through reprocess_nodes skips {name}: {why}")
        else:
            r1.violation(key, rp.loc(n.stmt), f"{name} can run before {prev_name}: {why}")
        prev, prev_name = n, name
    # the result is derived from the comparison
    from ..pattern import find_all
    trig = find_all(rp.node, [
        "$old = snapshot_symbol_table(file_node.fullname, file_node.names)",
        "$new = snapshot_symbol_table(file_node.fullname, file_node.names)",
        "$changed = compare_symbol_table_snapshots(file_node.fullname, $old, $new)",
        "$trig = {make_trigger($n) for $n in $changed}",
    ])
    trig = [b for b in trig if b["old"] != b["new"] and norm(rets[-1].stmt.value) == b["trig"]]
    # `old` is the snapshot taken before re-analysis, `new` the one taken after
    def _line_of(name):
        return min(a.lineno for a in ast.walk(rp.node) if isinstance(a, ast.Assign) and norm(a.targets[0]) == name)
    sa_lines = [c.lineno for c in ast.walk(rp.node) if isinstance(c, ast.Call) and call_name(c) == "semantic_analysis_for_targets"]
    trig = [b for b in trig if sa_lines and _line_of(b["old"]) < min(sa_lines) < _line_of(b["new"])]
    if trig:
        r1.ok("reprocess_nodes returns the triggers of (old snapshot vs new snapshot)", rp.loc(rets[-1].stmt))
    else:
        r1.violation("reprocess_nodes returns the triggers of (old snapshot vs new snapshot)", rp.loc(rets[-1].stmt), "the fired triggers are no longer the comparison of the snapshot taken before with the one taken after")
    if trig and find_all(rp.node, [f"{trig[0]['changed']} |= wildcard_triggers_for_changes(module_id, {trig[0]['changed']})"]):
        r1.ok("reprocess_nodes adds wildcard triggers for changed names", rp.loc())
    else:
        r1.violation("reprocess_nodes adds wildcard triggers for changed names", rp.loc(), "`from m import *` dependants are no longer triggered")
    # every deferred node is stripped (loop over the same `nodes` list that is analysed)
    strip_loop = [n for n in ast.walk(rp.node) if isinstance(n, ast.For) and any(isinstance(c, ast.Call) and call_name(c) == "strip_target" for c in ast.walk(n))]
    sa_call = [c for c in ast.walk(rp.node) if isinstance(c, ast.Call) and call_name(c) == "semantic_analysis_for_targets"]
    chk_call = [c for c in ast.walk(rp.node) if isinstance(c, ast.Call) and call_name(c) == "check_second_pass" and c.args]
    if strip_loop and sa_call and chk_call and norm(strip_loop[0].iter) == norm(sa_call[0].args[1]) == norm(chk_call[0].args[0]):
        r1.ok("the same node list is stripped, re-analysed and re-checked", rp.loc(strip_loop[0]))
    else:
        r1.violation("the same node list is stripped, re-analysed and re-checked", rp.loc(), "strip / analyse / check operate on different node collections")

    pc = ix.func("mypy.server.update.propagate_changes_using_dependencies")
    gp = CFG(pc.node)
    rep = [n for n in gp.nodes if any(call_name(c) == "reprocess_nodes" for c in n.calls())]
    if not rep:
        raise AnalysisError("propagate_changes_using_dependencies no longer calls reprocess_nodes")
    reset = [n for n in gp.nodes if any(call_name(c) == "reset_subtype_caches_for" for c in n.calls())]
    loops = [n for n in gp.nodes if n.kind == "test" and isinstance(n.stmt, ast.While)]
    head = loops[0] if loops else None
    err_loop = [n for n in gp.nodes if n.kind == "for-iter" and norm(n.exprs[0]) == "targets_with_errors"]
    if head is not None and err_loop and all(gp.must_pass(head, [r], err_loop, labels_excluded=("exc",)) for r in rep):
        r1.ok("propagation loop: targets with errors are re-queued before reprocessing on every iteration", pc.loc(err_loop[0].stmt))
    else:
        r1.violation("propagation loop: targets with errors are re-queued before reprocessing on every iteration", pc.loc(), "targets that had errors are not reprocessed: an error whose cause was removed elsewhere survives")
    fr = [n for n in gp.nodes if any(call_name(c) == "find_targets_recursive" for c in n.calls())]
    if head is not None and fr and reset and all(gp.must_pass(head, [r], fr, labels_excluded=("exc",)) for r in rep):
        r1.ok("propagation loop: find_targets_recursive before reprocess_nodes; stale protocol caches reset", pc.loc(fr[0].stmt))
    else:
        r1.violation("propagation loop: find_targets_recursive before reprocess_nodes; stale protocol caches reset", pc.loc(), "targets are reprocessed without recomputing the affected set / without resetting protocol subtype caches")
    # every stale protocol is reset, unconditionally, before the first target is re-processed
    from ..cfg import branch_conditions
    parp = pc.module.parents()
    rcalls = [c for c in ast.walk(pc.node) if isinstance(c, ast.Call) and call_name(c) == "reset_subtype_caches_for"]
    key = "propagation loop: the subtype caches of *all* stale protocols are reset before any target is re-processed"
    okr = False
    whyr = "no reset_subtype_caches_for call"
    if rcalls:
        st_ = rcalls[0]
        while not isinstance(st_, ast.stmt):
            st_ = parp[st_]
        pos_, neg_ = branch_conditions(parp, pc.node, st_)
        enclosing = []
        p_ = parp.get(st_)
        while p_ is not None and p_ is not pc.node:
            if isinstance(p_, ast.For):
                enclosing.append(p_)
            p_ = parp.get(p_)
        rep_loops = [l for l in ast.walk(pc.node) if isinstance(l, ast.For) and any(isinstance(c, ast.Call) and call_name(c) == "reprocess_nodes" for c in ast.walk(l))]
        whyr = ""
        if pos_ or neg_:
            whyr = f"the reset is conditional on {[norm(x) for x in pos_ + neg_]}"
        elif len(enclosing) != 1 or "stale_protos" not in norm(enclosing[0].iter):
            whyr = f"the reset sits in loops over {[norm(l.iter) for l in enclosing]} instead of one loop over the stale protocols"
        elif not rep_loops or not (enclosing[0].end_lineno < rep_loops[0].lineno):
            whyr = "the reset loop does not come before the loop that re-processes the targets"
        else:
            okr = True
    if okr:
        r1.ok(key, pc.loc(rcalls[0]))
    else:
        r1.violation(key, pc.loc(rcalls[0]) if rcalls else pc.loc(), whyr + ": a target re-processed earlier is checked against the memoised answers for the protocol's previous implementers (a stale negative entry hides that a class now implements the protocol)")
    # the triggers returned by reprocess_nodes feed the loop condition
    s2 = norm(pc.node)
    if "triggered |= reprocess_nodes(" in s2 and isinstance(head.stmt.test, ast.BoolOp) and "triggered" in norm(head.stmt.test):
        r1.ok("propagation loop continues while reprocess_nodes fires triggers", pc.loc(head.stmt))
    else:
        r1.violation("propagation loop continues while reprocess_nodes fires triggers", pc.loc(), "triggers fired by reprocessing are dropped: changes stop propagating after one step")

    # ---------------- R03.2
    r2 = chk.rule("R03.2", "for every Type subclass the fields compared by __eq__ are read by SnapshotTypeVisitor.visit_T (two unequal types get different snapshots)", floor=30)
    sv = ix.cls("mypy.server.astdiff.SnapshotTypeVisitor")
    for c in type_classes(ix):
        eq = eq_fields(c)
        vm = visit_method_name(c)
        if not eq or vm is None:
            continue
        m = sv.lookup_method(vm)
        if m is None:
            continue
        reads = reads_of_param(ix, m)
        for a in sorted(eq):
            key = f"SnapshotTypeVisitor.{vm} reads {c.name}.{a}"
            if a in reads or a.lstrip("_") in reads or "_" + a in reads:
                r2.ok(key, m.loc())
            else:
                r2.violation(key, m.loc(), f"{c.name}.__eq__ distinguishes values by `{a}` but the snapshot ignores it: a change of `{a}` alone fires no trigger and dependants keep stale results")

        # each distinguishing field keeps its own component: no lossy combination of two of them
        pname = [a.arg for a in m.params][1] if len(m.params) > 1 else None
        for e in ast.walk(m.node):
            if isinstance(e, (ast.BoolOp, ast.IfExp)) or (isinstance(e, ast.BinOp) and not isinstance(e.op, ast.Add)):
                if isinstance(e, ast.IfExp):
                    parts = [e.body, e.orelse]
                elif isinstance(e, ast.BoolOp):
                    parts = e.values
                else:
                    parts = [e.left, e.right]
                used = []
                for p_ in parts:
                    u = {x.attr for x in ast.walk(p_) if isinstance(x, ast.Attribute) and isinstance(x.value, ast.Name) and x.value.id == pname and x.attr in eq}
                    used.append(u)
                distinct = [u for u in used if u]
                if len(distinct) >= 2 and len(set().union(*distinct)) >= 2 and not any(distinct[i] & distinct[j] for i in range(len(distinct)) for j in range(i + 1, len(distinct))):
                    flds = sorted(set().union(*distinct))
                    r2.violation(f"SnapshotTypeVisitor.{vm}: {c.name}.{flds[0]} and {c.name}.{flds[1]} keep separate snapshot components", m.loc(e), f"`{norm(e)[:80]}` folds the distinguishing fields {flds} into one component: two {c.name} values that differ only in which of them is set get equal snapshots, so the edit fires no trigger")

    # ---------------- R03.3
    r3 = chk.rule("R03.3", "component-coverage matrix: TypeReplaceVisitor (astmerge), TypeTriggersVisitor (deps) and SnapshotTypeVisitor (astdiff) reach every type-valued field of every Type subclass", floor=80)
    for vq in ("mypy.server.astmerge.TypeReplaceVisitor", "mypy.server.deps.TypeTriggersVisitor", "mypy.server.astdiff.SnapshotTypeVisitor"):
        v = ix.cls(vq)
        cells = coverage(ix, v)
        for (cn, fld), (ok, where) in sorted(cells.items()):
            key = f"{v.name} x {cn}.{fld}"
            if ok:
                r3.ok(key, where)
            else:
                r3.violation(key, where, f"{v.name} does not reach {cn}.{fld}: a type nested there is not " + {"TypeReplaceVisitor": "re-pointed to the merged (live) TypeInfo", "TypeTriggersVisitor": "turned into a dependency trigger", "SnapshotTypeVisitor": "part of the snapshot"}[v.name])


def run_follow_imports(chk: Check, ix) -> None:
    """R03.4: the daemon's follow-imports walk visits every module found changed."""
    r4 = chk.rule("R03.4", "fine_grained_increment_follow_imports: every module that find_reachable_changed_modules reports as changed is both updated and queued so that its own imports are followed; the queue is never filtered by the `seen` set the finder itself marks", floor=3)
    f = ix.func("mypy.dmypy_server.Server.fine_grained_increment_follow_imports")
    finder = ix.func("mypy.dmypy_server.Server.find_reachable_changed_modules")
    fparams = [a.arg for a in finder.params]
    # which parameter of the finder is a set it adds every returned module to?
    marked = {a for a in fparams if any(isinstance(c, ast.Call) and isinstance(c.func, ast.Attribute) and c.func.attr in ("add", "update") and norm(c.func.value) == a for c in ast.walk(finder.node))}
    if not marked:
        raise AnalysisError("find_reachable_changed_modules no longer marks a `seen` parameter")
    loops = [n for n in ast.walk(f.node) if isinstance(n, ast.While) and isinstance(n.test, ast.Name) and any(isinstance(c, ast.Call) and call_name(c) == "find_reachable_changed_modules" for c in ast.walk(n))]
    if len(loops) != 1:
        raise AnalysisError("follow-imports worklist loop not found")
    loop = loops[0]
    wl = loop.test.id  # the work-queue variable
    n_calls = 0
    for scope, label in ((f.node, "initial"), (loop, "loop")):
        body = scope.body
        for st in body if scope is loop else [x for x in body if x is not loop]:
            if not (isinstance(st, ast.Assign) and isinstance(st.value, ast.Call) and call_name(st.value) == "find_reachable_changed_modules" and isinstance(st.targets[0], ast.Tuple)):
                continue
            n_calls += 1
            res = st.targets[0].elts[0]
            resname = res.id if isinstance(res, ast.Name) else None
            call = st.value
            seen_args = set()
            for i, a in enumerate(call.args):
                pn = fparams[i + 1] if i + 1 < len(fparams) else None
                if pn in marked:
                    seen_args.add(norm(a))
            later = [x for x in body[body.index(st) + 1:] if x is not loop]
            updated = any(isinstance(c, ast.Call) and call_name(c) == "update" and c.args and norm(c.args[0]) == resname for x in later for c in ast.walk(x))
            key = f"{label}: the changed modules found are passed to fine_grained_manager.update"
            if updated:
                r4.ok(key, f.loc(st))
            else:
                r4.violation(key, f.loc(st), "modules found changed are not re-processed")
            queued = None
            for x in later:
                for c in ast.walk(x):
                    if isinstance(c, ast.Call) and isinstance(c.func, ast.Attribute) and c.func.attr in ("extend", "append") and norm(c.func.value) == wl and c.args:
                        queued = c.args[0]
                    if isinstance(c, ast.Assign) and norm(c.targets[0]) == wl:
                        queued = c.value
            key = f"{label}: every changed module found is queued for following its imports"
            if queued is None:
                r4.violation(key, f.loc(st), "the modules found changed are never put on the worklist: imports of a changed module are not followed")
                continue
            qt = norm(queued)
            if qt in (resname, f"{resname}.copy()", f"list({resname})", f"{resname}[:]"):
                r4.ok(key, f.loc(st))
                continue
            filt = []
            if isinstance(queued, (ast.GeneratorExp, ast.ListComp)) and any(norm(g.iter) == resname for g in queued.generators):
                for g in queued.generators:
                    for c in g.ifs:
                        for cmp_ in ast.walk(c):
                            if isinstance(cmp_, ast.Compare) and isinstance(cmp_.ops[0], (ast.NotIn, ast.In)):
                                filt.append(norm(cmp_.comparators[0]))
            if any(x in seen_args for x in filt):
                r4.violation(key, f.loc(queued), f"the queue is filtered by `{sorted(set(filt) & seen_args)[0]}`, the very set find_reachable_changed_modules adds each module it returns to: every changed module is dropped, so the walk follows imports only one changed module deep and modules below are treated as deleted")
            elif isinstance(queued, (ast.GeneratorExp, ast.ListComp)):
                r4.info(key + " (filtered)", f.loc(queued), f"queued through a filter on {filt}; not a set the finder marks")
            else:
                r4.violation(key, f.loc(queued), f"the worklist receives `{qt}`, not the list of changed modules")
    if n_calls < 2:
        raise AnalysisError("expected the initial and the in-loop call of find_reachable_changed_modules")


def _atom_text(e: ast.expr) -> str:
    """Text of a leaf condition; a call of util.only_notes(messages, <format selector>) is one atom whatever
    the spelling of the module prefix and of the selector (checked separately)."""
    if isinstance(e, ast.Call) and call_name(e) == "only_notes" and e.args:
        return f"only_notes({norm(e.args[0])})"
    return norm(e)


def _atoms(e: ast.expr) -> set[str]:
    if isinstance(e, ast.BoolOp):
        return set().union(*[_atoms(v) for v in e.values])
    if isinstance(e, ast.UnaryOp) and isinstance(e.op, ast.Not):
        return _atoms(e.operand)
    return {_atom_text(e)}


def _eval_bool(e: ast.expr, env: dict[str, bool]) -> bool:
    if isinstance(e, ast.BoolOp):
        vals = [_eval_bool(v, env) for v in e.values]
        return all(vals) if isinstance(e.op, ast.And) else any(vals)
    if isinstance(e, ast.UnaryOp) and isinstance(e.op, ast.Not):
        return not _eval_bool(e.operand, env)
    return env[_atom_text(e)]


def _same_truth_table(a: ast.expr, b: ast.expr) -> bool:
    import itertools
    atoms = sorted(_atoms(a) | _atoms(b))
    for bits in itertools.product([False, True], repeat=len(atoms)):
        env = dict(zip(atoms, bits))
        if _eval_bool(a, env) != _eval_bool(b, env):
            return False
    return True


def run_status(chk: Check, ix) -> None:
    """R03.5: every daemon check response derives its status from the messages the way main() does."""
    r5 = chk.rule("R03.5", "the status of a daemon check response is computed from the message list by the same predicate on every path (first check, incremental check) and that predicate is main()'s: non-zero only if some message is not a note", floor=3)
    mm = ix.func("mypy.main.main")
    main_pred = None
    for n in ast.walk(mm.node):
        if isinstance(n, ast.If) and any(isinstance(a, ast.Assign) and norm(a.targets[0]) == "code" for a in n.body):
            if "messages" in norm(n.test):
                main_pred = norm(n.test)
                main_test = n.test
    if main_pred is None:
        raise AnalysisError("main(): the test deciding a non-zero exit code was not found")
    r5.ok(f"main(): exit code is non-zero iff `{main_pred}`", mm.loc())
    srv = ix.cls("mypy.dmypy_server.Server")
    n_sites = 0
    for mn, f in sorted(srv.methods.items()):
        for a in ast.walk(f.node):
            if isinstance(a, ast.Assign) and norm(a.targets[0]) == "status" and isinstance(a.value, ast.IfExp):
                v = a.value
                n_sites += 1
                key = f"Server.{mn}: status = {norm(v)}"
                shape = isinstance(v.body, ast.Constant) and v.body.value == 1 and isinstance(v.orelse, ast.Constant) and v.orelse.value == 0
                if shape and not (_atoms(v.test) <= _atoms(main_test)):
                    raise AnalysisError(f"Server.{mn}: status predicate `{norm(v.test)}` uses conditions main() does not ({sorted(_atoms(v.test) - _atoms(main_test))}); cannot compare")
                sel_ok = True
                for c in ast.walk(v.test):
                    if isinstance(c, ast.Call) and call_name(c) == "only_notes" and len(c.args) > 1:
                        sel = c.args[1]
                        if isinstance(sel, ast.Name):
                            defs = [x.value for x in ast.walk(f.node) if isinstance(x, ast.Assign) and norm(x.targets[0]) == sel.id]
                            sel = defs[0] if len(defs) == 1 else sel
                        sel_ok = sel_ok and norm(sel).replace('"', "'").endswith(".output == 'json'")
                if shape and sel_ok and _same_truth_table(v.test, main_test):
                    r5.ok(key, f.loc(a))
                else:
                    r5.violation(key, f.loc(a), f"this path answers with a status that is not `1 if {main_pred} else 0`: the same program gets a different exit status from this daemon request than from a full run (for example output that consists only of notes)")
    if n_sites < 2:
        raise AnalysisError(f"only {n_sites} status computations found in dmypy_server.Server")


def run_change_detection(chk: Check, ix) -> None:
    """R03.6: the file watcher reports a path as changed exactly on: new, deleted, or (stat differs and content differs)."""
    from ..pattern import find_all
    r6 = chk.rule("R03.6", "FileSystemWatcher._find_changed: a deleted or new path is reported; otherwise the stat pre-filter compares size and mtime, a path that passes it is re-hashed, its record refreshed, and it is reported when size or hash differ", floor=4)
    fc = ix.func("mypy.fswatcher.FileSystemWatcher._find_changed")
    g = CFG(fc.node)
    adds = [n for n in g.nodes if any(call_name(c) == "add" and norm(c.func.value) == "changed" for c in n.calls())]
    if len(adds) < 3:
        r6.violation("three reporting sites (deleted, new, modified)", fc.loc(), f"only {len(adds)} `changed.add(path)` sites: one kind of change is no longer reported")
        return
    from ..cfg import branch_conditions
    par = fc.module.parents()
    kinds = {}
    for a in adds:
        pos, neg = branch_conditions(par, fc.node, a.stmt)
        t = {norm(x) for x in pos}
        if "st is None" in t and "old is not None" in t:
            kinds["deleted"] = a
        elif "old is None" in t:
            kinds["new"] = a
        else:
            kinds["modified"] = (a, pos)
    for k in ("deleted", "new", "modified"):
        if k in kinds:
            r6.ok(f"a {k} path is added to the changed set", fc.loc((kinds[k][0] if k == "modified" else kinds[k]).stmt))
        else:
            r6.violation(f"a {k} path is added to the changed set", fc.loc(), f"no reporting site for a {k} file")
    if "modified" in kinds:
        a, pos = kinds["modified"]
        texts = [norm(x) for x in pos]
        pre = [t for t in texts if "st_mtime" in t]
        final = [t for t in texts if ".hash" in t]
        key = "the stat pre-filter looks at size and mtime; the final decision at size or content hash"
        okpre = bool(pre) and all("st_size" in t and "st_mtime" in t and " or " in t for t in pre)
        okfin = bool(final) and all(("!= old.hash" in t or "old.hash !=" in t) for t in final)
        if okpre and okfin:
            r6.ok(key, fc.loc(a.stmt))
        else:
            r6.violation(key, fc.loc(a.stmt), f"modified files are detected under {texts}: an edit that keeps the size (or falls in the same second) or that only changes the content is missed")
        upd = [n for n in g.nodes if any(call_name(c) == "_update" for c in n.calls())]
        if upd and g.must_pass(g.entry, [a], upd, labels_excluded=("exc",)):
            r6.ok("the stored record is refreshed before a modification is reported", fc.loc(a.stmt))
        else:
            r6.violation("the stored record is refreshed before a modification is reported", fc.loc(a.stmt), "the remembered (mtime, size, hash) is not updated: the same change is reported on every later request or a revert goes unnoticed")


def run_traverser_children(chk: Check, ix) -> None:
    """R03.7: the generic traverser (base of the dependency, strip, merge and sub-expression visitors) descends into every child."""
    import re
    r7 = chk.rule("R03.7", "TraverserVisitor.visit_X reads (and so descends into) every field of node class X whose declared type is a syntax node, a list of them or a Block; the dependency generator, the strip and merge visitors and the sub-expression finder all inherit this traversal, so a skipped child gets no dependencies and is never re-processed", floor=100)
    nodeish = re.compile(r"\b(Expression|Statement|Block|Node|Pattern|Lvalue|NameExpr|RefExpr|FuncItem|FuncDef|Decorator|OverloadPart|Argument|StrExpr|TypeParam|MypyFile|ClassDef|CallExpr|TupleExpr|LambdaExpr|Var|WithStmt|IfStmt|GeneratorExpr|DictionaryComprehension)\b")
    mods = (ix.module("mypy.nodes"), ix.module("mypy.patterns"))
    trav = ix.cls("mypy.traverser.TraverserVisitor")
    n_classes = 0
    for m in mods:
        for cn, c in sorted(m.classes.items()):
            a = c.methods.get("accept")
            if not a:
                continue
            vm = None
            for n in ast.walk(a.node):
                if isinstance(n, ast.Call) and isinstance(n.func, ast.Attribute) and n.func.attr.startswith("visit_"):
                    vm = n.func.attr
            if not vm:
                continue
            if vm not in trav.methods:
                if cn != "PlaceholderNode":
                    r7.violation(f"TraverserVisitor has a visit method for {cn}", f"{trav.module.relpath}:{trav.node.lineno}", f"{vm} is not defined by TraverserVisitor: visitors built on it never see the children of a {cn}")
                continue
            n_classes += 1
            fields: dict[str, str] = {}
            for b in c.mro():
                if b.module not in mods:
                    continue
                for n in b.node.body:
                    if isinstance(n, ast.AnnAssign) and isinstance(n.target, ast.Name):
                        fields.setdefault(n.target.id, norm(n.annotation))
                init = b.methods.get("__init__")
                if init:
                    ann = {p_.arg: norm(p_.annotation) for p_ in init.node.args.args if p_.annotation}
                    for n in ast.walk(init.node):
                        if isinstance(n, ast.AnnAssign) and isinstance(n.target, ast.Attribute) and norm(n.target.value) == "self":
                            fields.setdefault(n.target.attr, norm(n.annotation))
                        if isinstance(n, ast.Assign) and isinstance(n.targets[0], ast.Attribute) and norm(n.targets[0].value) == "self" and isinstance(n.value, ast.Name) and n.value.id in ann:
                            fields.setdefault(n.targets[0].attr, ann[n.value.id])
            reads = reads_of_param(ix, trav.methods[vm])
            for fld, t in sorted(fields.items()):
                if not nodeish.search(t) or "Callable" in t:
                    continue
                key = f"TraverserVisitor.{vm} descends into {cn}.{fld}"
                if fld in reads:
                    r7.ok(key, trav.methods[vm].loc())
                else:
                    r7.violation(key, trav.methods[vm].loc(), f"`{fld}: {t}` is a child of {cn} that the generic traversal never visits: names used inside it get no fine-grained dependencies, are not stripped before re-analysis and are not merged")
    if n_classes < 70:
        raise AnalysisError(f"only {n_classes} node classes matched with TraverserVisitor methods")


def run_checker_caches(chk: Check, ix) -> None:
    """R03.8: what the type checker caches on syntax nodes under a condition is reset before a target is re-processed."""
    from ..resolve import Resolver, members
    r8 = chk.rule("R03.8", "an attribute of an expression or statement node that the type checker assigns only under a condition (a cache that is filled when there is something to cache and never cleared) is reset by NodeStripVisitor before the target is re-analysed; otherwise the value computed for the previous version of the program survives an edit in the daemon", floor=2)
    R = Resolver(ix)
    syntax = {q for q, c in ix.classes.items() if c.module.name in ("mypy.nodes", "mypy.patterns") and (c.is_subclass_of("mypy.nodes.Expression") or c.is_subclass_of("mypy.nodes.Statement")) and not c.is_subclass_of("mypy.nodes.SymbolNode")}
    strip = ix.cls("mypy.server.aststrip.NodeStripVisitor")
    reset = set()
    for m in strip.methods.values():
        for a in ast.walk(m.node):
            if isinstance(a, (ast.Assign, ast.AnnAssign)):
                for t in (a.targets if isinstance(a, ast.Assign) else [a.target]):
                    if isinstance(t, ast.Attribute):
                        reset.add(t.attr)
    POS = {"line", "column", "end_line", "end_column"}
    sites: dict[str, list] = {}
    for q, f in sorted(ix.functions.items()):
        if f.parent is not None or f.module.name not in ("mypy.checker", "mypy.checkexpr", "mypy.checkmember", "mypy.checkpattern"):
            continue
        env = None
        par = None
        for n in ast.walk(f.node):
            if not isinstance(n, (ast.Assign, ast.AnnAssign)):
                continue
            for t in (n.targets if isinstance(n, ast.Assign) else [n.target]):
                if not (isinstance(t, ast.Attribute) and not (isinstance(t.value, ast.Name) and t.value.id == "self") and t.attr not in POS):
                    continue
                if env is None:
                    env = R.env(f)
                    par = f.module.parents()
                ty = R.type_of(t.value, f, env)
                cl = {x[1] for x in members(ty) if x[0] == "cls"}
                if not (cl and cl <= syntax | {"mypy.nodes.Expression", "mypy.nodes.Statement", "mypy.nodes.RefExpr"} and cl & (syntax | {"mypy.nodes.Expression", "mypy.nodes.RefExpr"})):
                    continue
                # freshly created nodes (synthetic) are not caches
                if isinstance(t.value, ast.Name) and any(isinstance(a2, ast.Assign) and norm(a2.targets[0]) == t.value.id and isinstance(a2.value, ast.Call) and isinstance(a2.value.func, ast.Name) and a2.value.func.id[:1].isupper() for a2 in ast.walk(f.node)):
                    continue
                # conditional on a test of the very value being stored (`if v is not None: node.a = v`)
                p_ = par.get(n)
                cond = None
                while p_ is not None and p_ is not f.node:
                    if isinstance(p_, ast.If) and any(n is x for x in p_.body) and n.value is not None and norm(n.value) in norm(p_.test):
                        cond = p_
                        break
                    p_ = par.get(p_)
                sites.setdefault(t.attr, []).append((f, n, cond))
    n_found = 0
    for attr, lst in sorted(sites.items()):
        conditional = [x for x in lst if x[2] is not None]
        if not conditional or len(conditional) != len(lst):
            continue  # some site stores the value unconditionally: re-checking overwrites it
        n_found += 1
        f, n, cond = conditional[0]
        key = f"node attribute `{attr}` cached by {f.name} only when set: reset by aststrip"
        if attr in reset:
            r8.ok(key, f.loc(n))
        else:
            r8.violation(key, f.loc(n), f"`{norm(n.targets[0]) if isinstance(n, ast.Assign) else norm(n.target)}` is stored only under `{norm(cond.test)[:60]}` and NodeStripVisitor never resets `{attr}`: after an edit that removes the property (e.g. TypeGuard changed to TypeIs) the daemon keeps using the old value in re-processed targets")
    if n_found < 2:
        raise AnalysisError(f"only {n_found} conditionally cached node attributes found in the checker")


def run_twin_fields(chk: Check, ix) -> None:
    """R03.9: a list field and its `_set` twin on a build State are written together."""
    r9 = chk.rule("R03.9", "mypy.build.State keeps `dependencies` / `suppressed` as lists with `dependencies_set` / `suppressed_set` as their membership twins, and add_dependency / suppress_dependency decide from the set what to do with the list: every function that writes one of a pair (assignment, append, remove, add, discard, clear) on some object writes the other of that pair on the same object; a stale set makes a restored module vanish from `dependencies` and then from the build, and its import silently becomes Any", floor=6)
    st = ix.cls("mypy.build.State")
    declared = set()
    for f in st.methods.values():
        for a in ast.walk(f.node):
            if isinstance(a, (ast.Assign, ast.AnnAssign)):
                for t in (a.targets if isinstance(a, ast.Assign) else [a.target]):
                    if isinstance(t, ast.Attribute) and isinstance(t.value, ast.Name) and t.value.id == "self":
                        declared.add(t.attr)
    pairs = sorted(x for x in declared if x + "_set" in declared)
    if len(pairs) < 2:
        raise AnalysisError(f"State list/set twins: {pairs}")
    MUT = {"append", "remove", "add", "discard", "clear", "extend", "insert", "pop", "update"}
    from ..resolve import Resolver, members
    R = Resolver(ix)
    n = 0
    for q, f in sorted(ix.functions.items()):
        mn = f.module.name
        if f.parent is not None or not mn.startswith("mypy.") or ".test" in mn or mn == "mypy.cache":
            continue
        writes: dict[tuple[str, str], ast.AST] = {}
        for x in ast.walk(f.node):
            tgt = None
            if isinstance(x, (ast.Assign, ast.AugAssign, ast.AnnAssign)):
                for t in (x.targets if isinstance(x, ast.Assign) else [x.target]):
                    if isinstance(t, ast.Attribute):
                        tgt = t
                        writes.setdefault((norm(t.value), t.attr), x)
            elif isinstance(x, ast.Call) and isinstance(x.func, ast.Attribute) and x.func.attr in MUT and isinstance(x.func.value, ast.Attribute):
                t = x.func.value
                writes.setdefault((norm(t.value), t.attr), x)
        for (base, attr), node in sorted(writes.items(), key=lambda kv: kv[1].lineno):
            p = attr[:-4] if attr.endswith("_set") else attr
            if p not in pairs:
                continue
            twin = p if attr.endswith("_set") else p + "_set"
            # only objects that carry the twin: a State (self inside State, or a base whose twin is written somewhere, or typed receiver)
            is_state = (f.cls is not None and f.cls.qualname == "mypy.build.State" and base == "self") or any(b == base and a_ in (p, p + "_set") and a_ != attr for (b, a_) in writes)
            if not is_state:
                try:
                    env = R.env(f)
                    t = R.type_of(ast.parse(base, mode="eval").body, f, env)
                    is_state = any(x[0] == "cls" and x[1] == "mypy.build.State" for x in members(t))
                except Exception:
                    is_state = False
            if not is_state:
                # a CacheMeta-like record has no set twin
                continue
            n += 1
            key = f"{q}: `{base}.{attr}` and `{base}.{twin}` are written together"
            if (base, twin) in writes:
                r9.ok(key, f.loc(node))
            else:
                r9.violation(key, f.loc(node), f"`{base}.{attr}` is rewritten but `{base}.{twin}` is not: the pair disagrees from here on (add_dependency / suppress_dependency consult the set and then edit the list)")
    if n < 6:
        raise AnalysisError(f"only {n} writes of State list/set twins found")


def run_not_in_dependency(chk: Check, ix) -> None:
    """R03.10: every comparison operator the checker resolves through a method generates a dependency on it."""
    r10 = chk.rule("R03.10", "the checker resolves `a in b` and `a not in b` through b.__contains__ (ExpressionChecker.visit_comparison_expr treats the two spellings together) and every other comparison through operators.op_methods; the dependency visitor's process_binary_op looks operators up in op_methods, which has no entry for `not in`, so it handles that spelling itself: otherwise `x not in c` has no fine-grained dependency on __contains__ and the daemon misses errors after the method changes", floor=2)
    ce = ix.func("mypy.checkexpr.ExpressionChecker.visit_comparison_expr")
    checker_not_in = any(isinstance(c, ast.Constant) and c.value == "not in" for c in ast.walk(ce.node))
    ops = ix.module("mypy.operators")
    table = ix.const_eval(ops, ops.assigns["op_methods"]) if hasattr(ix, "const_eval") else None
    in_table = isinstance(table, dict) and "not in" in table
    r10.ok("the checker type-checks `not in` through __contains__" if checker_not_in else "the checker does not mention `not in`", ce.loc())
    dv = ix.func("mypy.server.deps.DependencyVisitor.process_binary_op")
    handles = any(isinstance(c, ast.Constant) and c.value == "not in" for c in ast.walk(dv.node))
    key = "process_binary_op generates the __contains__ dependency for `not in` too"
    if handles or in_table or not checker_not_in:
        r10.ok(key, dv.loc(), "handled in the function" if handles else "op_methods has the entry")
    else:
        r10.violation(key, dv.loc(), "`op_methods.get('not in')` is None, so no dependency is generated for `x not in c`")


def run_reprocess_ignore_notes(chk: Check, ix) -> None:
    """R03.11: what a full module update reports about ignore comments, a partial re-check reports too."""
    r11 = chk.rule("R03.11", "update_module_isolated (a whole module is re-checked) finishes with State.generate_unused_ignore_notes() and generate_ignore_without_code_notes(); reprocess_nodes (only the triggered targets of a module are re-checked) is the other way diagnostics of a module change in the daemon, so it produces the same two kinds of diagnostics for the module it re-checked: an ignore comment that becomes unused because a dependency changed is otherwise never reported by the daemon, while a full run reports it", floor=2)
    full = ix.func("mypy.server.update.update_module_isolated")
    part = ix.func("mypy.server.update.reprocess_nodes")
    for meth in ("generate_unused_ignore_notes", "generate_ignore_without_code_notes"):
        in_full = any(isinstance(c, ast.Call) and call_name(c) == meth for c in ast.walk(full.node))
        in_part = any(isinstance(c, ast.Call) and call_name(c) in (meth, meth.replace("_notes", "_errors")) for c in ast.walk(part.node))
        key = f"reprocess_nodes also runs {meth} (update_module_isolated does)"
        if not in_full:
            r11.info(f"update_module_isolated no longer calls {meth}", full.loc(), "nothing to agree with")
        elif in_part:
            r11.ok(key, part.loc())
        else:
            r11.violation(key, part.loc(), f"after a partial re-check the module's {'unused-ignore' if 'unused' in meth else 'ignore-without-code'} diagnostics are not regenerated")


def run_mro_walk_dependencies(chk: Check, ix) -> None:
    """R03.12: a lookup along the MRO depends on every class it passed, not only on the one that answered."""
    from ..cfg import branch_conditions
    r12 = chk.rule("R03.12", "server/deps.DependencyVisitor: in a loop over the base classes of a class (`for base in non_trivial_bases(info)`) the member dependency `<base.name>` is added on every iteration the loop reaches, not only under `name in base.names`: the lookup (`super().name`, an override) is answered by the *first* base that defines the name, so when an earlier base gains the name the answer changes, and only a dependency on that earlier base's (so far non-existent) member re-checks the user", floor=2)
    dv = ix.cls("mypy.server.deps.DependencyVisitor")
    n = 0
    for f in dv.methods.values():
        par = f.module.parents()
        for lp in ast.walk(f.node):
            if not (isinstance(lp, ast.For) and isinstance(lp.iter, ast.Call) and call_name(lp.iter) == "non_trivial_bases" and isinstance(lp.target, ast.Name)):
                continue
            bv = lp.target.id
            adds = [c for c in ast.walk(lp) if isinstance(c, ast.Call) and call_name(c) == "add_dependency" and any(isinstance(x, ast.Name) and x.id == bv for x in ast.walk(c))]
            if not adds:
                continue
            n += 1
            key = f"DependencyVisitor.{f.name}: every base the loop visits gets the member dependency"
            bad = None
            for c in adds:
                st = c
                while not isinstance(st, ast.stmt):
                    st = par[st]
                pos, neg = branch_conditions(par, lp, st, early_exits=True)
                for t in pos:
                    for cmp_ in ast.walk(t):
                        if isinstance(cmp_, ast.Compare) and len(cmp_.ops) == 1 and isinstance(cmp_.ops[0], ast.In) and norm(cmp_.comparators[0]).startswith(bv + "."):
                            bad = (c, t)
            if bad is None:
                r12.ok(key, f.loc(lp))
            else:
                r12.violation(key, f.loc(bad[0]), f"the dependency on `<{bv}.name>` is added only when `{norm(bad[1])}`: bases the walk passed without finding the name get none, so adding the name to an intermediate class (or to a mixin earlier in the MRO) fires a trigger nobody listens to and the method using `super().name` keeps its stale result in the daemon")
    if n < 2:
        raise AnalysisError(f"DependencyVisitor: only {n} loops over non_trivial_bases that add dependencies found")


def run_module_tests_not_substrings(chk: Check, ix) -> None:
    """R03.13: which module a class belongs to is read off the class, not searched for in a trigger string."""
    r13 = chk.rule("R03.13", "typestate._snapshot_protocol_deps leaves out dependencies of typeshed's core modules; each `continue` that drops a dependency tests the module of the class (`info.module_name ...`, `fullname.startswith('typing.')`), never a substring of the rendered trigger (`'typing' in trigger` also matches a user module called mytyping_impl, whose protocol dependencies are then lost: the daemon misses errors after its classes change)", floor=2)
    f = ix.func("mypy.typestate.TypeState._snapshot_protocol_deps")
    n = 0
    for i in ast.walk(f.node):
        if not (isinstance(i, ast.If) and any(isinstance(s, ast.Continue) for s in i.body)):
            continue
        n += 1
        subs = [c for c in ast.walk(i.test) if isinstance(c, ast.Compare) and len(c.ops) == 1 and isinstance(c.ops[0], (ast.In, ast.NotIn)) and isinstance(c.left, ast.Constant) and isinstance(c.left.value, str) and isinstance(c.comparators[0], ast.Name)]
        key = f"_snapshot_protocol_deps: the filter at line-order #{n} tests a module name"
        if subs:
            r13.violation(key, f.loc(i), f"`{norm(subs[0])}` is a substring test on a string: every module whose name merely contains {subs[0].left.value!r} is treated like typeshed")
        else:
            r13.ok(key, f.loc(i))
    if n < 2:
        raise AnalysisError(f"_snapshot_protocol_deps: only {n} dependency filters found")


def run_var_snapshot_flags(chk: Check, ix) -> None:
    """R03.14: a Var flag that alone decides a diagnostic about a member access is part of the Var snapshot."""
    r14 = chk.rule("R03.14", "mypy/checkmember.py decides diagnostics about `obj.attr` (an access from any module) from flags of the attribute's Var; a flag from nodes.VAR_FLAGS that appears in the test of an `if` whose body directly reports (`msg.*`, `fail`) is compared by server/astdiff.snapshot_definition's Var entry, so that flipping the flag alone (`x: int` -> `x: ClassVar[int]`, a dataclass becoming frozen) triggers the users of the attribute in the daemon", floor=3)
    nodes_m = ix.module("mypy.nodes")
    flags = ix.const_eval(nodes_m, nodes_m.assigns["VAR_FLAGS"]) if hasattr(ix, "const_eval") else None
    if not isinstance(flags, (list, tuple)):
        flags = [e.value for e in ast.walk(nodes_m.assigns["VAR_FLAGS"]) if isinstance(e, ast.Constant) and isinstance(e.value, str)]
    flags = set(flags)
    if len(flags) < 10:
        raise AnalysisError("nodes.VAR_FLAGS not found")
    cm = ix.module("mypy.checkmember")
    deciding: dict[str, int] = {}
    for i in ast.walk(cm.tree):
        if isinstance(i, ast.If):
            fl = {x.attr for x in ast.walk(i.test) if isinstance(x, ast.Attribute) and x.attr in flags}
            if not fl:
                continue
            reports = any(isinstance(c, ast.Call) and isinstance(c.func, ast.Attribute) and (norm(c.func.value).endswith("msg") or c.func.attr in ("fail", "note")) for s in i.body for c in ast.walk(s))
            if reports:
                for x in fl:
                    deciding.setdefault(x, i.lineno)
    sd = ix.func("mypy.server.astdiff.snapshot_definition")
    var_ret = None
    for i in ast.walk(sd.node):
        if isinstance(i, ast.If) and "isinstance(node, Var)" in norm(i.test):
            for r in i.body:
                if isinstance(r, ast.Return):
                    var_ret = r
    if var_ret is None:
        raise AnalysisError("snapshot_definition: the Var entry was not found")
    snap = {x.attr for x in ast.walk(var_ret) if isinstance(x, ast.Attribute) and norm(x.value) == "node"}
    if len(deciding) < 3:
        raise AnalysisError(f"checkmember.py: only {sorted(deciding)} Var flags found that decide a diagnostic")
    for fl, ln in sorted(deciding.items()):
        key = f"Var.{fl} (decides a member-access diagnostic) is in the Var snapshot"
        if fl in snap:
            r14.ok(key, sd.loc(var_ret))
        else:
            r14.violation(key, f"mypy/checkmember.py:{ln}", f"checkmember.py:{ln} reports an error depending on `{fl}`, but snapshot_definition's Var entry compares only {sorted(snap)}: when the flag flips and the declared type stays the same, no trigger fires for the attribute and the daemon keeps the old answer")


def run_relative_import_ids(chk: Check, ix) -> None:
    """R03.15: the `id` of a `from ... import` node is only meaningful together with its `relative` level."""
    r15 = chk.rule("R03.15", "ImportFrom.id / ImportAll.id hold the module text as written (`from . import b` has id '' and relative 1); a function outside the parsers and printers that reads `.id` of such a node also reads `.relative` or passes the node through correct_relative_import / correct_rel_imp before comparing it with a module name (refresh_suppressed_submodules compared the raw id with the package name, so a submodule added later was never picked up through a relative import)", floor=5)
    skip = ("mypy.fastparse", "mypy.nativeparse", "mypy.nodes", "mypy.strconv", "mypy.treetransform", "mypy.stubgen", "mypy.traverser", "mypy.stubutil")
    n = 0
    for mn, m in sorted(ix.modules.items()):
        if not mn.startswith("mypy.") or mn.startswith("mypy.test") or mn in skip:
            continue
        for f in list(m.functions.values()) + [mm for c in m.classes.values() for mm in c.methods.values()]:
            names = set()
            a_ = f.node.args
            for a in a_.posonlyargs + a_.args + a_.kwonlyargs:
                if a.annotation is not None and any(t in norm(a.annotation) for t in ("ImportFrom", "ImportAll")):
                    names.add(a.arg)
            for c in ast.walk(f.node):
                if isinstance(c, ast.Call) and norm(c.func) == "isinstance" and len(c.args) == 2 and isinstance(c.args[0], ast.Name) and any(t in norm(c.args[1]) for t in ("ImportFrom", "ImportAll")):
                    names.add(c.args[0].id)
            if not names:
                continue
            reads = [x for x in ast.walk(f.node) if isinstance(x, ast.Attribute) and x.attr == "id" and isinstance(x.value, ast.Name) and x.value.id in names and isinstance(x.ctx, ast.Load)]
            if not reads:
                continue
            n += 1
            rel = any(isinstance(x, ast.Attribute) and x.attr == "relative" and isinstance(x.value, ast.Name) and x.value.id in names for x in ast.walk(f.node))
            corr = any(isinstance(c, ast.Call) and norm(c.func).split(".")[-1] in ("correct_relative_import", "correct_rel_imp") and any(isinstance(x, ast.Name) and x.id in names for a in c.args for x in ast.walk(a)) for c in ast.walk(f.node))
            key = f"{f.qualname}: ImportFrom/ImportAll `.id` is read together with `.relative`"
            if rel or corr:
                r15.ok(key, f.loc(reads[0]))
            else:
                r15.violation(key, f.loc(reads[0]), f"`{norm(reads[0])}` is used as if it were an absolute module name; for `from . import b` it is the empty string (level in `.relative`), so the comparison never matches for relative imports")
    if n < 5:
        raise AnalysisError(f"only {n} functions reading ImportFrom/ImportAll ids found")


def run_stat_compared_for_equality(chk: Check, ix) -> None:
    """R03.16: `has this file changed` compares the recorded stat data for difference, not for order."""
    r = chk.rule("R03.16", "fswatcher.FileSystemWatcher._find_changed decides from the recorded FileData (st_mtime, st_size, hash) whether a watched file is hashed again. Time stamps are not monotonic (cp -p, rsync -t, tar x, mv put an older mtime on new content), so every comparison between a current stat field and the recorded one is an equality test (`!=` / `==`): an order test (`>`) makes the daemon miss a same-size replacement with an older time stamp and keep the diagnostics of the previous content", floor=2)
    f = ix.func("mypy.fswatcher.FileSystemWatcher._find_changed")
    n = 0
    for c in ast.walk(f.node):
        if not isinstance(c, ast.Compare) or len(c.ops) != 1:
            continue
        sides = [norm(c.left), norm(c.comparators[0])]
        if not (any("st." in s_ or s_.startswith("st.") for s_ in sides) and any("old." in s_ for s_ in sides)):
            continue
        n += 1
        key = f"_find_changed: `{norm(c)[:70]}` is an (in)equality test"
        if isinstance(c.ops[0], (ast.Eq, ast.NotEq)):
            r.ok(key, f.loc(c))
        else:
            r.violation(key, f.loc(c), "an order comparison between the current and the recorded stat value: a file whose new content carries an older (or, for `<`, newer) time stamp and the same size is treated as unchanged and never re-hashed")
    if n < 2:
        raise AnalysisError(f"_find_changed: only {n} comparisons between current and recorded stat data found")


def run_typeinfo_snapshot_flags(chk: Check, ix) -> None:
    """R03.17: every boolean flag of a class that other modules' diagnostics depend on is part of the class's snapshot."""
    r = chk.rule("R03.17", "TypeInfo.FLAGS lists the boolean properties of a class that are serialized with it (is_abstract, is_enum, is_protocol, runtime_protocol, is_final, ...): each of them changes what importers may do with the class (subclass it, use it in isinstance, instantiate it), so each is read by server/astdiff.snapshot_definition's TypeInfo entry, or tabled: a flag missing from the snapshot can flip without triggering the users of the class in the daemon; likewise FUNCBASE_FLAGS and the function entry", floor=13)
    ti = ix.cls("mypy.nodes.TypeInfo")
    flags_node = None
    for a in ti.node.body:
        if isinstance(a, (ast.Assign, ast.AnnAssign)):
            tg = a.targets[0] if isinstance(a, ast.Assign) else a.target
            if norm(tg) == "FLAGS":
                flags_node = a.value
    if flags_node is None:
        raise AnalysisError("TypeInfo.FLAGS not found")
    flags = [e.value for e in ast.walk(flags_node) if isinstance(e, ast.Constant) and isinstance(e.value, str)]
    sd = ix.func("mypy.server.astdiff.snapshot_definition")
    branch = None
    for i in ast.walk(sd.node):
        if isinstance(i, ast.If) and "isinstance(node, TypeInfo)" in norm(i.test):
            branch = i
    if branch is None:
        raise AnalysisError("snapshot_definition: the TypeInfo entry was not found")
    read = {x.attr for s in branch.body for x in ast.walk(s) if isinstance(x, ast.Attribute) and norm(x.value) == "node"}
    # the same for the flags every function-like node has (FUNCBASE_FLAGS: is_property, is_class, is_static, is_final)
    nodes_m = ix.module("mypy.nodes")
    fb = [e.value for e in ast.walk(nodes_m.assigns["FUNCBASE_FLAGS"]) if isinstance(e, ast.Constant) and isinstance(e.value, str)] if "FUNCBASE_FLAGS" in nodes_m.assigns else []
    fbranch = None
    for i in ast.walk(sd.node):
        if isinstance(i, ast.If) and "SYMBOL_FUNCBASE_TYPES" in norm(i.test):
            fbranch = i
    if len(fb) < 4 or fbranch is None:
        raise AnalysisError(f"FUNCBASE_FLAGS {fb} / the function entry of snapshot_definition not found")
    fread = {x.attr for s_ in fbranch.body for x in ast.walk(s_) if isinstance(x, ast.Attribute) and norm(x.value) == "node"}
    for fl in fb:
        key = f"FuncBase.{fl} is part of the function snapshot"
        if fl in fread:
            r.ok(key, sd.loc(fbranch))
        else:
            r.violation(key, sd.loc(fbranch), f"snapshot_definition's function entry does not read node.{fl}: adding `@final` / `@staticmethod` / `@classmethod` / `@property` to a method without changing its signature triggers nobody in the daemon")
    for fl in flags:
        key = f"TypeInfo.{fl} is part of the class snapshot"
        if fl in read:
            r.ok(key, sd.loc(branch))
        else:
            r.violation(key, sd.loc(branch), f"snapshot_definition does not read node.{fl}: when only this flag changes (e.g. `@final` added to a class, `@runtime_checkable` removed from a protocol) the class's snapshot is unchanged, no trigger fires and importers keep their old diagnostics in the daemon")


MODULE_ID_IDIOMS = ("id", "cur_mod_id", "module_name", "current_module_id()", "fullname")


def run_relative_imports_resolved_against_module(chk: Check, ix) -> None:
    """R03.18: a relative import is resolved against the id of the module that contains it."""
    r18 = chk.rule("R03.18", "util.correct_relative_import(cur_mod_id, relative, target, is_init) strips `relative` components from cur_mod_id; the daemon keys much of its state by fine-grained *target* names (pkg.mod.func, pkg.mod.Class.method), which are one or two components longer than the module id. At every call in mypy/server/ the first argument is a module id in the repository's own spelling, enumerated from all call sites in mypy/ (`<state>.id`, `self.cur_mod_id`, `self.scope.current_module_id()`, `self.module_name`, `<tree>.fullname`), directly or through one local assignment; a loop variable over dependency targets is not", floor=3)
    n = 0
    vocab_seen = set()
    for mn, m in sorted(ix.modules.items()):
        if not mn.startswith("mypy.") or mn.startswith("mypy.test"):
            continue
        for f in list(m.functions.values()) + [mm for c in m.classes.values() for mm in c.methods.values()]:
            for c in ast.walk(f.node):
                if not (isinstance(c, ast.Call) and call_name(c) == "correct_relative_import" and len(c.args) >= 3):
                    continue
                a0 = c.args[0]
                if isinstance(a0, ast.Name):
                    defs = [x.value for x in ast.walk(f.node) if isinstance(x, ast.Assign) and len(x.targets) == 1 and isinstance(x.targets[0], ast.Name) and x.targets[0].id == a0.id]
                    if len(defs) == 1:
                        a0 = defs[0]
                last = norm(a0).rsplit(".", 1)[-1]
                is_module_id = last in MODULE_ID_IDIOMS and not isinstance(a0, ast.Name)
                vocab_seen.add(last)
                if not mn.startswith("mypy.server."):
                    continue
                n += 1
                key = f"{mn.removeprefix('mypy.')}.{f.name}: correct_relative_import resolves against the containing module's id"
                if is_module_id:
                    r18.ok(key, f.loc(c))
                else:
                    r18.violation(key, f.loc(c), f"the first argument is `{norm(c.args[0])}`, not a module id ({', '.join(MODULE_ID_IDIOMS)}): for a target inside a function or class (`pkg.app.run`) `from . import x` resolves to `pkg.app.x`, so the comparison with the module that appeared or changed fails and the importer is not refreshed")
