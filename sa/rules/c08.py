"""C08 — the type lattice obeys its laws: only the cache clause is decided.

R08.1  subtype-cache key completeness: every SubtypeContext flag, proper_subtype and
       state.strict_optional is a component of the key built by build_subtype_kind; every attribute
       of the context / global state read by the subtype visitor is one of the components (or the
       tabled `options`); lookup and record use the same key, the same operand pair and the same
       per-TypeInfo cache; cached answers are used only for the operand pair that was recorded.
R08.2  hash/equality discipline of cached operands: for every Type subclass the fields hashed are
       a subset of the fields compared.
"""

from __future__ import annotations

import ast

from ..cfg import CFG, call_name
from ..index import AnalysisError, get_index, norm
from ..matrix import type_classes
from ..report import Check
from .c11 import eq_fields


def hash_fields(c):
    f = c.methods.get("__hash__")
    if f is None:
        return None
    out = set()
    for n in ast.walk(f.node):
        if isinstance(n, ast.Attribute) and isinstance(n.value, ast.Name) and n.value.id == "self" and not n.attr.startswith("__"):
            out.add(n.attr)
    return out


def run(chk: Check) -> None:
    ix = get_index()
    ms = ix.module("mypy.subtypes")

    r1 = chk.rule("R08.1", "the subtype memo key contains every input of the cached computation other than its two operands: all SubtypeContext flags, proper_subtype, state.strict_optional; lookups and records use the same key and operands", floor=14)
    ctx = ix.cls("mypy.subtypes.SubtypeContext")
    init = ctx.methods["__init__"]
    flags = [a.arg for a in init.params][1:]
    bsk = ix.func("mypy.subtypes.SubtypeVisitor.build_subtype_kind")
    rets = [n for n in ast.walk(bsk.node) if isinstance(n, ast.Return)]
    if len(rets) != 1 or not isinstance(rets[0].value, ast.Tuple):
        raise AnalysisError("build_subtype_kind no longer returns a tuple literal")
    comps = []
    for e in rets[0].value.elts:
        if isinstance(e, ast.Starred):
            # `*subtype_context.helper()`: a SubtypeContext method returning a tuple literal of its own flags
            c = e.value
            hm = ctx.methods.get(c.func.attr) if isinstance(c, ast.Call) and isinstance(c.func, ast.Attribute) and norm(c.func.value) == "subtype_context" else None
            hrets = [n for n in ast.walk(hm.node) if isinstance(n, ast.Return)] if hm else []
            if len(hrets) != 1 or not isinstance(hrets[0].value, ast.Tuple):
                raise AnalysisError(f"build_subtype_kind: cannot expand `{norm(e)}` into key components")
            for x in hrets[0].value.elts:
                t = norm(x)
                comps.append("subtype_context." + t[5:] if t.startswith("self.") else t)
        else:
            comps.append(norm(e))
    for fl in flags:
        key = f"SubtypeContext.{fl} is a key component"
        if fl == "options":
            continue
        if f"subtype_context.{fl}" in comps:
            r1.ok(key, bsk.loc())
        else:
            r1.violation(key, bsk.loc(), f"the flag `{fl}` changes the answer of a subtype query but is not part of the memo key: a query made with one value can be answered from the cache filled with the other")
    for need in ("proper_subtype", "state.strict_optional"):
        if need in comps:
            r1.ok(f"{need} is a key component", bsk.loc())
        else:
            r1.violation(f"{need} is a key component", bsk.loc(), f"`{need}` changes subtype answers but is not in the memo key")
    # every context attribute read in the module is a component
    read_ctx = {}
    read_state = {}
    read_opts = {}
    for q, f in ix.functions.items():
        if f.module is not ms or f.parent is not None:
            continue
        for n in ast.walk(f.node):
            if isinstance(n, ast.Attribute) and isinstance(n.ctx, ast.Load):
                b = norm(n.value)
                if b in ("self.subtype_context", "subtype_context") and n.attr not in ctx.methods:
                    read_ctx.setdefault(n.attr, f"{f.module.relpath}:{n.lineno} {q}")
                elif b == "state":
                    read_state.setdefault(n.attr, f"{f.module.relpath}:{n.lineno} {q}")
                elif b in ("self.options", "subtype_context.options", "self.subtype_context.options", "options"):
                    read_opts.setdefault(n.attr, f"{f.module.relpath}:{n.lineno} {q}")
    for a, where in sorted(read_ctx.items()):
        key = f"context attribute `{a}` read in subtypes.py is keyed"
        if a == "options" or f"subtype_context.{a}" in comps:
            r1.ok(key, where)
        else:
            r1.violation(key, where, f"`subtype_context.{a}` influences the computation but is not a key component")
    for a, where in sorted(read_state.items()):
        key = f"global state attribute `state.{a}` read in subtypes.py is keyed"
        if f"state.{a}" in comps or a in ("strict_optional_set",):
            r1.ok(key, where)
        else:
            r1.violation(key, where, f"`state.{a}` is process-global input of the subtype computation but not a key component")
    for a, where in sorted(read_opts.items()):
        r1.violation(f"unkeyed input: options.{a} read under the subtype memo", where, f"`options.{a}` is read by the subtype computation while `options` is not part of the memo key")
    # lookup / record agreement inside visit_instance
    vi = memo_call_sites_agree(r1, ix)
    # polarity: positive lookup returns True, negative returns False; positive record only after a True answer
    g = CFG(vi.node)
    for n in g.nodes:
        if n.kind == "test":
            for c in n.calls():
                nm = call_name(c)
                if nm in ("is_cached_subtype_check", "is_cached_negative_subtype_check"):
                    tsucc = [m for m, lab in n.succ if lab == "true"]
                    rets_t = [x for x in g.reachable(tsucc, labels_excluded=("exc",)) if x.kind == "stmt" and isinstance(x.stmt, ast.Return)]
                    first = tsucc[0] if tsucc else None
                    want = nm == "is_cached_subtype_check"
                    if first is not None and isinstance(first.stmt, ast.Return) and isinstance(first.stmt.value, ast.Constant) and first.stmt.value.value is want:
                        r1.ok(f"visit_instance: {nm} hit answers {want}", vi.loc(n.stmt))
                    else:
                        r1.violation(f"visit_instance: {nm} hit answers {want}", vi.loc(n.stmt), "a memo hit returns the wrong polarity")
    # records: a positive entry only where the answer that follows is True, a negative one only where it is False
    from ..cfg import branch_conditions
    parents8 = vi.module.parents()
    for n in g.nodes:
        for c in n.calls():
            nm = call_name(c)
            if nm not in ("record_subtype_cache_entry", "record_negative_subtype_cache_entry"):
                continue
            want = nm == "record_subtype_cache_entry"
            pos, neg = branch_conditions(parents8, vi.node, n.stmt)
            known_true = {norm(t) for t in pos} | {norm(t.operand) for t in neg if isinstance(t, ast.UnaryOp) and isinstance(t.op, ast.Not)}
            known_false = {norm(t) for t in neg} | {norm(t.operand) for t in pos if isinstance(t, ast.UnaryOp) and isinstance(t.op, ast.Not)}
            # the first return reached after the record
            nxt = [x for x in g.reachable([m for m, lab in n.succ if lab != "exc"], labels_excluded=("exc",)) if x.kind == "stmt" and isinstance(x.stmt, ast.Return)]
            firsts = [x for x in nxt if not any(y is not x and y in g.reachable([m for m, lab in n.succ if lab != "exc"], avoiding=[x], labels_excluded=("exc",)) and x in g.reachable([y], labels_excluded=("exc",)) for y in nxt)]
            bad = []
            for rt in firsts:
                v = rt.stmt.value
                if isinstance(v, ast.Constant) and isinstance(v.value, bool):
                    if v.value is not want:
                        bad.append(f"returns {v.value} at line {rt.lineno}")
                elif v is not None and norm(v) in (known_true if want else known_false):
                    pass
                else:
                    bad.append(f"returns `{norm(v) if v is not None else None}` at line {rt.lineno}, not known to be {want} here")
            key = f"visit_instance: {nm} at `{' ; '.join(sorted(known_true | {'not ' + k for k in known_false}))[:60]}` is followed by answer {want}"
            if firsts and not bad:
                r1.ok(key, vi.loc(n.stmt))
            else:
                r1.violation(key, vi.loc(n.stmt), f"a {'positive' if want else 'negative'} memo entry is recorded where the computed answer is not {want} ({'; '.join(bad) or 'no return follows'}): later queries for the same pair get the opposite answer from the memo")
    ts = ix.cls("mypy.typestate.TypeState")
    for look, rec, store in (("is_cached_subtype_check", "record_subtype_cache_entry", "_subtype_caches"), ("is_cached_negative_subtype_check", "record_negative_subtype_cache_entry", "_negative_subtype_caches")):
        lf, rf = ts.methods[look], ts.methods[rec]
        ls, rs = norm(lf.node), norm(rf.node)
        from ..pattern import has
        look_ok = has(lf.node, f"$c = self.{store}.get($i)", "$i = right.type", "$s = $c.get(kind)", "return (left, right) in $s") or has(lf.node, f"$c = self.{store}.get(right.type)", "$s = $c.get(kind)", "return (left, right) in $s")
        rec_ok = has(rf.node, f"$c = self.{store}.setdefault(right.type, $_)", "$c.setdefault(kind, set()).add((left, right))") or has(rf.node, f"$c = self.{store}.setdefault($i, $_)", "$i = right.type", "$c.setdefault(kind, set()).add((left, right))")
        ok = bool(look_ok and rec_ok)
        if ok:
            r1.ok(f"TypeState.{look}/{rec}: same store, keyed by right.type then kind then (left, right)", lf.loc())
        else:
            r1.violation(f"TypeState.{look}/{rec}: same store, keyed by right.type then kind then (left, right)", lf.loc(), "lookup and record no longer address the same entry")

    run_tuple_siblings(chk, ix)
    run_cache_writers(chk, ix)
    run_class_object_protocol_checks(chk, ix)
    run_assumption_discipline(chk, ix)
    run_no_inplace_hash_mutation(chk, ix)
    run_whole_component_equality(chk, ix)
    run_literal_contraction_by_values(chk, ix)
    run_callback_protocol_unpacking(chk, ix)

    # ---------------- R08.2
    r2 = chk.rule("R08.2", "for every Type subclass the attributes hashed by __hash__ are compared by __eq__ (equal values hash equal; the memo never misses or conflates because of an uncompared hashed field)", floor=15)
    for c in type_classes(ix):
        h, e = hash_fields(c), eq_fields(c)
        if h is None or e is None:
            continue
        key = f"{c.name}: hash fields ⊆ eq fields"
        extra = {x for x in h - e if x not in ("_hash",)}
        if not extra:
            r2.ok(key, f"{c.module.relpath}:{c.node.lineno}", f"hash {sorted(h)}")
        else:
            r2.violation(key, f"{c.module.relpath}:{c.node.lineno}", f"__hash__ uses {sorted(extra)} which __eq__ does not compare: two equal {c.name} values can hash differently, so a memoised (left, right) pair is not found again (or, if __eq__ is the weaker one, conflated)")


def memo_call_sites_agree(rule, ix):
    """All memo lookups and records of SubtypeVisitor.visit_instance use (self._subtype_kind, left, right). Returns the function."""
    vi = ix.func("mypy.subtypes.SubtypeVisitor.visit_instance")
    calls = [n for n in ast.walk(vi.node) if isinstance(n, ast.Call) and call_name(n) in ("is_cached_subtype_check", "is_cached_negative_subtype_check", "record_subtype_cache_entry", "record_negative_subtype_cache_entry")]
    if len(calls) < 4:
        raise AnalysisError("visit_instance: memo lookups/records not found")
    argsets = {tuple(norm(a) for a in c.args) for c in calls}
    if len(argsets) == 1 and list(argsets)[0][0] == "self._subtype_kind":
        rule.ok("visit_instance: lookups and records use (self._subtype_kind, left, right)", vi.loc(calls[0]), f"{len(calls)} call sites")
    else:
        rule.violation("visit_instance: lookups and records use (self._subtype_kind, left, right)", vi.loc(calls[0]), f"memo lookups and records disagree on their arguments: {sorted(argsets)}: an answer computed for one key (one module's options) is handed to a query with another, so what a module is told depends on which modules were checked before it")
    return vi


def run_tuple_siblings(chk: Check, ix) -> None:
    """R08.3: join and meet handle `fixed tuple vs variadic tuple` behind the same arity precondition."""
    r3 = chk.rule("R08.3", "TypeJoinVisitor.join_tuples and TypeMeetVisitor.meet_tuples split the fixed tuple with split_with_prefix_and_suffix(fixed.items, prefix_len, suffix_len) behind the same early-exit tests and the same definitions of prefix_len / suffix_len (sibling implementations of one case analysis; the split is only meaningful when the fixed tuple has at least prefix_len + suffix_len items)", floor=1)
    out = {}
    for q in ("mypy.join.TypeJoinVisitor.join_tuples", "mypy.meet.TypeMeetVisitor.meet_tuples"):
        f = ix.func(q)
        calls = [c for c in ast.walk(f.node) if isinstance(c, ast.Call) and call_name(c) == "split_with_prefix_and_suffix" and c.args and "fixed" in norm(c.args[0])]
        if len(calls) != 1:
            raise AnalysisError(f"{q}: the split of the fixed tuple was not found")
        call = calls[0]
        p_, s_ = norm(call.args[1]), norm(call.args[2])
        defs = {}
        guards = []
        for st in f.node.body:
            if st.lineno >= call.lineno:
                break
            for a in ast.walk(st):
                if isinstance(a, ast.Assign) and norm(a.targets[0]) in (p_, s_) and a.lineno < call.lineno:
                    defs[norm(a.targets[0])] = norm(a.value)
            if isinstance(st, ast.If) and not st.orelse and len(st.body) >= 1 and isinstance(st.body[-1], ast.Return) and ("fixed" in norm(st.test) or "variadic" in norm(st.test) or "unpacked" in norm(st.test)):
                guards.append(norm(st.test))
        out[q] = (f, call, tuple(guards), (defs.get(p_), defs.get(s_)))
    (fj, cj, gj, dj), (fm, cm, gm, dm) = out["mypy.join.TypeJoinVisitor.join_tuples"], out["mypy.meet.TypeMeetVisitor.meet_tuples"]
    key = "join_tuples / meet_tuples: same guards and same prefix/suffix lengths before splitting the fixed tuple"
    if gj == gm and dj == dm and gj:
        r3.ok(key, fj.loc(cj), f"guards {list(gj)}; lengths {dj}")
    else:
        r3.violation(key, fj.loc(cj), f"the sibling implementations disagree: join guards {list(gj)} lengths {dj}; meet guards {list(gm)} lengths {dm}. One of them splits a fixed tuple that is shorter than prefix+suffix (overlapping slices): the result is not a bound of both operands")


def run_cache_writers(chk: Check, ix) -> None:
    """R08.4: the subtype caches are filled only with answers to the question they are keyed for."""
    from ..cfg import branch_conditions
    r4 = chk.rule("R08.4", "who may fill the subtype caches and with what: record_subtype_cache_entry / record_negative_subtype_cache_entry are called only by SubtypeVisitor.visit_instance (key self._subtype_kind, checked by R08.1) and by is_protocol_implementation; in a function whose further parameters change the question that is answered for (left, right) (class_obj: about the class object; skip: ignoring members) every record is unreachable unless those parameters are excluded by a test, because the entry is later read as the answer to the plain instance question", floor=4)
    REC = ("record_subtype_cache_entry", "record_negative_subtype_cache_entry")
    allowed = {"mypy.subtypes.SubtypeVisitor.visit_instance", "mypy.subtypes.is_protocol_implementation"}
    sites = []
    for q, f in sorted(ix.functions.items()):
        if f.module.name.startswith("mypy.test") or q.startswith("mypy.typestate.TypeState."):
            continue
        for c in ast.walk(f.node):
            if isinstance(c, ast.Call) and call_name(c) in REC:
                sites.append((f, c))
    if len(sites) < 4:
        raise AnalysisError(f"only {len(sites)} subtype cache record sites found")
    for f, c in sites:
        top = f
        while top.parent is not None:
            top = top.parent
        key = f"{top.qualname}: {call_name(c)} is called from an allowed writer"
        if top.qualname in allowed:
            r4.ok(key, f.loc(c))
        else:
            r4.violation(key, f.loc(c), f"{top.qualname} writes the subtype cache; only visit_instance and is_protocol_implementation compute the keyed answer for (kind, left, right)")
            continue
        if top.qualname.endswith("visit_instance"):
            continue
        # parameters that are neither operands, nor inputs of the kind, nor tabled
        params = [a.arg for a in f.node.args.args + f.node.args.kwonlyargs]
        used = {n.id for a in c.args for n in ast.walk(a) if isinstance(n, ast.Name)}
        kind_names: set[str] = set()
        work = [n.id for n in ast.walk(c.args[0]) if isinstance(n, ast.Name)] if c.args else []
        seen = set()
        while work:
            v = work.pop()
            if v in seen:
                continue
            seen.add(v)
            kind_names.add(v)
            for st in ast.walk(f.node):
                if isinstance(st, ast.Assign) and any(isinstance(t, ast.Name) and t.id == v for t in st.targets):
                    work.extend(n.id for n in ast.walk(st.value) if isinstance(n, ast.Name))
                    # the branch the assignment sits in
                    pos, neg = branch_conditions(f.module.parents(), f.node, st)
                    for t in pos + neg:
                        work.extend(n.id for n in ast.walk(t) if isinstance(n, ast.Name))
        tabled = {"options": "only passed through to the nested member checks; R08.1 decides which option reads are legitimate under the memo"}
        changing = [p for p in params if p not in used and p not in kind_names and p not in tabled]
        par = f.module.parents()
        st = c
        while not isinstance(st, ast.stmt):
            st = par[st]
        pos, neg = branch_conditions(par, f.node, st, early_exits=True)
        excluded = {n.id for t in neg for n in ast.walk(t) if isinstance(n, ast.Name)} | {n.id for t in pos if isinstance(t, ast.UnaryOp) and isinstance(t.op, ast.Not) for n in ast.walk(t.operand) if isinstance(n, ast.Name)}
        # a test on a local stands for a test on what the local was computed from
        grow = True
        while grow:
            grow = False
            for a in ast.walk(f.node):
                if isinstance(a, ast.Assign) and any(isinstance(t, ast.Name) and t.id in excluded for t in a.targets):
                    more = {n.id for n in ast.walk(a.value) if isinstance(n, ast.Name)} - excluded
                    if more:
                        excluded |= more
                        grow = True
        key = f"{top.qualname}: {call_name(c)}({', '.join(norm(a) for a in c.args)}) is reached only for the plain instance question"
        missing = [p for p in changing if p not in excluded]
        if not changing:
            raise AnalysisError(f"{top.qualname}: no question-changing parameter recognised (params {params})")
        if missing:
            r4.violation(key, f.loc(c), f"the entry is recorded whatever {missing} is: with `{missing[0]}` set the function answers a different question about the same (left, right), and visit_instance later returns that answer for the instance question (the result of is_subtype depends on what was checked before)")
        else:
            r4.ok(key, f.loc(c), f"question-changing parameters {changing} are excluded by a test on every path to the record")


def run_class_object_protocol_checks(chk: Check, ix) -> None:
    """R08.5: a protocol check about a class object says so."""
    r5 = chk.rule("R08.5", "is_protocol_implementation(left, P) asks whether *instances* of left implement P unless class_obj=True is passed; wherever the first argument is the item of a TypeType (`t.item`, or a local bound to it) or the instance type taken from a type object (`get_instance_type(...)`), the question is about the class object, so class_obj=True is passed: without it join(type[C], P) = P although type[C] is not a subtype of P (the join is no upper bound), and subtype answers about class objects are wrong", floor=2)
    n = 0
    for q, f in sorted(ix.functions.items()):
        mn = f.module.name
        if f.parent is not None or not mn.startswith("mypy.") or ".test" in mn:
            continue
        calls = [c for c in ast.walk(f.node) if isinstance(c, ast.Call) and call_name(c) == "is_protocol_implementation" and c.args]
        if not calls:
            continue
        # locals bound to a TypeType item / an instance type of a type object
        cls_locals: set[str] = set()
        for a in ast.walk(f.node):
            if isinstance(a, ast.Assign) and len(a.targets) == 1 and isinstance(a.targets[0], ast.Name):
                v = a.value
                if (isinstance(v, ast.Attribute) and v.attr == "item") or (isinstance(v, ast.Call) and call_name(v) == "get_instance_type"):
                    cls_locals.add(a.targets[0].id)
        grow = True
        while grow:
            grow = False
            for a in ast.walk(f.node):
                if isinstance(a, ast.Assign) and len(a.targets) == 1 and isinstance(a.targets[0], ast.Name) and a.targets[0].id not in cls_locals:
                    if any(isinstance(x, ast.Name) and x.id in cls_locals for x in ast.walk(a.value)) and isinstance(a.value, (ast.Name, ast.Call, ast.Attribute)):
                        if isinstance(a.value, ast.Call) and call_name(a.value) not in ("get_proper_type", "cast"):
                            continue
                        cls_locals.add(a.targets[0].id)
                        grow = True
        for c in calls:
            a0 = c.args[0]
            about_class = (isinstance(a0, ast.Attribute) and a0.attr == "item") or (isinstance(a0, ast.Name) and a0.id in cls_locals) or (isinstance(a0, ast.Call) and call_name(a0) == "get_instance_type")
            if not about_class:
                continue
            n += 1
            kw = {k.arg: k.value for k in c.keywords}
            key = f"{q}: is_protocol_implementation({norm(a0)}, ...) about a class object passes class_obj=True"
            if isinstance(kw.get("class_obj"), ast.Constant) and kw["class_obj"].value is True:
                r5.ok(key, f.loc(c))
            else:
                r5.violation(key, f.loc(c), f"`{norm(a0)}` is what a type[...] / type object stands for, but the call asks whether its instances implement the protocol: a class whose instances have the members (and whose class object does not) is treated as implementing it")
    if n < 2:
        raise AnalysisError(f"only {n} class-object protocol checks found")


def run_assumption_discipline(chk: Check, ix) -> None:
    """R08.6: a positive memo entry is not derived from an unverified assumption."""
    from ..cfg import branch_conditions
    r6 = chk.rule("R08.6", "is_subtype / is_proper_subtype check recursive aliases co-inductively: the pair is pushed on TypeState._assuming / _assuming_proper and assumed to hold while it is being verified. A positive answer computed while such an assumption is pending may rest on it, so TypeState.record_subtype_cache_entry stores nothing while either stack is non-empty (negative answers do not depend on assumptions: assuming more can only make more pairs subtypes); otherwise an entry survives the refutation of the assumption it was derived from and later, unrelated checks get a wrong answer from the cache", floor=2)
    ts = ix.cls("mypy.typestate.TypeState")
    rec = ts.methods["record_subtype_cache_entry"]
    stacks = sorted(a for a in ("_assuming", "_assuming_proper") if any(isinstance(x, ast.Attribute) and x.attr == a for m in ts.methods.values() for x in ast.walk(m.node)))
    if len(stacks) < 2:
        raise AnalysisError(f"TypeState assumption stacks not found: {stacks}")
    par = rec.module.parents()
    adds = [c for c in ast.walk(rec.node) if isinstance(c, ast.Call) and isinstance(c.func, ast.Attribute) and c.func.attr == "add"]
    if not adds:
        raise AnalysisError("record_subtype_cache_entry: the store into the cache was not found")
    st = adds[0]
    while not isinstance(st, ast.stmt):
        st = par[st]
    pos, neg = branch_conditions(par, rec.node, st, early_exits=True)
    excluded = {x.attr for t in neg for x in ast.walk(t) if isinstance(x, ast.Attribute)}
    for a in stacks:
        key = f"record_subtype_cache_entry stores nothing while TypeState.{a} is non-empty"
        if a in excluded:
            r6.ok(key, rec.loc(st))
        else:
            r6.violation(key, rec.loc(st), f"the positive entry is stored whatever `self.{a}` holds: an answer that relies on a pending assumption about recursive aliases outlives the assumption")
    # protocols: the assumption stacks are per TypeInfo (TypeInfo.assuming / assuming_proper)
    ipi = ix.func("mypy.subtypes.is_protocol_implementation")
    hits = []
    for lp in ast.walk(ipi.node):
        if isinstance(lp, ast.For) and "assuming" in norm(lp.iter):
            for i in ast.walk(lp):
                if isinstance(i, ast.If) and any(isinstance(r, ast.Return) and isinstance(r.value, ast.Constant) and r.value.value is True for r in i.body):
                    hits.append(i)
    if not hits:
        raise AnalysisError("is_protocol_implementation: the `already assumed` shortcut over TypeInfo.assuming was not found")
    key = "a positive entry is not stored after a protocol assumption (TypeInfo.assuming) has been relied on"
    flags = {norm(a.targets[0]).split(".")[-1] for i in hits for a in i.body if isinstance(a, ast.Assign) and norm(a.targets[0]).startswith("type_state.")}
    if flags & excluded:
        r6.ok(key, ipi.loc(hits[0]), f"the shortcut sets type_state.{sorted(flags & excluded)[0]}, which record_subtype_cache_entry tests")
    else:
        r6.violation(key, ipi.loc(hits[0]), "the `(left, right) is already assumed` shortcut returns True without leaving a trace, and record_subtype_cache_entry only looks at the alias stacks: an inner pair verified on the strength of an outer protocol assumption is cached as a subtype even when the outer check then fails (B <: Q assumed, A <: P holds under it and is cached, B <: Q fails on another member; later `C -> R` needing A <: P is accepted, and the result depends on the order of the functions in the file)")


CHECK_TIME_MODULES = ("mypy.typeops", "mypy.checker", "mypy.checkexpr", "mypy.checkmember", "mypy.checkpattern", "mypy.checkstrformat", "mypy.join", "mypy.meet", "mypy.subtypes", "mypy.expandtype", "mypy.applytype", "mypy.solve", "mypy.constraints", "mypy.infer", "mypy.binder", "mypy.erasetype", "mypy.plugins.")
FRESH_MAKERS = {"copy_modified", "copy_with_extra_attr", "copy_type", "copy", "with_name", "with_unpacked_kwargs", "deserialize", "read", "erase_type", "expand_type", "expand_type_by_instance", "fill_typevars", "named_type", "named_generic_type", "function_type", "type_object_type", "bind_self", "make_union", "make_simplified_union"}


def run_no_inplace_hash_mutation(chk: Check, ix) -> None:
    """R08.7: while types are being compared and cached, a hashed field of a type somebody else may hold is not assigned."""
    from ..resolve import Resolver, members
    r7 = chk.rule("R08.7", "types are keys of the subtype caches and elements of sets (hashed by the fields __hash__ reads, R08.2) and are shared freely (binder, type map, caches); in the modules that run during type checking, an assignment to such a hashed field (`t.args = ..`, `t.extra_attrs = ..`) is made only on an object the same function has just created (constructor, copy_modified, copy_with_extra_attr, ...; the nearest preceding binding of the variable), never on one that was passed in or looked up: otherwise the type of an unrelated expression changes as a side effect and cached answers are filed under a stale hash", floor=4)
    R = Resolver(ix)
    TYPE = ix.cls("mypy.types.Type")
    tc = {c.qualname: c for c in TYPE.all_subclasses()}
    type_names = {c.name for c in tc.values()}
    hf: dict[str, set[str]] = {}
    for q, c in tc.items():
        for k in c.mro():
            h = hash_fields(k)
            if h is not None:
                hf[q] = h
                break
    n = 0
    for q, f in sorted(ix.functions.items()):
        mn = f.module.name
        if f.parent is not None or not (mn in CHECK_TIME_MODULES or mn.startswith("mypy.plugins.")):
            continue
        env = None
        par = None
        for a in ast.walk(f.node):
            if not isinstance(a, (ast.Assign, ast.AugAssign)):
                continue
            for t in (a.targets if isinstance(a, ast.Assign) else [a.target]):
                if not isinstance(t, ast.Attribute) or (isinstance(t.value, ast.Name) and t.value.id == "self"):
                    continue
                if env is None:
                    env = R.env(f)
                try:
                    ty = R.type_of(t.value, f, env)
                except Exception:
                    continue
                cl = [x[1] for x in members(ty) if x[0] == "cls" and x[1] in tc]
                if not cl or not any(t.attr in hf.get(c, set()) for c in cl):
                    continue
                n += 1
                key = f"{q}: `{norm(t)} = ...` assigns a hashed field of a {'/'.join(sorted({c.split('.')[-1] for c in cl}))[:40]} the function created itself"
                fresh = False
                why = "the object is not a plain local"
                if isinstance(t.value, ast.Name):
                    par = par or f.module.parents()
                    # nearest preceding binding of the variable on the way up through the enclosing blocks
                    v = t.value.id
                    cur = a
                    found = None
                    while cur is not None and cur is not f.node and found is None:
                        p = par.get(cur)
                        for fld in ("body", "orelse", "finalbody"):
                            blk = getattr(p, fld, None)
                            if isinstance(blk, list) and any(x is cur for x in blk):
                                idx = [i for i, x in enumerate(blk) if x is cur][0]
                                for prev in reversed(blk[:idx]):
                                    binds = [x for x in ast.walk(prev) if isinstance(x, (ast.Assign, ast.AnnAssign)) and any(isinstance(tt, ast.Name) and tt.id == v for tt in (x.targets if isinstance(x, ast.Assign) else [x.target]))]
                                    if binds:
                                        found = binds  # a compound statement may bind the variable in several arms
                                        break
                        cur = p
                    if found is None or any(b.value is None for b in found):
                        why = f"`{v}` is a parameter or is bound outside the enclosing blocks"
                    else:
                        def is_fresh(val: ast.expr) -> bool:
                            if isinstance(val, ast.Call) and isinstance(val.func, ast.Attribute) and val.func.attr in FRESH_MAKERS:
                                return True
                            cn = call_name(val) if isinstance(val, ast.Call) else None
                            return cn is not None and (cn in FRESH_MAKERS or cn in type_names)
                        fresh = all(is_fresh(b.value) for b in found)
                        why = f"`{v}` was last bound to " + " / ".join(f"`{norm(b.value)[:50]}`" for b in found)
                if fresh:
                    r7.ok(key, f.loc(a), why)
                else:
                    r7.violation(key, f.loc(a), f"{why}: that object may be held elsewhere (the binder, the type map, a cache key), and this assignment changes it there too")
    if n < 4:
        raise AnalysisError(f"only {n} assignments to hashed type fields found in type-checking-time modules")


def run_whole_component_equality(chk: Check, ix) -> None:
    """R08.8: type equality compares component types whole, never a projection of them."""
    r8 = chk.rule("R08.8", "in __eq__ and __hash__ of every Type subclass a component reached from self/other (`self.partial_fallback`, `self.fallback`, `self.item`, ...) enters the comparison whole: no sub-attribute of a component (`self.partial_fallback.type`) is compared or hashed in its place. `left == right` short-cuts is_subtype / is_proper_subtype, de-duplicates union items and keys the subtype caches, so an equality that drops a component's type arguments makes two different types one", floor=30)
    for c in type_classes(ix):
        for mname in ("__eq__", "__hash__"):
            f = c.methods.get(mname)
            if f is None:
                continue
            par = f.module.parents()
            proj = []
            for n in ast.walk(f.node):
                if isinstance(n, ast.Attribute) and isinstance(n.value, ast.Attribute) and isinstance(n.value.value, ast.Name) and n.value.value.id in ("self", "other"):
                    p = par.get(n)
                    if isinstance(p, ast.Call) and p.func is n:
                        continue  # a method of a container field: self.items.keys()
                    proj.append(n)
            key = f"{c.name}.{mname}: components are compared whole"
            if not proj:
                r8.ok(key, f.loc())
            else:
                r8.violation(key, f.loc(proj[0]), f"`{norm(proj[0])}` takes a sub-attribute of the component `{norm(proj[0].value)}`: what else the component carries (e.g. the type arguments of a tuple type's fallback Instance, which are not derived from the items for a generic tuple subclass `class Key(NamedTuple, Generic[T])`) no longer distinguishes two {c.name} values")


def run_literal_contraction_by_values(chk: Check, ix) -> None:
    """R08.9: literals are contracted to their sum type when all member *values* have been seen, not after so many literals."""
    r = chk.rule("R08.9", "typeops.try_contracting_literals_in_union replaces `Literal[E.A] | Literal[E.B] | ...` by `E` (and `Literal[True, False]` by bool) when every member of the enum is present. One of its callers (the `recombine rhs literal types` step of subtypes._is_subtype) passes unions that may repeat an item, so the decision must depend on which values were seen: the test that triggers the contraction reads a collection that is updated with the literal's value (`literals.discard(typ.value)`), not a count of the literals encountered. Counting makes `bool <: Literal[True, True]` hold while `bool <: Literal[True]` does not (transitivity)", floor=1)
    f = ix.func("mypy.typeops.try_contracting_literals_in_union")
    trig = None
    for i in ast.walk(f.node):
        if isinstance(i, ast.If) and any(isinstance(a, ast.Assign) and isinstance(a.targets[0], ast.Subscript) and "fallback" in norm(a.value) for a in i.body):
            trig = i
    if trig is None:
        raise AnalysisError("try_contracting_literals_in_union: the contraction step (`proper_types[first] = typ.fallback`) was not found")
    names = {x.id for x in ast.walk(trig.test) if isinstance(x, ast.Name)}
    value_fed = set()
    for c in ast.walk(f.node):
        if isinstance(c, ast.Call) and isinstance(c.func, ast.Attribute) and isinstance(c.func.value, ast.Name) and c.func.attr in ("discard", "remove", "add", "append", "pop") and any("value" in norm(a) for a in c.args):
            value_fed.add(c.func.value.id)
    key = "try_contracting_literals_in_union: the contraction is triggered by the member values seen"
    if names & value_fed:
        r.ok(key, f.loc(trig), f"`{norm(trig.test)}` reads {sorted(names & value_fed)}, which is updated with the literal's value")
    else:
        r.violation(key, f.loc(trig), f"`{norm(trig.test)}` reads {sorted(names)}, none of which is updated with `typ.value`: the decision counts literals instead of tracking which members were seen, so a repeated literal stands in for a missing member (`Literal[True, True]` contracts to bool)")


class _NoEval(Exception):
    pass


def _eval_members_test(e: ast.expr, members: list[str]):
    """Evaluate a test over `<x>.protocol_members` for one sample member list."""
    if isinstance(e, ast.Constant):
        return e.value
    if isinstance(e, ast.Attribute) and e.attr == "protocol_members":
        return list(members)
    if isinstance(e, ast.Attribute) and e.attr == "is_protocol":
        return True
    if isinstance(e, (ast.List, ast.Tuple, ast.Set)):
        vals = [_eval_members_test(x, members) for x in e.elts]
        return vals if isinstance(e, ast.List) else tuple(vals) if isinstance(e, ast.Tuple) else set(vals)
    if isinstance(e, ast.Call) and isinstance(e.func, ast.Name) and e.func.id in ("len", "set", "list", "sorted", "tuple") and len(e.args) == 1:
        return {"len": len, "set": set, "list": list, "sorted": sorted, "tuple": tuple}[e.func.id](_eval_members_test(e.args[0], members))
    if isinstance(e, ast.Subscript):
        base = _eval_members_test(e.value, members)
        sl = e.slice
        try:
            if isinstance(sl, ast.Slice):
                lo, hi = (None if b is None else _eval_members_test(b, members) for b in (sl.lower, sl.upper))
                return base[lo:hi]
            return base[_eval_members_test(sl, members)]
        except (IndexError, KeyError, TypeError):
            return None
    if isinstance(e, ast.UnaryOp) and isinstance(e.op, ast.USub):
        return -_eval_members_test(e.operand, members)
    if isinstance(e, ast.UnaryOp) and isinstance(e.op, ast.Not):
        return not _eval_members_test(e.operand, members)
    if isinstance(e, ast.BoolOp):
        vals = [_eval_members_test(v, members) for v in e.values]
        return all(vals) if isinstance(e.op, ast.And) else any(vals)
    if isinstance(e, ast.Compare) and len(e.ops) == 1:
        a, b = _eval_members_test(e.left, members), _eval_members_test(e.comparators[0], members)
        o = e.ops[0]
        if isinstance(o, ast.Eq):
            return a == b
        if isinstance(o, ast.NotEq):
            return a != b
        if isinstance(o, ast.In):
            return a in b
        if isinstance(o, ast.NotIn):
            return a not in b
    raise _NoEval(ast.unparse(e)[:60])


def run_callback_protocol_unpacking(chk: Check, ix) -> None:
    """R08.10: join/meet replace a protocol by its __call__ type only when __call__ is its only member."""
    from ..cfg import branch_conditions
    r10 = chk.rule("R08.10", "join.py / meet.py treat a callback protocol as the callable type of its `__call__` (find_member('__call__', t, ...) returned in place of the Instance). A protocol with further members is a strict subtype of that callable, so computing meet(P, c) on the unpacked type yields a callable that lacks the other members and is not a subtype of P (meet law), and join loses them silently. The test guarding each such replacement is evaluated over sample member lists: it holds for ['__call__'] and fails for ['__call__', 'x'], ['x'] and []", floor=1)
    samples = (["__call__"], ["__call__", "retries"], ["retries", "__call__"], ["retries"], [])
    n = 0
    for mn in ("mypy.join", "mypy.meet"):
        m = ix.module(mn)
        for f in list(m.functions.values()) + [mm for c in m.classes.values() for mm in c.methods.values()]:
            par = None
            for r in ast.walk(f.node):
                if not (isinstance(r, ast.Return) and r.value is not None and any(isinstance(c, ast.Call) and call_name(c) == "find_member" and c.args and isinstance(c.args[0], ast.Constant) and c.args[0].value == "__call__" for c in ast.walk(r.value))):
                    continue
                par = par or f.module.parents()
                pos, neg = branch_conditions(par, f.node, r)
                tests = [t for t in pos if "protocol_members" in norm(t)]
                n += 1
                key = f"{mn.removeprefix('mypy.')}.{f.name}: a protocol is replaced by its __call__ type only if that is its only member"
                if not tests:
                    r10.violation(key, f.loc(r), "the replacement is not guarded by any test of `protocol_members`")
                    continue
                try:
                    verdicts = {tuple(sm): all(bool(_eval_members_test(t, sm)) for t in tests) for sm in samples}
                except _NoEval as e:
                    raise AnalysisError(f"{f.qualname}: cannot evaluate the guard `{e}` over sample member lists")
                wrong = [list(k) for k, v in verdicts.items() if v != (list(k) == ["__call__"])]
                if not wrong:
                    r10.ok(key, f.loc(r))
                else:
                    r10.violation(key, f.loc(r), f"guard `{' and '.join(norm(t) for t in tests)[:90]}` gives the wrong answer for member lists {wrong}: a protocol with `__call__` and other members is unpacked, and meet(P, Callable[...]) becomes a plain callable that is not a subtype of P")
    if n < 1:
        raise AnalysisError("join.py / meet.py: no replacement of a protocol by find_member('__call__', ...) found")
