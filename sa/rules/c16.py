"""C16 — the daemon survives client faults; its channel delivers intact messages.

R16.1  exception containment: nothing a client can cause (connection I/O, frame decoding) escapes
       an iteration of the `while True` serve loop, except the structurally identified exits
       (stop command, idle timeout, deliberate crash report).
R16.2  the status file created by serve is removed on every exit (finally), unless the last
       command was "stop" and cmd_stop removed it.
R16.3  per-connection framing state is reset for every accepted connection of an IPCServer.
R16.4  frame consumption: a returned frame resets message_size and keeps only the unconsumed tail;
       the header is decoded only after HEADER_SIZE bytes are present; read_bytes returns only what
       frame_from_buffer produced, or b"".
"""

from __future__ import annotations

import ast

from ..cfg import CFG, call_name
from ..index import AnalysisError, get_index, norm
from ..raises import Raises
from ..report import Check
from ..resolve import Resolver


def run(chk: Check) -> None:
    ix = get_index()
    R = Resolver(ix)
    RS = Raises(ix, R)
    chk.assumptions.append("POSIX branch of sys.platform tests (win32 branches are not analysed)")
    chk.trusted.append("frozen table of standard-library may-raise effects (sa/raises.py): socket recv/sendall/accept, bytes.decode, json.loads, os.unlink ...")

    serve = ix.func("mypy.dmypy_server.Server.serve")
    loops = [n for n in ast.walk(serve.node) if isinstance(n, ast.While) and isinstance(n.test, ast.Constant) and n.test.value is True]
    loops = [l for l in loops if any(isinstance(c, ast.Call) and call_name(c) == "receive" for c in ast.walk(l))]
    if len(loops) != 1:
        raise AnalysisError(f"serve loop not identified ({len(loops)} `while True` loops containing receive())")
    loop = loops[0]

    run_request_dict(chk, ix, serve, loop)
    run_stop_state(chk, ix, serve, loop)
    run_client_paths(chk, ix)
    run_handlers_flush_and_no_asserts(chk, ix)
    run_replies_are_ascii_safe(chk, ix)
    run_engine_handlers(chk, ix)
    run_request_values_typed(chk, ix)

    # ------------- R16.1
    r1 = chk.rule("R16.1", "every exception class that connection I/O or frame decoding may raise inside the serve loop is caught inside the loop by a handler that neither re-raises nor leaves the loop (intended exits identified structurally)", floor=4)
    esc = RS.of_block(loop.body, serve, [])
    # classify the origins
    n_sites = 0
    by_origin: dict[str, set[str]] = {}
    for exc, origin in esc:
        by_origin.setdefault(origin, set()).add(exc)
    allowed_kinds = []
    for origin, excs in sorted(by_origin.items()):
        kind = classify_exit(origin, loop, serve)
        if kind is not None:
            allowed_kinds.append((origin, sorted(excs), kind))
            r1.ok(f"intended exit: {kind}", serve.loc(), f"{sorted(excs)} from {origin[:120]}")
        else:
            site = origin.split(" called at ")[0] if " called at " in origin else origin.split(" at ")[0]
            r1.violation(
                f"mypy.dmypy_server.Server.serve: {short_site(origin)} escapes the serve loop",
                serve.loc(loop),
                f"{sorted(excs)} may propagate out of the serve loop and end the daemon: {origin[:200]}",
            )
    # what was contained (evidence + non-vacuity): calls in the loop with a non-empty raise set
    contained = 0
    for n in ast.walk(loop):
        if isinstance(n, ast.Call):
            rs = RS.of_call(n, serve)
            if rs:
                n_sites += 1
                if not any(o in by_origin for _, o in rs) or True:
                    contained += 1
                    r1.ok(f"call {norm(n.func)}(...) may raise {sorted({e for e, _ in rs})}: analysed", serve.loc(n))
    if n_sites < 3:
        raise AnalysisError("fewer than 3 raising call sites found in the serve loop: may-raise summaries have gone blind")
    # the handlers that contain must not leave the loop
    for t in [n for n in ast.walk(loop) if isinstance(n, ast.Try)]:
        for h in t.handlers:
            leaves = [x for x in ast.walk(h) if isinstance(x, (ast.Break, ast.Return))]
            reraises = [x for x in ast.walk(h) if isinstance(x, ast.Raise)]
            body_calls_run = any(isinstance(c, ast.Call) and call_name(c) == "run_command" for s in t.body for c in ast.walk(s))
            key = f"handler `except {norm(h.type) if h.type else ''}` at try around {norm(t.body[0])[:40]}"
            if leaves:
                r1.violation(key, serve.loc(h), "handler inside the serve loop leaves the loop (break/return): one bad request ends the daemon")
            elif reraises and not body_calls_run:
                r1.violation(key, serve.loc(h), "handler inside the serve loop re-raises")
            else:
                r1.ok(key, serve.loc(h), "stays in the loop" if not reraises else "deliberate crash-report-and-reraise around run_command")
    # forwarding stdout/stderr to a vanished client must not raise into the command
    wtc = ix.func("mypy.dmypy_util.WriteToConn.write")
    wr = RS.of_function(wtc)
    if wr:
        r1.violation("mypy.dmypy_util.WriteToConn.write: client hang-up while forwarding output", wtc.loc(), f"{sorted({e for e, _ in wr})} from writing to a vanished client propagates into the running command and from there through the crash path out of the serve loop")
    else:
        r1.ok("WriteToConn.write contains connection errors", wtc.loc())
    rcv = ix.func("mypy.dmypy_util.receive")
    rr = {e for e, _ in RS.of_function(rcv)}
    if rr <= {"OSError"}:
        r1.ok("receive() raises only OSError (its documented contract)", rcv.loc(), f"{sorted(rr)}")
    else:
        r1.violation("receive() raises only OSError (its documented contract)", rcv.loc(), f"receive may raise {sorted(rr - {'OSError'})}, which callers that handle OSError do not expect")

    # ------------- R16.2
    r2 = chk.rule("R16.2", "the status file is removed on every exit of serve unless the last command was 'stop' (then cmd_stop removed it)", floor=3)
    g = CFG(serve.node)
    opens = [n for n in g.nodes if n.kind == "with" and any(isinstance(c, ast.Call) and call_name(c) == "open" and c.args and norm(c.args[0]) == "self.status_file" for c in n.calls())]
    if not opens:
        raise AnalysisError("status file creation not found in serve")
    unlinks = [n for n in g.nodes if any(norm(c.func) in ("os.unlink", "os.remove") and c.args and norm(c.args[0]) == "self.status_file" for c in n.calls())]
    stop_tests = [n for n in g.nodes if n.kind == "test" and norm(n.exprs[0]) in ("command != 'stop'", "command == 'stop'")]
    for o in opens:
        # successors of the open node on paths that avoid an unlink; the `command != "stop"` test may be
        # left through its false edge (stop: cmd_stop unlinked)
        seen, todo, bad = set(), [o], None
        while todo:
            n = todo.pop()
            if n in seen:
                continue
            seen.add(n)
            if n in (g.exit, g.raise_exit):
                bad = n
                break
            for m, lab in n.succ:
                if m in unlinks:
                    continue
                if n in stop_tests:
                    t = norm(n.exprs[0])
                    skip_label = "false" if t.startswith("command !=") else "true"
                    if lab == skip_label and is_in_finally(serve.node, n.stmt):
                        continue
                if n is o and lab == "exc":
                    continue  # the open itself failed: nothing was created
                todo.append(m)
        key = "serve: status file unlinked on every exit"
        if bad is None:
            r2.ok(key, serve.loc(o.stmt))
        else:
            path = g.witness(o, [bad], avoiding=unlinks)
            r2.violation(key, serve.loc(o.stmt), "a path from creating the status file to leaving serve() passes no os.unlink(self.status_file)", witness=g.fmt_path(path or [], serve.module.relpath))
    for u in unlinks:
        if is_in_finally(serve.node, u.stmt):
            r2.ok("unlink sits in a finally block", serve.loc(u.stmt))
            break
    else:
        r2.violation("unlink sits in a finally block", serve.loc(), "status file removal is not in a finally block")
    stop = ix.func("mypy.dmypy_server.Server.cmd_stop")
    gs = CFG(stop.node)
    su = [n for n in gs.nodes if any(norm(c.func) in ("os.unlink", "os.remove") and c.args and norm(c.args[0]) == "self.status_file" for c in n.calls())]
    if su and gs.must_pass(gs.entry, [gs.exit], su, labels_excluded=("exc",)):
        r2.ok("cmd_stop removes the status file on every normal path", stop.loc())
    else:
        r2.violation("cmd_stop removes the status file on every normal path", stop.loc(), "serve() skips the unlink after a stop command, relying on cmd_stop, which does not always unlink")
    # the stop exit itself
    exits = [n for n in ast.walk(loop) if isinstance(n, ast.Call) and norm(n.func) == "sys.exit"]
    for e in exits:
        conj, _ = guard_tests(serve, e)
        if any(norm(c) == "command == 'stop'" for c in conj):
            r2.ok("sys.exit in the loop only after command == 'stop'", serve.loc(e))
        else:
            r2.violation("sys.exit in the loop only after command == 'stop'", serve.loc(e), "the serve loop exits the process on a path not guarded by the stop command")

    # ------------- R16.3
    r3 = chk.rule("R16.3", "IPCServer resets buffer and message_size for every accepted connection", floor=1)
    srv = ix.cls("mypy.ipc.IPCServer")
    fields = {"buffer", "message_size"}
    reset_in = {}
    for mname in ("__enter__", "__exit__", "close"):
        m = srv.lookup_method(mname)
        if m is None:
            continue
        top = set()
        for s in m.node.body:  # unconditional top-level statements only
            if isinstance(s, ast.Assign):
                for t in s.targets:
                    if isinstance(t, ast.Attribute) and norm(t.value) == "self" and t.attr in fields:
                        top.add(t.attr)
            elif isinstance(s, ast.AnnAssign) and isinstance(s.target, ast.Attribute) and s.target.attr in fields:
                top.add(s.target.attr)
        reset_in[mname] = top
    if any(v == fields for v in reset_in.values()):
        r3.ok("mypy.ipc.IPCServer: per-connection framing state reset", srv.module.relpath, f"{ {k: sorted(v) for k, v in reset_in.items()} }")
    else:
        r3.violation("mypy.ipc.IPCServer: per-connection framing state reset", f"{srv.module.relpath}:{srv.node.lineno}", f"one IPCServer object serves many connections but neither __enter__, __exit__ nor close assigns both buffer and message_size unconditionally ({ {k: sorted(v) for k, v in reset_in.items()} }): a partial frame left by one client is prepended to the next request")

    # ------------- R16.4
    r4 = chk.rule("R16.4", "frame_from_buffer: header decoded only with HEADER_SIZE bytes present; a returned frame is followed by message_size = None and buffer = unconsumed tail; read_bytes returns only frames or b''", floor=4)
    ffb = ix.func("mypy.ipc.IPCBase.frame_from_buffer")
    g4 = CFG(ffb.node)
    rets = [n for n in g4.nodes if isinstance(n.stmt, ast.Return) and n.kind == "stmt" and n.stmt.value is not None and not (isinstance(n.stmt.value, ast.Constant) and n.stmt.value.value is None)]
    if not rets:
        raise AnalysisError("frame_from_buffer returns no frame")
    def assigns(attr, pred):
        out = []
        for n in g4.nodes:
            s = n.stmt
            if n.kind == "stmt" and isinstance(s, ast.Assign) and any(isinstance(t, ast.Attribute) and norm(t) == f"self.{attr}" for t in s.targets) and pred(s.value):
                out.append(n)
        return out
    resets = assigns("message_size", lambda v: isinstance(v, ast.Constant) and v.value is None)
    sets = assigns("message_size", lambda v: not (isinstance(v, ast.Constant) and v.value is None))
    tails = assigns("buffer", lambda v: isinstance(v, ast.Subscript) and isinstance(v.slice, ast.Slice) and v.slice.upper is None and v.slice.lower is not None and "message_size" in norm(v.slice.lower) and "HEADER_SIZE" in norm(v.slice.lower))
    for rt in rets:
        ok1 = bool(resets) and g4.must_pass(g4.entry, [rt], resets, labels_excluded=("exc",))
        ok1 = ok1 and all(not any(s in g4.reachable([rs], labels_excluded=("exc",)) and rt in g4.reachable([s], labels_excluded=("exc",)) for s in sets) for rs in resets)
        if ok1:
            r4.ok("returned frame => message_size reset to None (last write)", ffb.loc(rt.stmt))
        else:
            r4.violation("returned frame => message_size reset to None (last write)", ffb.loc(rt.stmt), "a frame is returned while message_size keeps the consumed frame's size: the next header is never decoded and the following frame is cut at the stale length")
        ok2 = bool(tails) and g4.must_pass(g4.entry, [rt], tails, labels_excluded=("exc",))
        ok2 = ok2 and all(g4.must_pass(g4.entry, [rs], tails, labels_excluded=("exc",)) for rs in resets)
        if ok2:
            r4.ok("returned frame => buffer = buffer[HEADER_SIZE + message_size:] before the reset", ffb.loc(rt.stmt))
        else:
            r4.violation("returned frame => buffer = buffer[HEADER_SIZE + message_size:] before the reset", ffb.loc(rt.stmt), "the consumed frame is not removed from the buffer (or is removed after message_size was cleared)")
    # header decode guarded
    unp = [n for n in g4.nodes if any(norm(c.func) == "struct.unpack" for c in n.calls())]
    if not unp:
        raise AnalysisError("struct.unpack of the header not found")
    guards = [n for n in g4.nodes if n.kind == "test" and "HEADER_SIZE" in norm(n.exprs[0]) and isinstance(n.exprs[0], ast.Compare) and isinstance(n.exprs[0].ops[0], ast.Lt)]
    for u in unp:
        good = False
        for gd in guards:
            # the true branch (size < HEADER_SIZE) must not reach the unpack
            tsucc = [m for m, lab in gd.succ if lab == "true"]
            if u not in g4.reachable(tsucc, labels_excluded=("exc",)) and g4.must_pass(g4.entry, [u], [gd], labels_excluded=("exc",)):
                good = True
        arg_ok = any(norm(c.func) == "struct.unpack" and len(c.args) == 2 and isinstance(c.args[1], ast.Subscript) and norm(c.args[1].slice) == ":HEADER_SIZE" for c in u.calls())
        if good and arg_ok:
            r4.ok("header decoded only when len(buffer) >= HEADER_SIZE, from exactly HEADER_SIZE bytes", ffb.loc(u.stmt))
        else:
            r4.violation("header decoded only when len(buffer) >= HEADER_SIZE, from exactly HEADER_SIZE bytes", ffb.loc(u.stmt), "struct.unpack may see fewer than HEADER_SIZE bytes (struct.error is not an OSError: it would end the daemon)")
    # completeness test: frame returned only when size >= message_size + HEADER_SIZE
    full = [n for n in g4.nodes if n.kind == "test" and isinstance(n.exprs[0], ast.Compare) and isinstance(n.exprs[0].ops[0], ast.Lt) and "message_size" in norm(n.exprs[0].comparators[0]) and "HEADER_SIZE" in norm(n.exprs[0].comparators[0])]
    for rt in rets:
        ok = False
        for t in full:
            tsucc = [m for m, lab in t.succ if lab == "true"]
            if rt not in g4.reachable(tsucc, labels_excluded=("exc",)) and g4.must_pass(g4.entry, [rt], [t], labels_excluded=("exc",)):
                ok = True
        if ok:
            r4.ok("frame returned only when the whole frame is buffered", ffb.loc(rt.stmt))
        else:
            r4.violation("frame returned only when the whole frame is buffered", ffb.loc(rt.stmt), "a frame can be returned before message_size + HEADER_SIZE bytes have arrived (truncated message)")
    rb = ix.func("mypy.ipc.IPCBase.read_bytes")
    rb_rets = [n for n in ast.walk(rb.node) if isinstance(n, ast.Return) and n.value is not None]
    for rt in rb_rets:
        v = norm(rt.value)
        srcs = set()
        if isinstance(rt.value, ast.Name):
            for n in ast.walk(rb.node):
                if isinstance(n, ast.Assign) and any(isinstance(t, ast.Name) and t.id == rt.value.id for t in n.targets):
                    srcs.add(norm(n.value))
        if v in ("b''", "self.frame_from_buffer()") or (isinstance(rt.value, ast.Name) and srcs == {"self.frame_from_buffer()"}):
            r4.ok("read_bytes returns " + ("b''" if v == "b''" else "what frame_from_buffer produced"), rb.loc(rt))
        else:
            r4.violation(f"read_bytes returns {v}", rb.loc(rt), f"read_bytes returns something other than a complete frame or b'' (sources of `{v}`: {sorted(srcs)})")
    wb = ix.func("mypy.ipc.IPCBase.write_bytes")
    packs = [n for n in ast.walk(wb.node) if isinstance(n, ast.BinOp) and isinstance(n.op, ast.Add) and isinstance(n.left, ast.Call) and norm(n.left.func) == "struct.pack"]
    okp = [p for p in packs if len(p.left.args) == 2 and isinstance(p.left.args[0], ast.Constant) and p.left.args[0].value == "!L" and norm(p.left.args[1]) == f"len({norm(p.right)})"]
    unp_fmt = {c.args[0].value for u in unp for c in u.calls() if norm(c.func) == "struct.unpack" and isinstance(c.args[0], ast.Constant)}
    if okp and unp_fmt == {"!L"}:
        r4.ok("writer frames as pack('!L', len(data)) + data; reader unpacks '!L'", wb.loc())
    else:
        r4.violation("writer frames as pack('!L', len(data)) + data; reader unpacks '!L'", wb.loc(), f"header format of writer and reader disagree, or the length written is not len(payload) (reader formats {sorted(unp_fmt)})")


def run_request_dict(chk: Check, ix, serve, loop) -> None:
    """R16.5: the request dict (client-controlled keys) is never indexed/deleted/unpacked unchecked."""
    def guard_chain(f, node):
        """(conditions known true, conditions known false) from enclosing if/else arms."""
        parents = f.module.parents()
        pos, neg = [], []
        cur = node
        while cur is not f.node:
            p = parents.get(cur)
            if p is None:
                break
            if isinstance(p, ast.If):
                if any(cur is x for x in p.body):
                    pos.extend(p.test.values if isinstance(p.test, ast.BoolOp) and isinstance(p.test.op, ast.And) else [p.test])
                elif any(cur is x for x in p.orelse):
                    neg.extend(p.test.values if isinstance(p.test, ast.BoolOp) and isinstance(p.test.op, ast.Or) else [p.test])
            cur = p
        return pos, neg

    r5 = chk.rule("R16.5", "client-controlled request keys: a subscript / del / pop-without-default on the request dict is guarded by a membership test; **data is passed to a command only after signature binding was checked under `except TypeError`; a rejected 'stop' does not exit", floor=4)
    rc = ix.func("mypy.dmypy_server.Server.run_command")
    for f, scope, var in ((serve, loop, "data"), (rc, rc.node, "data")):
        for n in ast.walk(scope):
            key = None
            kind = None
            if isinstance(n, ast.Subscript) and isinstance(n.value, ast.Name) and n.value.id == var and not isinstance(n.ctx, ast.Store):
                key, kind = n.slice, "del" if isinstance(n.ctx, ast.Del) else "subscript"
            elif isinstance(n, ast.Call) and isinstance(n.func, ast.Attribute) and isinstance(n.func.value, ast.Name) and n.func.value.id == var and n.func.attr == "pop" and len(n.args) == 1 and not n.keywords:
                key, kind = n.args[0], "pop without default"
            if key is None:
                continue
            pos, neg = guard_chain(f, n)
            kt = norm(key)
            guarded = any(norm(t) == f"{kt} in {var}" for t in pos) or any(norm(t) == f"{kt} not in {var}" for t in neg)
            k = f"{f.qualname}: {kind} {var}[{kt}]"
            if guarded:
                r5.ok(k, f.loc(n), f"under `{kt} in {var}`")
            else:
                r5.violation(k, f.loc(n), f"a request without the key {kt} raises KeyError here; in the serve loop that is reported as a daemon crash and the daemon exits")
    # **data
    stars = [c for c in ast.walk(rc.node) if isinstance(c, ast.Call) and any(k.arg is None and norm(k.value) == "data" for k in c.keywords)]
    calls = [c for c in stars if not (isinstance(c.func, ast.Attribute) and c.func.attr == "bind")]
    binds = [c for c in stars if isinstance(c.func, ast.Attribute) and c.func.attr == "bind" and "signature(method)" in norm(c.func.value)]
    if not calls:
        raise AnalysisError("run_command no longer passes **data to the command method")
    g = CFG(rc.node, may_raise=lambda c: True)
    for c in calls:
        k = f"run_command: {norm(c)} is reached only after the arguments were bound to the command's signature"
        cn = [x for x in g.nodes if any(y is c for y in x.calls())]
        bn = [x for x in g.nodes if any(y in binds for y in x.calls())]
        tries = [t for t in ast.walk(rc.node) if isinstance(t, ast.Try) and any(b is y for b in binds for st in t.body for y in ast.walk(st))]
        handled = bool(tries) and all(any(h.type is not None and norm(h.type) in ("TypeError", "(TypeError, ValueError)", "Exception") and any(isinstance(x, ast.Return) for x in h.body) and not any(isinstance(x, ast.Raise) for x in ast.walk(h)) for h in t.handlers) for t in tries)
        if cn and bn and handled and g.must_pass(g.entry, cn, bn):
            r5.ok(k, rc.loc(c))
        else:
            r5.violation(k, rc.loc(c), "a request with a missing or unexpected argument makes the call itself raise TypeError, which serve reports as a crash and re-raises: any client can stop the daemon with one malformed request")
    # rejected stop
    exits = [c for c in ast.walk(loop) if isinstance(c, ast.Call) and norm(c.func) == "sys.exit"]
    for e in exits:
        pos, neg = guard_chain(serve, e)
        k = "serve: sys.exit after 'stop' only when the stop command was not rejected"
        if any(norm(t) == "command == 'stop'" for t in pos) and (any(norm(t) == "'error' in resp" for t in neg) or any(norm(t) == "'error' not in resp" for t in pos)):
            r5.ok(k, serve.loc(e))
        else:
            r5.violation(k, serve.loc(e), "a 'stop' request that run_command rejected (cmd_stop never ran, status file still present) still exits the process")


def run_stop_state(chk: Check, ix, serve, loop) -> None:
    """R16.6: `command` can be 'stop' when an iteration of the serve loop starts only if cmd_stop ran."""
    r6 = chk.rule("R16.6", "serve: the loop variable that the finally block consults (`command != 'stop'` => unlink the status file) never carries a request's 'stop' into the next iteration: after the reply it is either tested by a pure `command == 'stop'` (whose true branch exits or resets it) or reset; otherwise a rejected stop followed by a timeout/signal exit leaves the status file behind", floor=2)
    g = CFG(serve.node)
    var = "command"
    heads = [n for n in g.nodes if n.kind == "test" and n.stmt is loop]
    if len(heads) != 1:
        raise AnalysisError("serve loop head not found in the CFG")
    head = heads[0]
    inside = g.reachable([m for m, lab in head.succ if lab == "true"], avoiding=[head], labels_excluded=())
    # nodes of the loop body proper: those from which the head is reachable again
    body = {n for n in inside if head in g.reachable([n])}

    def is_cmp(e, op):
        return isinstance(e, ast.Compare) and len(e.ops) == 1 and isinstance(e.ops[0], op) and norm(e.left) == var and isinstance(e.comparators[0], ast.Constant) and e.comparators[0].value == "stop"

    def refine(state: frozenset, e: ast.expr, label: str) -> frozenset:
        maybe = bool(state & {"req", "stop"})
        if is_cmp(e, ast.Eq) or is_cmp(e, ast.NotEq):
            eq_branch = (label == "true") == is_cmp(e, ast.Eq)
            if eq_branch:
                return frozenset({"stop"}) if maybe else frozenset()
            return frozenset({"notstop" if x in ("req", "stop") else x for x in state})
        if isinstance(e, ast.BoolOp) and isinstance(e.op, ast.And) and any(is_cmp(v, ast.Eq) for v in e.values) and label == "true":
            return frozenset({"stop"}) if maybe else frozenset()
        return state

    IN: dict = {n: frozenset() for n in g.nodes}
    IN[g.entry] = frozenset({"none"})
    work = [g.entry]
    back_out: dict = {}
    while work:
        n = work.pop()
        st = IN[n]
        out_all = st
        if n.kind == "stmt" and isinstance(n.stmt, (ast.Assign, ast.AnnAssign)):
            tg = n.stmt.targets[0] if isinstance(n.stmt, ast.Assign) else n.stmt.target
            if isinstance(tg, ast.Name) and tg.id == var:
                v = n.stmt.value
                out_all = frozenset({"none"}) if isinstance(v, ast.Constant) and v.value is None else (frozenset({"notstop"}) if isinstance(v, ast.Constant) else frozenset({"req"}))
        for m, lab in n.succ:
            o = out_all
            if n.kind == "test" and lab in ("true", "false") and n.exprs:
                o = refine(st, n.exprs[0], lab)
            if lab == "exc":
                o = st | out_all
            if m is head and n in body:
                back_out[(n, lab)] = back_out.get((n, lab), frozenset()) | o
            new = IN[m] | o
            if new != IN[m]:
                IN[m] = new
                work.append(m)
    if not back_out:
        raise AnalysisError("serve loop has no back edge in the CFG")
    bad = {k: v for k, v in back_out.items() if v & {"req", "stop"}}
    key = "at the start of every iteration after the first, `command` is None or a command that is known not to be 'stop'"
    if not bad:
        r6.ok(key, serve.loc(loop), f"{len(back_out)} back edges")
    else:
        (n, lab), v = sorted(bad.items(), key=lambda kv: kv[0][0].lineno)[-1]
        r6.violation(key, serve.loc(n.stmt) if n.stmt is not None else serve.loc(loop), f"an iteration can end (edge `{lab}` from line {n.lineno}) with `command` still holding a request's value that may be 'stop' although the stop was not carried out: a later exit through the idle timeout or a signal finds `command == 'stop'` and keeps the status file of a dead daemon")
    # the finally block decides on exactly this variable
    fin = [n for n in g.nodes if n.kind == "test" and n.exprs and (is_cmp(n.exprs[0], ast.NotEq) or is_cmp(n.exprs[0], ast.Eq))and n not in body]
    if fin:
        r6.ok("the status-file decision after the loop tests the same variable", serve.loc(fin[0].stmt))
    else:
        r6.violation("the status-file decision after the loop tests the same variable", serve.loc(), "no `command != 'stop'` test guards the unlink after the loop")


def short_site(origin: str) -> str:
    head = origin.split(":")[0]
    if " called at " in head:
        head = head.split(" called at ")[0]
    name = head.split(".")[-1].split("(")[0].strip()
    if name in ("receive",):
        return "receive(server)"
    return f"{name}(...)"


def classify_exit(origin: str, loop: ast.While, serve) -> str | None:
    if origin.startswith("sys.exit()"):
        return "process exit after the stop command (guard checked by R16.2)"
    if "__enter__ of `server`" in origin:
        return "idle timeout / accept failure raised by IPCServer.__enter__"
    if origin.startswith("re-raised at") or origin.startswith("re-raise at"):
        return "deliberate crash-report-and-reraise around run_command"
    # raised inside the crash-report handler (the daemon is already going down)
    for t in [n for n in ast.walk(loop) if isinstance(n, ast.Try)]:
        if any(isinstance(c, ast.Call) and call_name(c) == "run_command" for s in t.body for c in ast.walk(s)):
            for h in t.handlers:
                lines = {getattr(x, "lineno", None) for x in ast.walk(h)}
                import re as _re
                m = _re.search(r"at mypy/dmypy_server\.py:(\d+)", origin)
                if m and int(m.group(1)) in lines and any(isinstance(x, ast.Raise) for x in h.body):
                    return "inside the crash-report handler that re-raises anyway"
    return None


def guard_tests(f, node):
    from .c12 import guard_chain
    return guard_chain(f, node)


def is_in_finally(func: ast.AST, stmt: ast.AST) -> bool:
    for t in ast.walk(func):
        if isinstance(t, ast.Try):
            for s in t.finalbody:
                if any(x is stmt for x in ast.walk(s)):
                    return True
    return False


def run_client_paths(chk: Check, ix) -> None:
    """R16.7: a path supplied by the client cannot take the daemon down."""
    r7 = chk.rule("R16.7", "exceptions that leave a command handler reach serve()'s crash-report-and-reraise and end the daemon; a handler (Server.cmd_*) that opens a file named by one of its own parameters (a path the client chose) therefore does so inside try/except OSError and answers with an error response: a typo in `dmypy status --fswatcher-dump-file <path>` must not end the daemon", floor=1)
    srv = ix.cls("mypy.dmypy_server.Server")
    n = 0
    for mn, f in sorted(srv.methods.items()):
        if not mn.startswith("cmd_"):
            continue
        params = {a.arg for a in f.node.args.args[1:] + f.node.args.kwonlyargs}
        par = f.module.parents()
        for c in ast.walk(f.node):
            if not (isinstance(c, ast.Call) and isinstance(c.func, ast.Name) and c.func.id == "open" and c.args):
                continue
            if not any(isinstance(x, ast.Name) and x.id in params for x in ast.walk(c.args[0])):
                continue
            n += 1
            key = f"Server.{mn}: open({norm(c.args[0])}, ...) on a client-supplied path is inside try/except OSError"
            cur = c
            guarded = False
            while cur is not None and cur is not f.node:
                p = par.get(cur)
                if isinstance(p, ast.Try) and any(cur is x for x in p.body):
                    for h in p.handlers:
                        ts = [h.type] if h.type is not None and not isinstance(h.type, ast.Tuple) else (h.type.elts if h.type is not None else [None])
                        if any(t is None or norm(t) in ("OSError", "Exception", "IOError", "EnvironmentError") for t in ts) and not any(isinstance(x, ast.Raise) for x in ast.walk(h)):
                            guarded = True
                cur = p
            if guarded:
                r7.ok(key, f.loc(c))
            else:
                r7.violation(key, f.loc(c), "an OSError from this open() (missing directory, no permission) leaves the handler, is reported as `Daemon crashed!` and re-raised: the daemon exits because of a bad path in an otherwise well-formed request")
    if n < 1:
        raise AnalysisError("no command handler opens a client-supplied path any more (rule has nothing to check)")


def run_handlers_flush_and_no_asserts(chk: Check, ix) -> None:
    """R16.8 / R16.9: what a rejected or unusual request leaves behind in the daemon."""
    from ..cfg import CFG
    srv = ix.cls("mypy.dmypy_server.Server")
    r8 = chk.rule("R16.8", "the daemon's FileSystemCache keeps stat/listdir/read results until flush_caches(); a command handler that hands self.fscache to create_source_list passes flush_caches() (directly or through check(), which ends with it) on every path to a return, also on the InvalidSourceList path: otherwise the results cached while a *rejected* request was looked at are still there for the next request, whose find_changed() then misses an edit", floor=3)
    flushers = {"flush_caches", "check"}
    n8 = 0
    for name, f in sorted(srv.methods.items()):
        if not name.startswith("cmd_"):
            continue
        uses = [c for c in ast.walk(f.node) if isinstance(c, ast.Call) and call_name(c) == "create_source_list" and any("fscache" in norm(a) for a in c.args)]
        uses += [c for c in ast.walk(f.node) if isinstance(c, ast.Call) and call_name(c) == "process_options" and any("fscache" in norm(k.value) for k in c.keywords)]
        if not uses:
            continue
        g = CFG(f.node)
        fl = [nd for nd in g.nodes if nd.stmt is not None and nd.kind == "stmt" and any(isinstance(c, ast.Call) and call_name(c) in flushers and norm(c.func).startswith("self.") for c in ast.walk(nd.stmt))]
        for h in ast.walk(f.node):
            if isinstance(h, ast.ExceptHandler) and h.type is not None and "InvalidSourceList" in norm(h.type):
                n8 += 1
                key = f"{name}: the InvalidSourceList reply flushes the file system cache"
                rets = [s for s in h.body if isinstance(s, ast.Return)]
                flushed = any(isinstance(c, ast.Call) and call_name(c) == "flush_caches" for s in h.body for c in ast.walk(s))
                if flushed or not rets:
                    r8.ok(key, f.loc(h))
                else:
                    r8.violation(key, f.loc(h), "the handler answers {status: 2} without flush_caches(): stat and listdir results cached by create_source_list for the rejected request survive into the next request")
    if n8 < 3:
        raise AnalysisError(f"only {n8} InvalidSourceList handlers found in Server.cmd_* methods")
    r9 = chk.rule("R16.9", "a command handler (Server.cmd_*) does not `assert` a condition on its own parameters: they are filled from the client's request, and an AssertionError in a handler takes the crash-report-and-exit path of serve() (a legal `dmypy recheck --update` ended the daemon)", floor=1)
    n9 = 0
    for name, f in sorted(srv.methods.items()):
        if not name.startswith("cmd_"):
            continue
        params = {a.arg for a in f.params} - {"self"}
        key = f"{name}: no assert on a client-supplied parameter"
        bad = None
        par = f.module.parents()
        from ..cfg import branch_conditions
        for a in ast.walk(f.node):
            if isinstance(a, ast.Assert) and isinstance(a.test, ast.Constant) and not a.test.value:
                # `assert False` as the last arm of a chain over a client-supplied value
                pos, neg = branch_conditions(par, f.node, a)
                if any(({x.id for x in ast.walk(t) if isinstance(x, ast.Name)} & params) for t in pos + neg):
                    bad = a
                continue
            if isinstance(a, ast.Assert) and ({x.id for x in ast.walk(a.test) if isinstance(x, ast.Name)} & params):
                # an assert that an earlier exit already guarantees (the same names tested and returned on) is fine
                pos, neg = branch_conditions(par, f.node, a, early_exits=True)
                guarded = any(({x.id for x in ast.walk(t) if isinstance(x, ast.Name)} & params) for t in neg)
                if not guarded:
                    bad = a
        n9 += 1
        if bad is None:
            r9.ok(key, f.loc())
        else:
            r9.violation(key, f.loc(bad), f"`{norm(bad)[:80]}` is a condition on request data with no earlier exit for the other case: a client that sends it crashes the daemon")


def run_replies_are_ascii_safe(chk: Check, ix) -> None:
    """R16.10: writing a reply cannot fail on the text of the reply."""
    r = chk.rule("R16.10", "a daemon reply may quote client-supplied or file-system text (an unknown command name, a path with an undecodable byte, which Python spells with a lone surrogate). IPCBase.write encodes the frame with .encode('utf-8'), which raises UnicodeEncodeError (a ValueError, outside the `except OSError` guards of serve() and WriteToConn) for a lone surrogate. dmypy_util.send therefore serializes with json.dumps' default ensure_ascii=True (every non-ASCII character is escaped, the frame is pure ASCII and encoding is total); passing ensure_ascii=False is only acceptable if the writers' guards also catch UnicodeError/ValueError", floor=1)
    f = ix.func("mypy.dmypy_util.send")
    dumps = [c for c in ast.walk(f.node) if isinstance(c, ast.Call) and norm(c.func) in ("json.dumps", "json_dumps", "dumps")]
    if not dumps:
        raise AnalysisError("dmypy_util.send: json.dumps call not found")
    srv = ix.func("mypy.dmypy_server.Server.serve")
    catches_value_error = any(isinstance(h, ast.ExceptHandler) and h.type is not None and any(n in norm(h.type) for n in ("ValueError", "UnicodeError", "UnicodeEncodeError", "Exception")) and any(isinstance(c, ast.Call) and call_name(c) == "send" for s in getattr(par_try, "body", []) for c in ast.walk(s)) for par_try in ast.walk(srv.node) if isinstance(par_try, ast.Try) for h in par_try.handlers)
    for c in dumps:
        key = "dmypy_util.send: the serialized reply can always be encoded"
        raw = any(k.arg == "ensure_ascii" and isinstance(k.value, ast.Constant) and k.value.value is False for k in c.keywords)
        if not raw:
            r.ok(key, f.loc(c), "ensure_ascii left at True: the frame is ASCII")
        elif catches_value_error:
            r.ok(key, f.loc(c), "ensure_ascii=False, but serve() catches the encoding error around send()")
        else:
            r.violation(key, f.loc(c), "`ensure_ascii=False` lets a lone surrogate through to IPCBase.write's .encode('utf-8'): the UnicodeEncodeError is not an OSError, escapes the serve loop, the status file is removed and the daemon exits (request: an unknown command named 'frob\\ud800nicate', or a check of a file whose name has an undecodable byte)")


def run_engine_handlers(chk: Check, ix) -> None:
    """R16.11 / R16.12: the handlers that run an engine over the fine-grained manager."""
    from ..cfg import CFG
    srv = ix.cls("mypy.dmypy_server.Server")
    r11 = chk.rule("R16.11", "a command handler that builds an engine over self.fine_grained_manager (suggest, inspect) lets it read and reprocess files through the daemon's FileSystemCache; like the handlers of R16.8 it passes flush_caches() on every path from a call of one of the engine's methods to the exit, exceptional exits included (a `finally` does), otherwise the first check after a later edit compares against stat results cached during the command and misses the edit", floor=2)
    r12 = chk.rule("R16.12", "run_command() binds the request's keys to the handler's signature so that a malformed request gets an error reply; a handler with a `**kwargs` catch-all accepts every key there, so it binds them to the signature of the callee it forwards them to (inspect.signature(callee).bind(..., **kwargs) under `except TypeError`, or the forwarding call itself under `except TypeError`) before the call", floor=1)
    n11 = n12 = 0
    for name, f in sorted(srv.methods.items()):
        if not name.startswith("cmd_"):
            continue
        g = CFG(f.node)
        builds = [nd for nd in g.nodes if nd.kind == "stmt" and nd.stmt is not None and any(isinstance(c, ast.Call) and any(norm(a) == "self.fine_grained_manager" for a in c.args) and call_name(c) not in ("bind",) for c in nd.calls())]
        if builds:
            n11 += 1
            key = f"{name}: flush_caches() on every path from the engine's use to the exit"
            fl = [nd for nd in g.nodes if nd.stmt is not None and any(call_name(c) == "flush_caches" and norm(c.func).startswith("self.") for c in nd.calls())]
            # the engine has read files once one of its methods ran: start from those calls
            names = {t.id for b in builds if isinstance(b.stmt, ast.Assign) for t in b.stmt.targets if isinstance(t, ast.Name)}
            uses = [nd for nd in g.nodes if nd.stmt is not None and nd.kind == "stmt" and any(isinstance(c.func, ast.Attribute) and isinstance(c.func.value, ast.Name) and c.func.value.id in names for c in nd.calls())]
            bad = [b for b in (uses or builds) if not g.must_pass(b, [g.exit], fl, labels_excluded=())]
            if not bad:
                r11.ok(key, f.loc(builds[0].stmt))
            else:
                r11.violation(key, f.loc(bad[0].stmt), "the handler can return (or raise) after the engine ran without flush_caches(): stat/read results of the files the engine touched (inspect --force-reload, suggest) stay in the daemon's file system cache, and the next check after an edit does not see it")
        kw = f.node.args.kwarg.arg if f.node.args.kwarg else None
        if kw is None:
            continue
        par = f.module.parents()
        for c in ast.walk(f.node):
            if not (isinstance(c, ast.Call) and any(k.arg is None and norm(k.value) == kw for k in c.keywords)) or call_name(c) == "bind":
                continue
            n12 += 1
            key = f"{name}: **{kw} is bound to {call_name(c)}'s signature before it is forwarded"
            def catches_type_error(node) -> bool:
                p, child = par[node], node
                while p is not f.node:
                    if isinstance(p, ast.Try) and child in p.body and any(h.type is None or any(t in norm(h.type) for t in ("TypeError", "Exception")) for h in p.handlers):
                        return True
                    child, p = p, par[p]
                return False
            ok = catches_type_error(c)
            if not ok:
                callee = call_name(c)
                binds = [nd for nd in g.nodes if nd.stmt is not None and any(call_name(b) == "bind" and any(k.arg is None and norm(k.value) == kw for k in b.keywords) and callee in norm(b.func) and catches_type_error(b) for b in nd.calls())]
                site = next((nd for nd in g.nodes if nd.stmt is not None and c in list(nd.calls())), None)
                ok = bool(binds) and site is not None and g.must_pass(g.entry, [site], binds, labels_excluded=("exc",))
            if ok:
                r12.ok(key, f.loc(c))
            else:
                r12.violation(key, f.loc(c), f"`{norm(c)[:80]}` receives whatever keys the request carried: an unexpected or missing key raises TypeError inside the handler, which serve() treats as a daemon crash (reply 'Daemon crashed!', status file removed, exit)")
    if n11 < 2:
        raise AnalysisError(f"only {n11} handlers that build an engine over self.fine_grained_manager found (expected cmd_suggest and cmd_inspect)")
    if n12 < 1:
        raise AnalysisError("no handler forwarding **kwargs found (expected cmd_suggest)")


def run_request_values_typed(chk: Check, ix) -> None:
    """R16.13: the values of a request are compared with the handler's annotations before the handler runs."""
    from ..cfg import CFG
    r13 = chk.rule("R16.13", "Server.run_command binds the request's keys to the handler's signature (names only). The values are client data too: a handler that receives `files=[1]` or `export_types='no'` raises on its own path, which serve() treats as a daemon crash. On every CFG path to `method(self, **data)` run_command passes a call of the value check (wrongly_typed_argument), and every annotation spelling used by a `cmd_*` parameter (split at ` | `, `Any` aside) is one the check understands (a string constant compared in json_value_matches): a spelling it does not know is accepted unchecked", floor=5)
    srv = ix.cls("mypy.dmypy_server.Server")
    rc = srv.methods.get("run_command")
    m = ix.module("mypy.dmypy_server")
    if rc is None:
        raise AnalysisError("Server.run_command not found")
    g = CFG(rc.node)
    calls = [nd for nd in g.nodes if nd.stmt is not None and any(isinstance(c.func, ast.Name) and c.func.id == "method" and any(k.arg is None for k in c.keywords) for c in nd.calls())]
    checks = [nd for nd in g.nodes if nd.stmt is not None and any(call_name(c) == "wrongly_typed_argument" for c in nd.calls())]
    if not calls:
        raise AnalysisError("run_command: the call `method(self, **data)` not found")
    key = "run_command: request values are checked against the handler's annotations before it is called"
    if checks and all(g.must_pass(g.entry, [c], checks, labels_excluded=("exc",)) for c in calls):
        r13.ok(key, rc.loc(calls[0].stmt))
    else:
        r13.violation(key, rc.loc(calls[0].stmt), "the handler is called with whatever JSON values the client sent: `{\"command\": \"check\", \"files\": [1], ...}` raises inside cmd_check (create_source_list), the reply is 'Daemon crashed!', the status file is removed and the daemon exits")
    jm = m.functions.get("json_value_matches")
    known = {c.value for c in ast.walk(jm.node) if isinstance(c, ast.Constant) and isinstance(c.value, str)} if jm is not None else set()
    atoms: dict[str, str] = {}
    for name, f in sorted(srv.methods.items()):
        if not name.startswith("cmd_"):
            continue
        a_ = f.node.args
        for p_ in a_.posonlyargs + a_.args + a_.kwonlyargs:
            if p_.arg == "self" or p_.annotation is None:
                continue
            for atom in norm(p_.annotation).split(" | "):
                if atom != "Any":
                    atoms.setdefault(atom, f"{name}({p_.arg})")
    if len(atoms) < 4:
        raise AnalysisError(f"cmd_* handlers: only {sorted(atoms)} annotation spellings found")
    for atom, where in sorted(atoms.items()):
        key = f"json_value_matches understands the annotation `{atom}`"
        if atom in known:
            r13.ok(key, jm.loc() if jm is not None else rc.loc())
        else:
            r13.violation(key, srv.methods[where.split("(")[0]].loc(), f"`{atom}` (first used by {where}) is not among the spellings the value check compares ({sorted(known)}): values for such parameters reach the handler unchecked")
