"""C04 — a killed run or failed cache write never makes later runs wrong (partial).

R04.1  atomic publication in the file store: data goes to a fresh temporary, the final name is
       only ever the destination of os.replace, every OSError ends in `return False`; nobody
       outside the store writes cache records.
R04.2  every MetadataStore.write result is checked; after a failed data write or failed getmtime
       no CacheMeta is built.
R04.3  record order: data (State.write_cache) before meta; the meta handed to write_cache_meta
       comes from write_cache's result and is skipped when that is None; dep_hashes filled before
       the meta write; a commit follows every group of writes before the function returns.
R04.4  the validity root is written last or its stale sibling is invalidated first: a meta record
       whose source hash may be new is written only after the old meta_ex was removed (or together
       with / after the new meta_ex); a meta refresh for an unchanged source is exempt.
"""

from __future__ import annotations

import ast

from ..cfg import CFG, call_name
from ..index import AnalysisError, get_index, norm
from ..report import Check
from ..resolve import Resolver, members
from .c12 import guard_chain

STORE = "mypy.metastore.MetadataStore"


def run(chk: Check) -> None:
    ix = get_index()
    R = Resolver(ix)

    # ---------------- R04.1
    r1 = chk.rule("R04.1", "file store publishes atomically: write to a fresh temporary, os.replace onto the final name, OSError => return False; no other writer of cache records", floor=3)
    base = ix.cls(STORE)
    stores = [c for c in base.all_subclasses() if "write" in c.methods]
    if len(stores) < 2:
        raise AnalysisError("fewer than two concrete MetadataStore classes")
    n_file_stores = 0
    for ci in stores:
        w = ci.methods["write"]
        opens = [n for n in ast.walk(w.node) if isinstance(n, ast.Call) and isinstance(n.func, ast.Name) and n.func.id == "open"]
        if not opens:
            r1.info(f"{ci.qualname}.write opens no file", w.loc(), "transactional store; durability point is commit() (library behaviour, not decided)")
            continue
        n_file_stores += 1
        g = CFG(w.node)
        local_defs = {}
        for n in ast.walk(w.node):
            if isinstance(n, ast.Assign) and len(n.targets) == 1 and isinstance(n.targets[0], ast.Name):
                local_defs.setdefault(n.targets[0].id, []).append(n.value)
        replaces = [n for n in ast.walk(w.node) if isinstance(n, ast.Call) and norm(n.func) in ("os.replace", "os.rename")]
        for o in opens:
            mode = o.args[1].value if len(o.args) > 1 and isinstance(o.args[1], ast.Constant) else "r"
            if not any(ch in mode for ch in "wax+"):
                continue
            target = o.args[0]
            key = f"{ci.qualname}.write: open({norm(target)}, {mode!r})"
            fresh = False
            if isinstance(target, ast.Name) and len(local_defs.get(target.id, [])) == 1:
                d = local_defs[target.id][0]
                fresh = isinstance(d, ast.BinOp) and any(isinstance(x, ast.Call) and call_name(x) in ("random_string", "uuid4", "mkstemp", "token_hex") for x in ast.walk(d))
            if not fresh:
                r1.violation(key, w.loc(o), "the file opened for writing is not a fresh temporary name: a kill mid-write leaves a truncated record under the final name")
                continue
            reps = [r for r in replaces if len(r.args) == 2 and norm(r.args[0]) == norm(target)]
            if not reps:
                r1.violation(key, w.loc(o), "the temporary is never os.replace()d onto the final name")
                continue
            dest = reps[0].args[1]
            dest_ok = isinstance(dest, ast.Name) and any("name" in {x.id for x in ast.walk(d) if isinstance(x, ast.Name)} for d in local_defs.get(dest.id, []))
            on = [n for n in g.nodes if any(c is o for c in n.calls())]
            rn = [n for n in g.nodes if any(c is reps[0] for c in n.calls())]
            succ_rets = [n for n in g.nodes if n.kind == "stmt" and isinstance(n.stmt, ast.Return) and isinstance(n.stmt.value, ast.Constant) and n.stmt.value.value is True]
            passes = bool(on and rn and succ_rets) and g.must_pass(on[0], succ_rets, rn, labels_excluded=("exc",))
            if dest_ok and passes:
                r1.ok(key, w.loc(o), f"fresh temporary, os.replace({norm(target)}, {norm(dest)}) on every path to `return True`")
            else:
                r1.violation(key, w.loc(o), "a success return is reachable without os.replace onto the entry's final path")
        # OSError containment
        tries = [n for n in ast.walk(w.node) if isinstance(n, ast.Try)]
        ok = False
        for t in tries:
            body_has_io = any(isinstance(x, ast.Call) and (norm(x.func).startswith("os.") or (isinstance(x.func, ast.Name) and x.func.id == "open")) for s in t.body for x in ast.walk(s))
            for h in t.handlers:
                if body_has_io and h.type is not None and norm(h.type) in ("OSError", "Exception") and any(isinstance(s, ast.Return) and isinstance(s.value, ast.Constant) and s.value.value is False for s in h.body):
                    ok = True
        io_outside = [x for x in ast.walk(w.node) if isinstance(x, ast.Call) and (norm(x.func) in ("os.replace", "os.makedirs", "os.utime") or (isinstance(x.func, ast.Name) and x.func.id == "open")) and not any(any(y is x for s in t.body for y in ast.walk(s)) for t in tries)]
        key = f"{ci.qualname}.write: every OSError => return False"
        if ok and not io_outside:
            r1.ok(key, w.loc())
        else:
            r1.violation(key, w.loc(), "file-system calls of the store write are not all inside `try ... except OSError: return False` (a failed write would abort the run instead of being skipped)")
    if n_file_stores < 1:
        raise AnalysisError("no file-backed store found")
    # who-may-write cache records outside the store
    cacheish = ("meta_file", "data_file", "meta_ex", "cache_dir", "_cache_dir_prefix", "deps_json", "ref_info_file")
    n_writers = 0
    for q, f in sorted(ix.functions.items()):
        if f.parent is not None or not (f.module.name.startswith("mypy.") and not f.module.name.startswith("mypy.dmypy")):
            continue
        if f.cls is not None and f.cls.is_subclass_of(STORE):
            continue
        for n in ast.walk(f.node):
            if not isinstance(n, ast.Call):
                continue
            fn = norm(n.func)
            is_write_open = isinstance(n.func, ast.Name) and n.func.id == "open" and len(n.args) > 1 and isinstance(n.args[1], ast.Constant) and any(ch in str(n.args[1].value) for ch in "wax+")
            is_mut = fn in ("os.replace", "os.rename", "os.remove", "os.unlink", "shutil.move", "shutil.copy")
            if not (is_write_open or is_mut):
                continue
            argtxt = " ".join(norm(a) for a in n.args)
            # a loop variable ranging over a literal list stands for the list's elements
            for a in n.args:
                if isinstance(a, ast.Name):
                    for lp in ast.walk(f.node):
                        if isinstance(lp, ast.For) and isinstance(lp.target, ast.Name) and lp.target.id == a.id and isinstance(lp.iter, (ast.List, ast.Tuple)):
                            argtxt += " " + norm(lp.iter)
            if not any(c in argtxt for c in cacheish):
                continue
            n_writers += 1
            key = f"{q}: {fn}({argtxt[:60]})"
            r1.violation(key, f.loc(n), "cache files are written/removed outside the MetadataStore classes (no atomic publication, no failure result)")
    chk.extra["non_store_cache_writers_seen"] = n_writers

    # ---------------- R04.2
    r2 = chk.rule("R04.2", "every MetadataStore.write result is checked; write_cache builds no CacheMeta after a failed data write or failed getmtime", floor=6)
    parents_cache = {}
    n_sites = 0
    for q, f in sorted(ix.functions.items()):
        if f.parent is not None:
            continue
        if f.cls is not None and f.cls.is_subclass_of(STORE):
            continue
        env = None
        for n in ast.walk(f.node):
            if isinstance(n, ast.Call) and isinstance(n.func, ast.Attribute) and n.func.attr == "write":
                if env is None:
                    env = R.env(f)
                t = R.type_of(n.func.value, f, env)
                if not any(x[0] == "cls" and x[1] in ix.classes and ix.classes[x[1]].is_subclass_of(STORE) for x in members(t)):
                    continue
                n_sites += 1
                par = parents_cache.setdefault(f.module.name, f.module.parents())
                p = par.get(n)
                key = f"{q}: {norm(n)[:70]}"
                if isinstance(p, ast.Expr):
                    r2.violation(key, f.loc(n), "result of MetadataStore.write is discarded: a failed write goes unnoticed")
                else:
                    r2.ok(key, f.loc(n), f"result used in {type(p).__name__}")
    if n_sites < 6:
        raise AnalysisError(f"only {n_sites} MetadataStore.write call sites resolved")
    wc = ix.func("mypy.build.write_cache")
    g = CFG(wc.node)
    ctor = [n for n in g.nodes if any(call_name(c) == "CacheMeta" for c in n.calls())]
    if not ctor:
        raise AnalysisError("write_cache constructs no CacheMeta")
    fail_entries = []
    for n in g.nodes:
        if n.kind == "test" and isinstance(n.exprs[0], ast.UnaryOp) and isinstance(n.exprs[0].op, ast.Not) and any(call_name(c) == "write" for c in n.calls()):
            fail_entries += [(m, "failed data write") for m, lab in n.succ if lab == "true"]
        if n.kind == "except" and n.stmt.type is not None and norm(n.stmt.type) == "OSError":
            fail_entries.append((n, "failed getmtime"))
        if n.kind == "test" and norm(n.exprs[0]) == "st is None":
            fail_entries += [(m, "source stat failed") for m, lab in n.succ if lab == "true"]
    if len(fail_entries) < 2:
        raise AnalysisError("failure branches of write_cache not identified")
    for ent, what in fail_entries:
        reach = g.reachable([ent], labels_excluded=("exc",))
        key = f"write_cache: no CacheMeta after {what}"
        if any(c in reach for c in ctor):
            r2.violation(key, wc.loc(ent.stmt), "a meta record can still be produced after this failure: it would describe data that was not written")
        else:
            r2.ok(key, wc.loc(ent.stmt))
    # data_mtime stored is read back from the store after the data write
    dm = [n for n in g.nodes if n.kind == "stmt" and isinstance(n.stmt, ast.Assign) and norm(n.stmt.targets[0]) == "data_mtime"]
    wr = [n for n in g.nodes if any(call_name(c) == "write" and "data_file" in norm(c) for c in n.calls())]
    if dm and wr and all(norm(d.stmt.value) == "manager.getmtime(data_file)" for d in dm) and not any(w in g.reachable([d], labels_excluded=("exc",)) for d in dm for w in wr):
        r2.ok("write_cache: data_mtime = manager.getmtime(data_file) read after the data write", wc.loc(dm[0].stmt))
    else:
        r2.violation("write_cache: data_mtime = manager.getmtime(data_file) read after the data write", wc.loc(), "the recorded data_mtime is not the mtime of the data file as left by this write")

    # ---------------- R04.3 / R04.4
    r3 = chk.rule("R04.3", "per module: data write before meta write, meta comes from write_cache's result and is skipped when None, dep_hashes assigned before the meta write, a commit follows every write group", floor=8)
    r4 = chk.rule("R04.4", "a meta record with a possibly new source hash becomes durable only after the previous meta_ex was invalidated (or the new meta_ex written); a refresh for an unchanged source is exempt", floor=3)
    meta_writers = {}
    for q, f in ix.functions.items():
        if f.parent is not None:
            continue
        for n in ast.walk(f.node):
            if isinstance(n, ast.Call) and call_name(n) == "write_cache_meta" and q != "mypy.build.write_cache_meta":
                meta_writers.setdefault(q, []).append(n)
    expected = {"mypy.build.process_stale_scc", "mypy.build.process_stale_scc_interface", "mypy.build.validate_meta"}
    for q in sorted(meta_writers):
        if q not in expected:
            for n in meta_writers[q]:
                r4.violation(f"{q}: unclassified call of write_cache_meta", ix.functions[q].loc(n), "a new writer of meta records whose ordering against meta_ex has not been analysed")
    for q in sorted(expected):
        if q not in meta_writers:
            raise AnalysisError(f"{q} no longer calls write_cache_meta (anchor moved)")

    for q in ("mypy.build.process_stale_scc", "mypy.build.process_stale_scc_interface"):
        f = ix.func(q)
        g = CFG(f.node)
        data_w = [n for n in g.nodes if any(isinstance(c.func, ast.Attribute) and c.func.attr == "write_cache" and not c.args for c in n.calls())]
        meta_w = [n for n in g.nodes if any(call_name(c) == "write_cache_meta" for c in n.calls())]
        metaex_w = [n for n in g.nodes if any(call_name(c) == "write_cache_meta_ex" for c in n.calls())]
        commits = [n for n in g.nodes if any(call_name(c) in ("commit_module", "commit") for c in n.calls())]
        if not data_w or not meta_w:
            raise AnalysisError(f"{q}: data/meta write sites not found")
        # data before meta: no data write reachable after a meta write
        later = g.reachable(meta_w, labels_excluded=("exc",))
        if any(d in later for d in data_w):
            r3.violation(f"{q}: data writes all precede the first meta write", f.loc(meta_w[0].stmt), "a module's data file can be written after some meta record of the same SCC: that meta's dep_hashes/interface hashes refer to data not yet on disk")
        else:
            r3.ok(f"{q}: data writes all precede the first meta write", f.loc(meta_w[0].stmt))
        # provenance of meta
        okp = provenance_ok(f)
        if okp is True:
            r3.ok(f"{q}: meta/meta_file come from write_cache() and None is skipped", f.loc(meta_w[0].stmt))
        else:
            r3.violation(f"{q}: meta/meta_file come from write_cache() and None is skipped", f.loc(meta_w[0].stmt), okp)
        # dep_hashes before meta write
        dh = [n for n in g.nodes if n.kind == "stmt" and isinstance(n.stmt, ast.Assign) and any(norm(t) == "meta.dep_hashes" for t in n.stmt.targets)]
        for m in meta_w:
            if dh and g.must_pass(g.entry, [m], dh, labels_excluded=("exc",)):
                r3.ok(f"{q}: meta.dep_hashes assigned before write_cache_meta", f.loc(m.stmt))
            else:
                r3.violation(f"{q}: meta.dep_hashes assigned before write_cache_meta", f.loc(m.stmt), "the meta record can be written with the placeholder dep_hashes=[]: the next run compares against an empty list")
        # commit after writes
        # `if meta_tuple is not None: commit_module(...)`: when write_cache() returned None no record
        # of this module is pending, so the false edge of that test needs no commit
        skip_tests = []
        for n in g.nodes:
            if n.kind == "test" and isinstance(n.exprs[0], ast.Compare) and isinstance(n.exprs[0].ops[0], ast.IsNot) and isinstance(n.exprs[0].comparators[0], ast.Constant) and n.exprs[0].comparators[0].value is None:
                tsucc = [m for m, lab in n.succ if lab == "true"]
                if tsucc and all(g.must_pass(x, [g.exit], commits, labels_excluded=("exc",)) for x in tsucc):
                    skip_tests.append(n)
        for wn in data_w + meta_w + metaex_w:
            nxt = [m for m, lab in wn.succ if lab != "exc"]
            via = commits + (skip_tests if wn in data_w else [])
            if g.must_pass(wn, [g.exit], via, labels_excluded=("exc",)) or all(g.must_pass(x, [g.exit], via, labels_excluded=("exc",)) for x in nxt):
                r3.ok(f"{q}: commit follows {norm(wn.exprs[0])[:50]}", f.loc(wn.stmt))
            else:
                # data write: commit is conditional on meta_tuple is not None (nothing was written otherwise)
                r3.violation(f"{q}: commit follows {norm(wn.exprs[0])[:50]}", f.loc(wn.stmt), "a normal return is reachable after this store write without commit_module/commit (sqlite: the write is lost or half of a pair is committed later)")
        # R04.4
        inval = [n for n in g.nodes if any(call_name(c) == "invalidate_cache_meta_ex" for c in n.calls())]
        for m in meta_w:
            ok = False
            why = ""
            for iv in inval:
                if iv.kind == "test":
                    # the meta write must lie on the branch where invalidation succeeded
                    t = iv.exprs[0]
                    neg = isinstance(t, ast.UnaryOp) and isinstance(t.op, ast.Not)
                    fail_label = "true" if neg else "false"
                    fail_succ = [x for x, lab in iv.succ if lab == fail_label]
                    head = loop_head_of(g, m)
                    after_fail = g.reachable(fail_succ, avoiding=[head] if head else [], labels_excluded=("exc",))
                    if m not in after_fail and g.must_pass(head or g.entry, [m], [iv], labels_excluded=("exc",)):
                        ok = True
                        why = "meta write only on the branch where invalidate_cache_meta_ex() succeeded"
            if not ok and metaex_w:
                head = loop_head_of(g, m)
                if head is not None and g.must_pass(head, [m], metaex_w, labels_excluded=("exc",)):
                    ok = True
                    why = "new meta_ex is written before the meta in the same iteration"
            key = f"{q}: old meta_ex invalidated before the new meta becomes durable"
            if ok:
                r4.ok(key, f.loc(m.stmt), why)
            else:
                r4.violation(key, f.loc(m.stmt), "the new meta record is written while the previous meta_ex may still exist and the matching meta_ex is written later: a kill or failed write in between leaves new meta + old meta_ex, which the next run trusts (stale errors / indirect deps replayed)")
    inv = ix.functions.get("mypy.build.invalidate_cache_meta_ex")
    if inv is not None:
        src = norm(inv.node)
        rets_false = [n for n in ast.walk(inv.node) if isinstance(n, ast.Return) and isinstance(n.value, ast.Constant) and n.value.value is False]
        if "metastore.remove(get_meta_ex_name(meta_file))" in src and rets_false:
            r4.ok("invalidate_cache_meta_ex removes get_meta_ex_name(meta_file) through the store and reports failure", inv.loc())
        else:
            r4.violation("invalidate_cache_meta_ex removes get_meta_ex_name(meta_file) through the store and reports failure", inv.loc(), "helper no longer removes the meta_ex record of this meta file or hides failures")
    # find_cache_meta treats a missing meta_ex as a miss (what makes invalidation safe)
    fcm = ix.func("mypy.build.find_cache_meta")
    gm = CFG(fcm.node)
    tests = [n for n in gm.nodes if n.kind == "test" and norm(n.exprs[0]) == "meta_ex is None"]
    accepts = [n for n in gm.nodes if n.kind == "stmt" and isinstance(n.stmt, ast.Return) and isinstance(n.stmt.value, ast.Tuple) and norm(n.stmt.value) == "(m, me)"]
    good = bool(tests and accepts)
    for t in tests:
        tsucc = [m for m, lab in t.succ if lab == "true"]
        if any(a in gm.reachable(tsucc, labels_excluded=("exc",)) for a in accepts):
            good = False
    if good and all(gm.must_pass(gm.entry, [a], tests, labels_excluded=("exc",)) for a in accepts):
        r4.ok("find_cache_meta: a meta without meta_ex is a cache miss", fcm.loc(tests[0].stmt))
    else:
        r4.violation("find_cache_meta: a meta without meta_ex is a cache miss", fcm.loc(), "the validated pair can be returned although the meta_ex record is missing")
    # validate_meta refresh exemption
    vm = ix.func("mypy.build.validate_meta")
    gv = CFG(vm.node)
    mw = [n for n in gv.nodes if any(call_name(c) == "write_cache_meta" for c in n.calls())]
    htests = [n for n in gv.nodes if n.kind == "test" and isinstance(n.exprs[0], ast.Compare) and isinstance(n.exprs[0].ops[0], ast.NotEq) and {norm(n.exprs[0].left), norm(n.exprs[0].comparators[0])} == {"source_hash", "meta.hash"}]
    for m in mw:
        ok = False
        for t in htests:
            tsucc = [x for x, lab in t.succ if lab == "true"]
            if m not in gv.reachable(tsucc, labels_excluded=("exc",)) and gv.must_pass(gv.entry, [m], [t], labels_excluded=("exc",)):
                ok = True
        reassigned = [n for n in gv.nodes if n.kind == "stmt" and isinstance(n.stmt, ast.Assign) and any(norm(t) in ("meta.hash", "meta.interface_hash", "meta.dependencies", "meta.dep_hashes") for t in n.stmt.targets)]
        key = "mypy.build.validate_meta: meta refresh only for an unchanged source (hash equal), content fields untouched"
        if ok and not reassigned:
            r4.ok(key, vm.loc(m.stmt), "exempt from invalidation: the existing meta_ex still describes this source")
        else:
            r4.violation(key, vm.loc(m.stmt), "validate_meta rewrites a meta record on a path where the source hash may differ (or changes content fields) without invalidating meta_ex")


def loop_head_of(g: CFG, node):
    """Innermost for-head whose body contains node (by AST containment)."""
    best = None
    for n in g.nodes:
        if n.kind == "for-head" and any(x is node.stmt for s in n.stmt.body for x in ast.walk(s)):
            if best is None or any(x is n.stmt for s in best.stmt.body for x in ast.walk(s)):
                best = n
    return best


def provenance_ok(f):
    """`write_cache_meta(meta, manager, meta_file)`: (meta, meta_file) unpacked from a value that is
    the result of `<state>.write_cache()`, with `is None` skipped."""
    src_names = set()
    for n in ast.walk(f.node):
        if isinstance(n, ast.Assign) and isinstance(n.value, ast.Call) and isinstance(n.value.func, ast.Attribute) and n.value.func.attr == "write_cache" and not n.value.args:
            for t in n.targets:
                if isinstance(t, ast.Name):
                    src_names.add(t.id)
    if not src_names:
        return "no variable receives the result of write_cache()"
    containers = set()
    for n in ast.walk(f.node):
        if isinstance(n, ast.Assign) and isinstance(n.value, ast.Name) and n.value.id in src_names:
            for t in n.targets:
                if isinstance(t, ast.Subscript) and isinstance(t.value, ast.Name):
                    containers.add(t.value.id)
    derived = set(src_names)
    for n in ast.walk(f.node):
        if isinstance(n, ast.Assign) and isinstance(n.value, ast.Subscript) and isinstance(n.value.value, ast.Name) and n.value.value.id in containers:
            for t in n.targets:
                if isinstance(t, ast.Name):
                    derived.add(t.id)
    unpack = None
    for n in ast.walk(f.node):
        if isinstance(n, ast.Assign) and isinstance(n.value, ast.Name) and n.value.id in derived and isinstance(n.targets[0], ast.Tuple):
            unpack = [norm(e) for e in n.targets[0].elts]
    if unpack is None:
        return "the pair passed to write_cache_meta is not unpacked from write_cache()'s result"
    for n in ast.walk(f.node):
        if isinstance(n, ast.Call) and call_name(n) == "write_cache_meta":
            if [norm(n.args[0]), norm(n.args[2])] != unpack:
                return f"write_cache_meta receives ({norm(n.args[0])}, {norm(n.args[2])}), not the pair {unpack} returned by write_cache()"
            conj, _ = guard_chain(f, n)
    # None skipped: an `if <derived> is None: continue` in the loop body before the call
    skips = [n for n in ast.walk(f.node) if isinstance(n, ast.If) and isinstance(n.test, ast.Compare) and isinstance(n.test.ops[0], ast.Is) and isinstance(n.test.left, ast.Name) and n.test.left.id in derived and any(isinstance(s, ast.Continue) for s in n.body)]
    if not skips:
        return "no `if meta_tuple is None: continue` guard: a module whose data write failed would still get a meta record"
    return True
