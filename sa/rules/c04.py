"""C04 — a killed run or failed cache write never makes later runs wrong (partial).

R04.1  atomic publication in the file store: data goes to a fresh temporary, the final name is
       only ever the destination of os.replace, every OSError ends in `return False`; nobody
       outside the store writes cache records.
R04.2  every MetadataStore.write result is checked; after a failed data write or failed getmtime
       no CacheMeta is built.
R04.3  record order: data (State.write_cache) before meta; the meta handed to write_cache_meta
       comes from write_cache's result and is skipped when that is None; dep_hashes filled before
       the meta write; a commit follows every group of writes before the function returns.
R04.5  one transaction per module in the sharded store: the three record names of a module are
       `<prefix>.<suffix>` for one prefix whose basename is dot-free; the shard key reads only the
       path up to the first dot of the basename (so the records share a shard and
       commit_path(meta) commits all of them); every store method picks its connection through
       that key.
R04.4  the validity root is written last or its stale sibling is invalidated first: a meta record
       whose source hash may be new is written only after the old meta_ex was removed (or together
       with / after the new meta_ex); a meta refresh for an unchanged source is exempt.
"""

from __future__ import annotations

import ast

from ..cfg import CFG, call_name
from ..index import AnalysisError, get_index, norm
from ..report import Check
from ..resolve import Resolver, members
from .c12 import guard_chain

STORE = "mypy.metastore.MetadataStore"


def run(chk: Check) -> None:
    ix = get_index()
    R = Resolver(ix)
    run_shard(chk, ix)
    run_meta_ex_after_meta(chk, ix)
    run_sqlite_write(chk, ix)
    run_late_blockers_surface(chk, ix)
    run_snapshot_last(chk, ix)
    run_sqlite_failures_are_handled_ones(chk, ix)
    run_data_record_tied_to_meta(chk, ix)
    run_link_time_stamp_resolution(chk, ix)

    # ---------------- R04.1
    r1 = chk.rule("R04.1", "file store publishes atomically: write to a fresh temporary, os.replace onto the final name, OSError => return False; no other writer of cache records", floor=3)
    base = ix.cls(STORE)
    stores = [c for c in base.all_subclasses() if "write" in c.methods]
    if len(stores) < 2:
        raise AnalysisError("fewer than two concrete MetadataStore classes")
    n_file_stores = 0
    for ci in stores:
        w = ci.methods["write"]
        opens = [n for n in ast.walk(w.node) if isinstance(n, ast.Call) and isinstance(n.func, ast.Name) and n.func.id == "open"]
        if not opens:
            r1.info(f"{ci.qualname}.write opens no file", w.loc(), "transactional store; durability point is commit() (library behaviour, not decided)")
            continue
        n_file_stores += 1
        g = CFG(w.node)
        local_defs = {}
        for n in ast.walk(w.node):
            if isinstance(n, ast.Assign) and len(n.targets) == 1 and isinstance(n.targets[0], ast.Name):
                local_defs.setdefault(n.targets[0].id, []).append(n.value)
        replaces = [n for n in ast.walk(w.node) if isinstance(n, ast.Call) and norm(n.func) in ("os.replace", "os.rename")]
        for o in opens:
            mode = o.args[1].value if len(o.args) > 1 and isinstance(o.args[1], ast.Constant) else "r"
            if not any(ch in mode for ch in "wax+"):
                continue
            target = o.args[0]
            key = f"{ci.qualname}.write: open({norm(target)}, {mode!r})"
            fresh = False
            if isinstance(target, ast.Name) and len(local_defs.get(target.id, [])) == 1:
                d = local_defs[target.id][0]
                fresh = isinstance(d, ast.BinOp) and any(isinstance(x, ast.Call) and call_name(x) in ("random_string", "uuid4", "mkstemp", "token_hex") for x in ast.walk(d))
            if not fresh:
                r1.violation(key, w.loc(o), "the file opened for writing is not a fresh temporary name: a kill mid-write leaves a truncated record under the final name")
                continue
            reps = [r for r in replaces if len(r.args) == 2 and norm(r.args[0]) == norm(target)]
            if not reps:
                r1.violation(key, w.loc(o), "the temporary is never os.replace()d onto the final name")
                continue
            dest = reps[0].args[1]
            dest_ok = isinstance(dest, ast.Name) and any("name" in {x.id for x in ast.walk(d) if isinstance(x, ast.Name)} for d in local_defs.get(dest.id, []))
            on = [n for n in g.nodes if any(c is o for c in n.calls())]
            rn = [n for n in g.nodes if any(c is reps[0] for c in n.calls())]
            succ_rets = [n for n in g.nodes if n.kind == "stmt" and isinstance(n.stmt, ast.Return) and isinstance(n.stmt.value, ast.Constant) and n.stmt.value.value is True]
            passes = bool(on and rn and succ_rets) and g.must_pass(on[0], succ_rets, rn, labels_excluded=("exc",))
            if dest_ok and passes:
                r1.ok(key, w.loc(o), f"fresh temporary, os.replace({norm(target)}, {norm(dest)}) on every path to `return True`")
            else:
                r1.violation(key, w.loc(o), "a success return is reachable without os.replace onto the entry's final path")
        # OSError containment
        tries = [n for n in ast.walk(w.node) if isinstance(n, ast.Try)]
        ok = False
        for t in tries:
            body_has_io = any(isinstance(x, ast.Call) and (norm(x.func).startswith("os.") or (isinstance(x.func, ast.Name) and x.func.id == "open")) for s in t.body for x in ast.walk(s))
            for h in t.handlers:
                if body_has_io and h.type is not None and norm(h.type) in ("OSError", "Exception") and any(isinstance(s, ast.Return) and isinstance(s.value, ast.Constant) and s.value.value is False for s in h.body):
                    ok = True
        io_outside = [x for x in ast.walk(w.node) if isinstance(x, ast.Call) and (norm(x.func) in ("os.replace", "os.makedirs", "os.utime") or (isinstance(x.func, ast.Name) and x.func.id == "open")) and not any(any(y is x for s in t.body for y in ast.walk(s)) for t in tries)]
        key = f"{ci.qualname}.write: every OSError => return False"
        if ok and not io_outside:
            r1.ok(key, w.loc())
        else:
            r1.violation(key, w.loc(), "file-system calls of the store write are not all inside `try ... except OSError: return False` (a failed write would abort the run instead of being skipped)")
    if n_file_stores < 1:
        raise AnalysisError("no file-backed store found")
    # who-may-write cache records outside the store
    cacheish = ("meta_file", "data_file", "meta_ex", "cache_dir", "_cache_dir_prefix", "deps_json", "ref_info_file")
    n_writers = 0
    for q, f in sorted(ix.functions.items()):
        if f.parent is not None or not (f.module.name.startswith("mypy.") and not f.module.name.startswith("mypy.dmypy")):
            continue
        if f.cls is not None and f.cls.is_subclass_of(STORE):
            continue
        for n in ast.walk(f.node):
            if not isinstance(n, ast.Call):
                continue
            fn = norm(n.func)
            is_write_open = isinstance(n.func, ast.Name) and n.func.id == "open" and len(n.args) > 1 and isinstance(n.args[1], ast.Constant) and any(ch in str(n.args[1].value) for ch in "wax+")
            is_mut = fn in ("os.replace", "os.rename", "os.remove", "os.unlink", "shutil.move", "shutil.copy")
            if not (is_write_open or is_mut):
                continue
            argtxt = " ".join(norm(a) for a in n.args)
            # a loop variable ranging over a literal list stands for the list's elements
            for a in n.args:
                if isinstance(a, ast.Name):
                    for lp in ast.walk(f.node):
                        if isinstance(lp, ast.For) and isinstance(lp.target, ast.Name) and lp.target.id == a.id and isinstance(lp.iter, (ast.List, ast.Tuple)):
                            argtxt += " " + norm(lp.iter)
            if not any(c in argtxt for c in cacheish):
                continue
            n_writers += 1
            key = f"{q}: {fn}({argtxt[:60]})"
            r1.violation(key, f.loc(n), "cache files are written/removed outside the MetadataStore classes (no atomic publication, no failure result)")
    chk.extra["non_store_cache_writers_seen"] = n_writers

    # ---------------- R04.2
    r2 = chk.rule("R04.2", "every MetadataStore.write result is checked; write_cache builds no CacheMeta after a failed data write or failed getmtime", floor=6)
    parents_cache = {}
    n_sites = 0
    for q, f in sorted(ix.functions.items()):
        if f.parent is not None:
            continue
        if f.cls is not None and f.cls.is_subclass_of(STORE):
            continue
        env = None
        for n in ast.walk(f.node):
            if isinstance(n, ast.Call) and isinstance(n.func, ast.Attribute) and n.func.attr == "write":
                if env is None:
                    env = R.env(f)
                t = R.type_of(n.func.value, f, env)
                if not any(x[0] == "cls" and x[1] in ix.classes and ix.classes[x[1]].is_subclass_of(STORE) for x in members(t)):
                    continue
                n_sites += 1
                par = parents_cache.setdefault(f.module.name, f.module.parents())
                p = par.get(n)
                key = f"{q}: {norm(n)[:70]}"
                if isinstance(p, ast.Expr):
                    r2.violation(key, f.loc(n), "result of MetadataStore.write is discarded: a failed write goes unnoticed")
                else:
                    r2.ok(key, f.loc(n), f"result used in {type(p).__name__}")
    if n_sites < 6:
        raise AnalysisError(f"only {n_sites} MetadataStore.write call sites resolved")
    wc = ix.func("mypy.build.write_cache")
    g = CFG(wc.node)
    ctor = [n for n in g.nodes if any(call_name(c) == "CacheMeta" for c in n.calls())]
    if not ctor:
        raise AnalysisError("write_cache constructs no CacheMeta")
    fail_entries = []
    for n in g.nodes:
        if n.kind == "test":
            t0 = n.exprs[0]
            conj = t0.values if isinstance(t0, ast.BoolOp) and isinstance(t0.op, ast.And) else [t0]
            # `not store.write(..)` alone or as a conjunct: the true branch is taken only after a failed write
            if any(isinstance(v, ast.UnaryOp) and isinstance(v.op, ast.Not) and isinstance(v.operand, ast.Call) and call_name(v.operand) == "write" for v in conj):
                fail_entries += [(m, "failed data write") for m, lab in n.succ if lab == "true"]
        if n.kind == "except" and n.stmt.type is not None and norm(n.stmt.type) == "OSError":
            fail_entries.append((n, "failed getmtime"))
        if n.kind == "test" and norm(n.exprs[0]) == "st is None":
            fail_entries += [(m, "source stat failed") for m, lab in n.succ if lab == "true"]
    if len(fail_entries) < 2:
        raise AnalysisError("failure branches of write_cache not identified")
    for ent, what in fail_entries:
        reach = g.reachable([ent], labels_excluded=("exc",))
        key = f"write_cache: no CacheMeta after {what}"
        if any(c in reach for c in ctor):
            r2.violation(key, wc.loc(ent.stmt), "a meta record can still be produced after this failure: it would describe data that was not written")
        else:
            r2.ok(key, wc.loc(ent.stmt))
    # data_mtime stored is read back from the store after the data write
    dm = [n for n in g.nodes if n.kind == "stmt" and isinstance(n.stmt, ast.Assign) and norm(n.stmt.targets[0]) == "data_mtime"]
    wr = [n for n in g.nodes if any(call_name(c) == "write" and "data_file" in norm(c) for c in n.calls())]
    if dm and wr and all(norm(d.stmt.value) == "manager.getmtime(data_file)" for d in dm) and not any(w in g.reachable([d], labels_excluded=("exc",)) for d in dm for w in wr):
        r2.ok("write_cache: data_mtime = manager.getmtime(data_file) read after the data write", wc.loc(dm[0].stmt))
    else:
        r2.violation("write_cache: data_mtime = manager.getmtime(data_file) read after the data write", wc.loc(), "the recorded data_mtime is not the mtime of the data file as left by this write")

    # ---------------- R04.6
    r6 = chk.rule("R04.6", "write_cache skips the data write only after examining the stored data record itself: the old interface hash comes from a meta record that validate_meta may have abandoned (a run killed between the data and meta writes), so hash equality alone proves nothing about the stored data", floor=2)

    def examines(c: ast.Call) -> bool:
        if not any("data_file" == norm(a) for a in c.args):
            return False
        if call_name(c) == "read":
            return True
        callee = ix.functions.get("mypy.build." + (call_name(c) or ""))
        if callee is None:
            return False
        pnames = [a.arg for a in callee.params]
        idx = [i for i, a in enumerate(c.args) if norm(a) == "data_file"]
        pn = pnames[idx[0]] if idx and idx[0] < len(pnames) else None
        return any(isinstance(x, ast.Call) and call_name(x) == "read" and any(norm(a) == pn for a in x.args) for x in ast.walk(callee.node))

    ex_nodes = [n for n in g.nodes if any(examines(c) for c in n.calls())]
    key = "write_cache: every path to the CacheMeta passes the data write or a read of the stored data record"
    guard_vars = set()
    for w_ in wr:
        cur = w_.stmt
        pr_ = wc.module.parents()
        while cur is not None and cur is not wc.node:
            p_ = pr_.get(cur)
            if isinstance(p_, ast.If) and isinstance(p_.test, ast.Name) and any(cur is x for x in p_.body):
                guard_vars.add(p_.test.id)
            cur = p_
    passes = bool(wr) and any(not any(c in g.reachable_flag(g.entry, wr + ex_nodes, gv, labels_excluded=("exc",)) for c in ctor) for gv in (sorted(guard_vars) or ["-"]))
    if passes:
        r6.ok(key, wc.loc(ctor[0].stmt), f"{len(ex_nodes)} examining site(s)")
    else:
        w = g.witness(g.entry, ctor, wr + ex_nodes, labels_excluded=("exc",)) if hasattr(g, "witness") else None
        r6.violation(key, wc.loc(ctor[0].stmt), "a meta record is produced for a data record that was neither written nor looked at: after a run killed between the data write and the meta write (then the edit reverted) the recomputed hash equals the abandoned meta's hash, the write is skipped, and the new meta validates the other version's data file", witness=g.fmt_path(w or [], wc.module.relpath))
    # the decision to write is taken from that examination
    par4 = wc.module.parents()
    decided = False
    for w_ in wr:
        p_ = par4.get(w_.stmt) if w_.stmt is not None else None
        tests = []
        cur = w_.stmt
        while cur is not None and cur is not wc.node:
            p_ = par4.get(cur)
            if isinstance(p_, ast.If) and any(cur is x for x in p_.body):
                tests.append(p_.test)
            cur = p_
        names = {x.id for t_ in tests for x in ast.walk(t_) if isinstance(x, ast.Name)}
        for nm in names:
            asg = [a for a in ast.walk(wc.node) if isinstance(a, ast.Assign) and norm(a.targets[0]) == nm]
            if asg and all((isinstance(a.value, ast.Constant) and a.value.value is True) or any(isinstance(c, ast.Call) and examines(c) for c in ast.walk(a.value)) for a in asg) and any(not isinstance(a.value, ast.Constant) for a in asg):
                neg = [a for a in asg if not isinstance(a.value, ast.Constant)]
                if all(isinstance(a.value, ast.UnaryOp) and isinstance(a.value.op, ast.Not) for a in neg):
                    decided = True
    key = "write_cache: the write is skipped only when the examination says the stored bytes equal the new bytes"
    if decided:
        r6.ok(key, wc.loc(wr[0].stmt))
    else:
        r6.violation(key, wc.loc(wr[0].stmt) if wr else wc.loc(), "the condition guarding the data write is not derived from a comparison with the stored data record")

    # ---------------- R04.3 / R04.4
    r3 = chk.rule("R04.3", "per module: data write before meta write, meta comes from write_cache's result and is skipped when None, dep_hashes assigned before the meta write, a commit follows every write group", floor=8)
    r4 = chk.rule("R04.4", "a meta record with a possibly new source hash becomes durable only after the previous meta_ex was invalidated (or the new meta_ex written); a refresh for an unchanged source is exempt", floor=3)
    meta_writers = {}
    for q, f in ix.functions.items():
        if f.parent is not None:
            continue
        for n in ast.walk(f.node):
            if isinstance(n, ast.Call) and call_name(n) == "write_cache_meta" and q != "mypy.build.write_cache_meta":
                meta_writers.setdefault(q, []).append(n)
    expected = {"mypy.build.process_stale_scc", "mypy.build.process_stale_scc_interface", "mypy.build.validate_meta"}
    for q in sorted(meta_writers):
        if q not in expected:
            for n in meta_writers[q]:
                r4.violation(f"{q}: unclassified call of write_cache_meta", ix.functions[q].loc(n), "a new writer of meta records whose ordering against meta_ex has not been analysed")
    for q in sorted(expected):
        if q not in meta_writers:
            raise AnalysisError(f"{q} no longer calls write_cache_meta (anchor moved)")

    for q in ("mypy.build.process_stale_scc", "mypy.build.process_stale_scc_interface"):
        f = ix.func(q)
        g = CFG(f.node)
        data_w = [n for n in g.nodes if any(isinstance(c.func, ast.Attribute) and c.func.attr == "write_cache" and not c.args for c in n.calls())]
        meta_w = [n for n in g.nodes if any(call_name(c) == "write_cache_meta" for c in n.calls())]
        metaex_w = [n for n in g.nodes if any(call_name(c) == "write_cache_meta_ex" for c in n.calls())]
        commits = [n for n in g.nodes if any(call_name(c) in ("commit_module", "commit") for c in n.calls())]
        if not data_w or not meta_w:
            raise AnalysisError(f"{q}: data/meta write sites not found")
        # data before meta: no data write reachable after a meta write
        later = g.reachable(meta_w, labels_excluded=("exc",))
        if any(d in later for d in data_w):
            r3.violation(f"{q}: data writes all precede the first meta write", f.loc(meta_w[0].stmt), "a module's data file can be written after some meta record of the same SCC: that meta's dep_hashes/interface hashes refer to data not yet on disk")
        else:
            r3.ok(f"{q}: data writes all precede the first meta write", f.loc(meta_w[0].stmt))
        # provenance of meta
        okp = provenance_ok(f)
        if okp is True:
            r3.ok(f"{q}: meta/meta_file come from write_cache() and None is skipped", f.loc(meta_w[0].stmt))
        else:
            r3.violation(f"{q}: meta/meta_file come from write_cache() and None is skipped", f.loc(meta_w[0].stmt), okp)
        # dep_hashes before meta write
        dh = [n for n in g.nodes if n.kind == "stmt" and isinstance(n.stmt, ast.Assign) and any(norm(t) == "meta.dep_hashes" for t in n.stmt.targets)]
        for m in meta_w:
            if dh and g.must_pass(g.entry, [m], dh, labels_excluded=("exc",)):
                r3.ok(f"{q}: meta.dep_hashes assigned before write_cache_meta", f.loc(m.stmt))
            else:
                r3.violation(f"{q}: meta.dep_hashes assigned before write_cache_meta", f.loc(m.stmt), "the meta record can be written with the placeholder dep_hashes=[]: the next run compares against an empty list")
        # commit after writes
        # `if meta_tuple is not None: commit_module(...)`: when write_cache() returned None no record
        # of this module is pending, so the false edge of that test needs no commit
        skip_tests = []
        for n in g.nodes:
            if n.kind == "test" and isinstance(n.exprs[0], ast.Compare) and isinstance(n.exprs[0].ops[0], ast.IsNot) and isinstance(n.exprs[0].comparators[0], ast.Constant) and n.exprs[0].comparators[0].value is None:
                tsucc = [m for m, lab in n.succ if lab == "true"]
                if tsucc and all(g.must_pass(x, [g.exit], commits, labels_excluded=("exc",)) for x in tsucc):
                    skip_tests.append(n)
        for wn in data_w + meta_w + metaex_w:
            nxt = [m for m, lab in wn.succ if lab != "exc"]
            if wn.kind == "test" and wn.exprs:
                # a test of the write's own result: only the success outcome has something to commit
                e0 = wn.exprs[0]
                neg0 = isinstance(e0, ast.UnaryOp) and isinstance(e0.op, ast.Not) and isinstance(e0.operand, ast.Call)
                pos0 = isinstance(e0, ast.Call)
                if neg0 or pos0:
                    nxt = [m for m, lab in wn.succ if lab == ("false" if neg0 else "true")]
            via = commits + (skip_tests if wn in data_w else [])
            if (wn.kind != "test" and g.must_pass(wn, [g.exit], via, labels_excluded=("exc",))) or all(g.must_pass(x, [g.exit], via, labels_excluded=("exc",)) for x in nxt):
                r3.ok(f"{q}: commit follows {norm(wn.exprs[0])[:50]}", f.loc(wn.stmt))
            else:
                # data write: commit is conditional on meta_tuple is not None (nothing was written otherwise)
                r3.violation(f"{q}: commit follows {norm(wn.exprs[0])[:50]}", f.loc(wn.stmt), "a normal return is reachable after this store write without commit_module/commit (sqlite: the write is lost or half of a pair is committed later)")
        # R04.4
        inval = [n for n in g.nodes if any(call_name(c) == "invalidate_cache_meta_ex" for c in n.calls())]
        for m in meta_w:
            ok = False
            why = ""
            for iv in inval:
                if iv is m:
                    # `invalidate(...) and write_cache_meta(...)` in one expression: short-circuit order
                    for e in ast.walk(iv.stmt):
                        if isinstance(e, ast.BoolOp) and isinstance(e.op, ast.And):
                            pos_i = [i for i, v in enumerate(e.values) if any(isinstance(c, ast.Call) and call_name(c) == "invalidate_cache_meta_ex" for c in ast.walk(v)) and not (isinstance(v, ast.UnaryOp) and isinstance(v.op, ast.Not))]
                            pos_w = [i for i, v in enumerate(e.values) if any(isinstance(c, ast.Call) and call_name(c) == "write_cache_meta" for c in ast.walk(v))]
                            if pos_i and pos_w and max(pos_i) < min(pos_w):
                                ok = True
                                why = "write_cache_meta is the right operand of `invalidate_cache_meta_ex(...) and ...`"
                    continue
                if iv.kind == "test":
                    # the meta write must lie on the branch where invalidation succeeded
                    t = iv.exprs[0]
                    neg = isinstance(t, ast.UnaryOp) and isinstance(t.op, ast.Not)
                    fail_label = "true" if neg else "false"
                    fail_succ = [x for x, lab in iv.succ if lab == fail_label]
                    head = loop_head_of(g, m)
                    after_fail = g.reachable(fail_succ, avoiding=[head] if head else [], labels_excluded=("exc",))
                    if m not in after_fail and g.must_pass(head or g.entry, [m], [iv], labels_excluded=("exc",)):
                        ok = True
                        why = "meta write only on the branch where invalidate_cache_meta_ex() succeeded"
            if not ok and metaex_w:
                head = loop_head_of(g, m)
                if head is not None and g.must_pass(head, [m], metaex_w, labels_excluded=("exc",)):
                    ok = True
                    why = "new meta_ex is written before the meta in the same iteration"
            key = f"{q}: old meta_ex invalidated before the new meta becomes durable"
            if ok:
                r4.ok(key, f.loc(m.stmt), why)
            else:
                r4.violation(key, f.loc(m.stmt), "the new meta record is written while the previous meta_ex may still exist and the matching meta_ex is written later: a kill or failed write in between leaves new meta + old meta_ex, which the next run trusts (stale errors / indirect deps replayed)")
    inv = ix.functions.get("mypy.build.invalidate_cache_meta_ex")
    if inv is not None:
        src = norm(inv.node)
        rets_false = [n for n in ast.walk(inv.node) if isinstance(n, ast.Return) and isinstance(n.value, ast.Constant) and n.value.value is False]
        from ..pattern import has
        if (has(inv.node, "$_.remove(get_meta_ex_name(meta_file))") or has(inv.node, "$x = get_meta_ex_name(meta_file)", "$_.remove($x)")) and rets_false:
            r4.ok("invalidate_cache_meta_ex removes get_meta_ex_name(meta_file) through the store and reports failure", inv.loc())
        else:
            r4.violation("invalidate_cache_meta_ex removes get_meta_ex_name(meta_file) through the store and reports failure", inv.loc(), "helper no longer removes the meta_ex record of this meta file or hides failures")
    # find_cache_meta treats a missing meta_ex as a miss (what makes invalidation safe)
    fcm = ix.func("mypy.build.find_cache_meta")
    gm = CFG(fcm.node)
    tests = [n for n in gm.nodes if n.kind == "test" and norm(n.exprs[0]) == "meta_ex is None"]
    accepts = [n for n in gm.nodes if n.kind == "stmt" and isinstance(n.stmt, ast.Return) and isinstance(n.stmt.value, ast.Tuple) and norm(n.stmt.value) == "(m, me)"]
    good = bool(tests and accepts)
    for t in tests:
        tsucc = [m for m, lab in t.succ if lab == "true"]
        if any(a in gm.reachable(tsucc, labels_excluded=("exc",)) for a in accepts):
            good = False
    if good and all(gm.must_pass(gm.entry, [a], tests, labels_excluded=("exc",)) for a in accepts):
        r4.ok("find_cache_meta: a meta without meta_ex is a cache miss", fcm.loc(tests[0].stmt))
    else:
        r4.violation("find_cache_meta: a meta without meta_ex is a cache miss", fcm.loc(), "the validated pair can be returned although the meta_ex record is missing")
    # validate_meta refresh exemption
    vm = ix.func("mypy.build.validate_meta")
    gv = CFG(vm.node)
    mw = [n for n in gv.nodes if any(call_name(c) == "write_cache_meta" for c in n.calls())]
    htests = [n for n in gv.nodes if n.kind == "test" and isinstance(n.exprs[0], ast.Compare) and isinstance(n.exprs[0].ops[0], ast.NotEq) and {norm(n.exprs[0].left), norm(n.exprs[0].comparators[0])} == {"source_hash", "meta.hash"}]
    for m in mw:
        ok = False
        for t in htests:
            tsucc = [x for x, lab in t.succ if lab == "true"]
            if m not in gv.reachable(tsucc, labels_excluded=("exc",)) and gv.must_pass(gv.entry, [m], [t], labels_excluded=("exc",)):
                ok = True
        reassigned = [n for n in gv.nodes if n.kind == "stmt" and isinstance(n.stmt, ast.Assign) and any(norm(t) in ("meta.hash", "meta.interface_hash", "meta.dependencies", "meta.dep_hashes") for t in n.stmt.targets)]
        key = "mypy.build.validate_meta: meta refresh only for an unchanged source (hash equal), content fields untouched"
        if ok and not reassigned:
            r4.ok(key, vm.loc(m.stmt), "exempt from invalidation: the existing meta_ex still describes this source")
        else:
            r4.violation(key, vm.loc(m.stmt), "validate_meta rewrites a meta record on a path where the source hash may differ (or changes content fields) without invalidating meta_ex")


def loop_head_of(g: CFG, node):
    """Innermost for-head whose body contains node (by AST containment)."""
    best = None
    for n in g.nodes:
        if n.kind == "for-head" and any(x is node.stmt for s in n.stmt.body for x in ast.walk(s)):
            if best is None or any(x is n.stmt for s in best.stmt.body for x in ast.walk(s)):
                best = n
    return best


def provenance_ok(f):
    """`write_cache_meta(meta, manager, meta_file)`: (meta, meta_file) unpacked from a value that is
    the result of `<state>.write_cache()`, with `is None` skipped."""
    src_names = set()
    for n in ast.walk(f.node):
        if isinstance(n, ast.Assign) and isinstance(n.value, ast.Call) and isinstance(n.value.func, ast.Attribute) and n.value.func.attr == "write_cache" and not n.value.args:
            for t in n.targets:
                if isinstance(t, ast.Name):
                    src_names.add(t.id)
    if not src_names:
        return "no variable receives the result of write_cache()"
    containers = set()
    for n in ast.walk(f.node):
        if isinstance(n, ast.Assign) and isinstance(n.value, ast.Name) and n.value.id in src_names:
            for t in n.targets:
                if isinstance(t, ast.Subscript) and isinstance(t.value, ast.Name):
                    containers.add(t.value.id)
    derived = set(src_names)
    for n in ast.walk(f.node):
        if isinstance(n, ast.Assign) and isinstance(n.value, ast.Subscript) and isinstance(n.value.value, ast.Name) and n.value.value.id in containers:
            for t in n.targets:
                if isinstance(t, ast.Name):
                    derived.add(t.id)
    unpack = None
    for n in ast.walk(f.node):
        if isinstance(n, ast.Assign) and isinstance(n.value, ast.Name) and n.value.id in derived and isinstance(n.targets[0], ast.Tuple):
            unpack = [norm(e) for e in n.targets[0].elts]
    if unpack is None:
        return "the pair passed to write_cache_meta is not unpacked from write_cache()'s result"
    for n in ast.walk(f.node):
        if isinstance(n, ast.Call) and call_name(n) == "write_cache_meta":
            if [norm(n.args[0]), norm(n.args[2])] != unpack:
                return f"write_cache_meta receives ({norm(n.args[0])}, {norm(n.args[2])}), not the pair {unpack} returned by write_cache()"
            conj, _ = guard_chain(f, n)
    # None skipped: an `if <derived> is None: continue` in the loop body before the call
    skips = [n for n in ast.walk(f.node) if isinstance(n, ast.If) and isinstance(n.test, ast.Compare) and isinstance(n.test.ops[0], ast.Is) and isinstance(n.test.left, ast.Name) and n.test.left.id in derived and any(isinstance(s, ast.Continue) for s in n.body)]
    if not skips:
        return "no `if meta_tuple is None: continue` guard: a module whose data write failed would still get a meta record"
    return True


def run_shard(chk: Check, ix) -> None:
    r5 = chk.rule("R04.5", "sharded store: a module's data/meta/meta_ex records share one shard (one transaction), because their names differ only after the first dot of the basename and the shard key reads nothing after that dot", floor=6)
    # (a) names: prefix + literal suffix beginning with "."; prefix built from id.split(".")
    gcn = ix.func("mypy.build.get_cache_names")
    rets = [n for n in ast.walk(gcn.node) if isinstance(n, ast.Return) and isinstance(n.value, ast.Tuple)]
    last = [r for r in rets if any(isinstance(e, ast.BinOp) for e in r.value.elts)]
    if len(last) != 1:
        raise AnalysisError("get_cache_names: the `prefix + suffix` return not found")
    consts = {}
    for n in ast.walk(gcn.node):
        if isinstance(n, ast.Assign) and isinstance(n.targets[0], ast.Name):
            consts.setdefault(n.targets[0].id, []).append(n.value)
    prefixes = set()
    bad = []
    for e in last[0].value.elts:
        if isinstance(e, ast.BinOp) and isinstance(e.op, ast.Add):
            prefixes.add(norm(e.left))
            sufs = [e.right] if isinstance(e.right, ast.Constant) else consts.get(getattr(e.right, "id", None), [])
            if not sufs or not all(isinstance(x, ast.Constant) and isinstance(x.value, str) and x.value.startswith(".") for x in sufs):
                bad.append(norm(e))
    key = "get_cache_names: meta and data names are one prefix + a literal suffix starting with '.'"
    if len(prefixes) == 1 and not bad:
        r5.ok(key, gcn.loc(last[0]))
    else:
        r5.violation(key, gcn.loc(last[0]), f"record names are not `<same prefix> + '.<suffix>'` (prefixes {sorted(prefixes)}, non-literal suffixes {bad})")
    pvar = next(iter(prefixes)) if prefixes else "prefix"
    defs = consts.get(pvar, [])
    dotfree = bool(defs) and any('id.split(".")' in norm(d) or "id.split('.')" in norm(d) for d in defs) and all(
        ('id.split(' in norm(d)) or (isinstance(d, ast.Call) and call_name(d) in ("os_path_join", "join") and all(isinstance(a, ast.Name) and a.id == pvar or isinstance(a, ast.Constant) and isinstance(a.value, str) and "." not in a.value for a in d.args))
        for d in defs)
    key = "get_cache_names: the prefix's path components come from id.split('.') / dot-free literals"
    if dotfree:
        r5.ok(key, gcn.loc())
    else:
        r5.violation(key, gcn.loc(), f"the common prefix may contain a dot in its basename ({[norm(d) for d in defs]}): the stem the shard key hashes would differ between records")
    gmx = ix.func("mypy.build.get_meta_ex_name")
    t = norm(gmx.node)
    key = "get_meta_ex_name replaces only the middle component after the prefix"
    from ..pattern import has as _has
    if _has(gmx.node, "$p = $_.rsplit('.', maxsplit=2)", "$p[1] = 'meta_ex'", "return '.'.join($p)"):
        r5.ok(key, gmx.loc())
    else:
        r5.violation(key, gmx.loc(), "the meta_ex name is no longer `<prefix>.meta_ex.<ext>` derived from the meta name")

    # (b) every connection choice goes through _shard_index(name) = hash_path_stem(name) % num_shards
    sq = ix.cls("mypy.metastore.SqliteMetadataStore")
    si = sq.methods.get("_shard_index")
    if si is None:
        raise AnalysisError("SqliteMetadataStore._shard_index vanished")
    rv = [norm(n.value) for n in ast.walk(si.node) if isinstance(n, ast.Return) and n.value is not None]
    key = "SqliteMetadataStore._shard_index = hash_path_stem(name) % num_shards"
    if set(rv) <= {"0", "hash_path_stem(name) % self.num_shards"} and "hash_path_stem(name) % self.num_shards" in rv:
        r5.ok(key, si.loc())
    else:
        r5.violation(key, si.loc(), f"shard index computed as {rv}")
    for mn, m in sorted(sq.methods.items()):
        subs = [n for n in ast.walk(m.node) if isinstance(n, ast.Subscript) and norm(n.value) == "self.dbs" and not isinstance(n.ctx, ast.Store)]
        for sub in subs:
            idx = sub.slice
            k = f"SqliteMetadataStore.{mn}: self.dbs[{norm(idx)}]"
            src_ok = norm(idx) == "self._shard_index(name)"
            if isinstance(idx, ast.Name):
                ds = [n for n in ast.walk(m.node) if isinstance(n, ast.Assign) and norm(n.targets[0]) == idx.id]
                fors = [n for n in ast.walk(m.node) if isinstance(n, ast.For) and norm(n.target) == idx.id]
                src_ok = bool(ds) and all(norm(d.value) == "self._shard_index(name)" for d in ds) or bool(fors) and all(norm(f_.iter) in ("self.dirty_shards", "range(self.num_shards)", "range(num_shards)") for f_ in fors)
            if src_ok:
                r5.ok(k, m.loc(sub))
            else:
                r5.violation(k, m.loc(sub), "a shard connection is chosen by something other than _shard_index(name) / an all-shards loop")

    # (c) hash_path_stem: backwards scan leaves `end` at the first dot of the basename; the hash reads s[0..end] only
    hp = ix.func("mypy.util.hash_path_stem")
    loops = [n for n in hp.node.body if isinstance(n, ast.While)]
    if len(loops) != 2:
        raise AnalysisError("hash_path_stem: expected a scan loop and a hash loop")
    scan, hloop = loops
    par = hp.module.parents()

    def is_ord_cmp(e, ch):
        return isinstance(e, ast.Compare) and len(e.ops) == 1 and isinstance(e.ops[0], ast.Eq) and norm(e.comparators[0]) == f"ord({ch!r})"

    def only_sep(test):
        parts = test.values if isinstance(test, ast.BoolOp) and isinstance(test.op, ast.Or) else [test]
        return all(is_ord_cmp(x, "/") or is_ord_cmp(x, "\\") for x in parts)

    backwards = any(isinstance(n, ast.AugAssign) and isinstance(n.op, ast.Sub) and norm(n.target) == "i" for n in scan.body) and norm(scan.test) == "i >= 0"
    starts_at_end = any(isinstance(n, ast.Assign) and norm(n) == "i = len(s) - 1" for n in hp.node.body)
    exits = [n for n in ast.walk(scan) if isinstance(n, (ast.Break, ast.Return))]
    bad_exits = []
    for x in exits:
        chain = []
        p_ = par.get(x)
        while p_ is not None and p_ is not scan:
            if isinstance(p_, ast.If):
                chain.append(p_.test)
            p_ = par.get(p_)
        if not (chain and all(only_sep(t_) for t_ in chain)):
            bad_exits.append(f"line {x.lineno} under {[norm(t_) for t_ in chain]}")
    ends = [n for n in ast.walk(scan) if isinstance(n, ast.Assign) and norm(n.targets[0]) == "end"]
    end_on_dot = bool(ends) and all(norm(n.value) == "i" and isinstance(par.get(n), ast.If) and is_ord_cmp(par.get(n).test, ".") for n in ends)
    cont = [n for n in ast.walk(scan) if isinstance(n, ast.Continue)]
    key = "hash_path_stem: the backwards scan stops only at a path separator, so `end` is the first dot of the basename"
    if backwards and starts_at_end and end_on_dot and not bad_exits and not cont:
        r5.ok(key, hp.loc(scan))
    else:
        r5.violation(key, hp.loc(scan), "the scan over the basename " + (f"leaves the loop on something other than a separator ({'; '.join(bad_exits)})" if bad_exits else "does not have the shape `from the last character backwards, end = i at each dot`") + ": `x.meta.ff`, `x.meta_ex.ff` and `x.data.ff` hash different stems, land in different shards, and commit_path(meta) no longer commits a module's records together")
    reads = [n for n in ast.walk(hloop) if isinstance(n, ast.Subscript) and norm(n.value) == "s"]
    init_i = [n for n in hp.node.body if isinstance(n, ast.Assign) and norm(n.targets[0]) == "i" and n.lineno > scan.lineno]
    down = any(isinstance(n, ast.AugAssign) and isinstance(n.op, ast.Sub) and norm(n.target) == "i" for n in hloop.body)
    key = "hash_path_stem: the hash loop reads s[end], s[end-1], ..., s[0] only"
    if reads and all(norm(r.slice) == "i" for r in reads) and init_i and all(norm(n.value) == "end" for n in init_i) and down and norm(hloop.test) == "i >= 0" and not any(isinstance(n, ast.Subscript) and norm(n.value) == "s" for st in hp.node.body if st.lineno > hloop.lineno for n in ast.walk(st)):
        r5.ok(key, hp.loc(hloop))
    else:
        r5.violation(key, hp.loc(hloop), "the hash may read characters after the first dot of the basename")


def run_meta_ex_after_meta(chk: Check, ix) -> None:
    """R04.7: a meta_ex record is only written next to the meta record it was computed with."""
    r7 = chk.rule("R04.7", "write_cache_meta reports whether the store accepted the record; where the same function also writes the meta_ex record, that write is unreachable from the failure outcome; where the meta_ex is written later by another phase, the meta file name is handed on only if the meta write succeeded (a failed meta write leaves the *old* meta in place, which must not get the new meta_ex)", floor=3)
    wcm = ix.func("mypy.build.write_cache_meta")
    rets = [n for n in ast.walk(wcm.node) if isinstance(n, ast.Return) and isinstance(n.value, ast.Constant)]
    g0 = CFG(wcm.node)
    res_locals = {norm(a.targets[0]) for a in ast.walk(wcm.node) if isinstance(a, ast.Assign) and isinstance(a.value, ast.Call) and call_name(a.value) == "write" and isinstance(a.targets[0], ast.Name)}
    fail_tests = [n for n in g0.nodes if n.kind == "test" and (any(call_name(c) == "write" for c in n.calls()) or norm(n.exprs[0].operand if isinstance(n.exprs[0], ast.UnaryOp) else n.exprs[0]) in res_locals)]
    ok0 = False
    if fail_tests and {r.value.value for r in rets} == {True, False}:
        t = fail_tests[0]
        neg = isinstance(t.exprs[0], ast.UnaryOp) and isinstance(t.exprs[0].op, ast.Not)
        fail_succ = [m for m, lab in t.succ if lab == ("true" if neg else "false")]
        reach = g0.reachable(fail_succ, labels_excluded=("exc",))
        frets = [n for n in reach if n.kind == "stmt" and isinstance(n.stmt, ast.Return)]
        ok0 = bool(frets) and all(isinstance(n.stmt.value, ast.Constant) and n.stmt.value.value is False for n in frets)
    if ok0:
        r7.ok("write_cache_meta returns False when the store rejected the record and True otherwise", wcm.loc())
    else:
        r7.violation("write_cache_meta returns False when the store rejected the record and True otherwise", wcm.loc(), "the caller cannot tell whether the new meta record exists: it will write the new meta_ex next to the old meta")
    for q in ("mypy.build.process_stale_scc", "mypy.build.process_stale_scc_interface"):
        f = ix.func(q)
        g = CFG(f.node, loops_at_least_once=True)
        metas = [n for n in g.nodes if any(call_name(c) == "write_cache_meta" for c in n.calls())]
        exs = [n for n in g.nodes if any(call_name(c) == "write_cache_meta_ex" for c in n.calls())]
        if not metas:
            raise AnalysisError(f"{q}: write_cache_meta call not found")
        m = metas[0]
        if exs:
            key = f"{q}: write_cache_meta_ex is not reachable after a failed write_cache_meta"
            okq = False
            if m.kind == "test":
                e = m.exprs[0]
                neg = isinstance(e, ast.UnaryOp) and isinstance(e.op, ast.Not)
                fail_succ = [x for x, lab in m.succ if lab == ("true" if neg else "false")]
                # within the same loop iteration: stop at the loop head
                heads = [n for n in g.nodes if n.kind in ("for-iter", "for-head")]
                reach = g.reachable(fail_succ, avoiding=heads, labels_excluded=("exc",))
                okq = not any(x in reach for x in exs)
            if okq:
                r7.ok(key, f.loc(m.stmt))
            else:
                r7.violation(key, f.loc(exs[0].stmt), "the meta_ex record (cached error lines, indirect dependencies) is written although the meta write may have failed: the old meta, still valid for the old source, then replays the new version's errors once the edit is reverted")
        else:
            # the meta file name leaves the function in the result; it must depend on the write result
            key = f"{q}: the meta file is passed on to the implementation phase only if the meta write succeeded"
            par = f.module.parents()
            call = [c for c in ast.walk(f.node) if isinstance(c, ast.Call) and call_name(c) == "write_cache_meta"][0]
            holder = par.get(call)
            while isinstance(holder, (ast.BoolOp, ast.UnaryOp)):
                holder = par.get(holder)
            flag = norm(holder.targets[0]) if isinstance(holder, ast.Assign) and isinstance(holder.targets[0], ast.Name) else None
            apps = [c for c in ast.walk(f.node) if isinstance(c, ast.Call) and isinstance(c.func, ast.Attribute) and c.func.attr == "append" and c.args and isinstance(c.args[0], ast.Tuple) and any("meta_file" in norm(e) for e in c.args[0].elts)]
            conditional = bool(flag) and any(isinstance(e, ast.IfExp) and norm(e.test) == flag and "meta_file" in norm(e.body) and isinstance(e.orelse, ast.Constant) and e.orelse.value is None for c in apps for e in c.args[0].elts)
            if conditional:
                r7.ok(key, f.loc(call))
            else:
                r7.violation(key, f.loc(call), "the interface phase hands the meta file name to the implementation phase regardless of whether the new meta record was written (or the old meta_ex removed): the implementation phase then writes the new meta_ex next to the old meta")


def run_sqlite_write(chk: Check, ix) -> None:
    """R04.8: the time stamp of a sqlite record is that of its last write."""
    import re as _re
    r8 = chk.rule("R04.8", "SqliteMetadataStore.write stores the (path, mtime, data) triple in a statement that replaces all three columns of an existing row, and passes the mtime it computed; getmtime reads that column: CacheMeta.data_mtime is the only link between a meta record and its data record, so a rewritten data record must carry a new time stamp", floor=2)
    sq = ix.cls("mypy.metastore.SqliteMetadataStore")
    w = sq.methods["write"]
    execs = [c for c in ast.walk(w.node) if isinstance(c, ast.Call) and call_name(c) == "execute" and c.args and isinstance(c.args[0], ast.Constant) and isinstance(c.args[0].value, str)]
    if len(execs) != 1:
        raise AnalysisError("SqliteMetadataStore.write: single SQL statement expected")
    sql = " ".join(execs[0].args[0].value.upper().split())
    params = [norm(e) for e in execs[0].args[1].elts] if len(execs[0].args) > 1 and isinstance(execs[0].args[1], ast.Tuple) else []
    cols = _re.search(r"INTO \w+\s*\(([^)]*)\)", sql)
    colset = [x.strip() for x in cols.group(1).split(",")] if cols else []
    replaces_all = "INSERT OR REPLACE" in sql or sql.startswith("REPLACE")
    upsert = _re.search(r"DO UPDATE SET (.*)$", sql)
    if upsert:
        assigned = {a.split("=")[0].strip() for a in upsert.group(1).split(",")}
        replaces_all = {"MTIME", "DATA"} <= assigned
    key = "SqliteMetadataStore.write replaces path, mtime and data of an existing row"
    if set(colset) >= {"PATH", "MTIME", "DATA"} and replaces_all and "mtime" in params:
        r8.ok(key, w.loc(execs[0]))
    else:
        r8.violation(key, w.loc(execs[0]), f"statement `{sql[:90]}` with parameters {params}: an existing row keeps its old mtime (or data): a data record rewritten by a run that is then killed before the meta commit still matches the old meta's data_mtime, so the old meta validates the new data")
    gm = sq.methods.get("getmtime")
    if gm is not None and any(isinstance(c, ast.Constant) and c.value == "mtime" for c in ast.walk(gm.node)):
        r8.ok("SqliteMetadataStore.getmtime reads the mtime column", gm.loc())
    else:
        r8.violation("SqliteMetadataStore.getmtime reads the mtime column", sq.methods["write"].loc(), "getmtime no longer returns the stored time stamp")


def run_late_blockers_surface(chk: Check, ix) -> None:
    """R04.9: a blocking error reported after the last module was processed is still raised."""
    r9 = chk.rule("R04.9", "build.py reports a failed cache write of build-wide records (plugins snapshot, fine-grained dependency cache) as a *blocking* error (`manager.error(..., blocker=True)`). Blocking errors only take effect when somebody tests Errors.is_blockers() (State.check_blockers after each phase of a module). The functions that report such an error and are called from dispatch() after process_graph are followed, on every CFG path to dispatch's exit, by a test of is_blockers() / raise_error(): otherwise the run prints Success, exits 0 and leaves a cache whose build-wide record was not written", floor=2)
    b = ix.module("mypy.build")
    reporters = set()
    for f in b.functions.values():
        for c in ast.walk(f.node):
            if isinstance(c, ast.Call) and call_name(c) == "error" and any(k.arg == "blocker" and isinstance(k.value, ast.Constant) and k.value.value is True for k in c.keywords):
                if not any(isinstance(x, ast.Call) and call_name(x) in ("raise_error", "check_blockers") for x in ast.walk(f.node)):
                    reporters.add(f.name)
    d = ix.func("mypy.build.dispatch")
    g = CFG(d.node)
    sites = [n for n in g.nodes if n.kind == "stmt" and any(isinstance(c, ast.Call) and call_name(c) in reporters for c in ast.walk(n.stmt))]
    # only direct statements (not the enclosing if/for headers)
    sites = [n for n in sites if isinstance(n.stmt, ast.Expr)]
    checks = [n for n in g.nodes if n.stmt is not None and any(isinstance(c, ast.Call) and call_name(c) in ("is_blockers", "raise_error", "check_blockers") for c in ast.walk(n.stmt.test if n.kind == "test" and hasattr(n.stmt, "test") else n.stmt))]
    if len(sites) < 2:
        raise AnalysisError(f"dispatch: {len(sites)} calls of functions that report late blocking errors found (reporters: {sorted(reporters)})")
    for s in sites:
        nm = next(call_name(c) for c in ast.walk(s.stmt) if isinstance(c, ast.Call) and call_name(c) in reporters)
        key = f"dispatch: a blocking error reported by {nm} is raised before dispatch returns"
        if checks and g.must_pass(s, [g.exit], checks, labels_excluded=("exc",)):
            r9.ok(key, d.loc(s.stmt))
        else:
            r9.violation(key, d.loc(s.stmt), f"{nm} reports its failed write with blocker=True, but from here dispatch returns without anybody testing Errors.is_blockers(): the message is never printed and the exit status is 0")


def run_snapshot_last(chk: Check, ix) -> None:
    """R04.10: the build-wide record that vouches for the module records is replaced after them."""
    from .c02 import snapshot_written_after_processing
    r10 = chk.rule("R04.10", "the plugins snapshot vouches for every module record of the cache directory (a record is trusted when the stored snapshot equals the current plugins). A run that is killed must not leave a snapshot that vouches for records it has not rewritten yet, so dispatch() writes it only after process_graph, on every path (the R02.15 query, here for kill points instead of blocking errors)", floor=1)
    snapshot_written_after_processing(r10, ix)


def run_sqlite_failures_are_handled_ones(chk: Check, ix) -> None:
    """R04.11: a failing sqlite statement surfaces as what the callers of the store handle."""
    r11 = chk.rule("R04.11", "build.py handles a failed cache-store operation through the file store's conventions: write() returns False, everything else raises an OSError (`except OSError` around remove / read / getmtime). sqlite3.OperationalError (database locked, read-only, disk full) is not an OSError, so every SqliteMetadataStore method of the MetadataStore interface that executes a *modifying* statement (INSERT / DELETE / UPDATE / REPLACE) does so inside a `try` whose handler names sqlite3.OperationalError (or a base of it) and returns the failure value or raises an OSError", floor=2)
    sq = ix.cls("mypy.metastore.SqliteMetadataStore")
    base = ix.cls(STORE)
    n = 0
    for name, m in sorted(sq.methods.items()):
        if name not in base.methods:
            continue
        par = m.module.parents()
        for c in ast.walk(m.node):
            if not (isinstance(c, ast.Call) and call_name(c) == "execute" and c.args and isinstance(c.args[0], ast.Constant) and isinstance(c.args[0].value, str)):
                continue
            verb = c.args[0].value.split()[0].upper() if c.args[0].value.split() else ""
            if verb not in ("INSERT", "DELETE", "UPDATE", "REPLACE"):
                continue
            n += 1
            key = f"SqliteMetadataStore.{name}: a failing {verb} is reported the way the file store reports failures"
            handled = None
            p = c
            while p is not m.node:
                child, p = p, par[p]
                if isinstance(p, ast.Try) and child in p.body:
                    for h in p.handlers:
                        names = [norm(h.type)] if h.type is not None and not isinstance(h.type, ast.Tuple) else [norm(e) for e in (h.type.elts if h.type is not None else [])]
                        if h.type is None or any(t in ("sqlite3.OperationalError", "sqlite3.DatabaseError", "sqlite3.Error", "Exception") for t in names):
                            handled = h
                    if handled:
                        break
            if handled is None:
                r11.violation(key, m.loc(c), f"`{c.args[0].value[:60]}` is executed outside any handler for sqlite3.OperationalError: with a locked or read-only database the exception passes the callers' `except OSError` (build.invalidate_cache_meta_ex, delete_cache) and ends the run with an internal error where the file store's failure is handled")
                continue
            outs = [x for st in handled.body for x in ast.walk(st) if isinstance(x, (ast.Return, ast.Raise))]
            good = any((isinstance(x, ast.Return) and isinstance(x.value, ast.Constant) and x.value.value is False) or (isinstance(x, ast.Raise) and x.exc is not None and call_name(x.exc) in ("OSError", "FileNotFoundError", "PermissionError") if isinstance(x, ast.Raise) and isinstance(x.exc, ast.Call) else False) for x in outs)
            if good:
                r11.ok(key, m.loc(c))
            else:
                r11.violation(key, m.loc(handled), "the handler neither returns False nor raises an OSError: the failure is swallowed (the caller believes the record was stored / removed) or re-raised as a type the callers do not handle")
    if n < 2:
        raise AnalysisError(f"SqliteMetadataStore: {n} modifying statements found in interface methods (expected write and remove)")


def run_data_record_tied_to_meta(chk: Check, ix) -> None:
    """R04.12: no meta record is accepted without comparing the time stamp of the data record it describes."""
    from .c02 import analyse_gates, has_rejecting_polarity
    r12 = chk.rule("R04.12", "a module's meta and data records are written separately; `CacheMeta.data_mtime` is the only thing that ties them together, so a run killed between the two writes leaves a new data record next to an old meta. build.validate_meta rejects such a pair by comparing the data record's time stamp with meta.data_mtime; that rejecting test lies on every CFG path from the entry to *each* accepting return (also the hash-match branch that rewrites the meta, and the quickstart shortcut), unless the test of the documented bypass (`skip_cache_mtime_checks`) that encloses it dominates the return instead. This is the R02.1 query for the field `data_mtime`, here for kill points", floor=3)
    vm = ix.func("mypy.build.validate_meta")
    g, accepts, gates, aliases = analyse_gates(vm, {"meta"})
    if len(accepts) < 3:
        raise AnalysisError("validate_meta: accepting returns not found")
    dm = [t for t, lab, fs in gates if "data_mtime" in fs and has_rejecting_polarity(t.exprs[0], "data_mtime", {"meta"}, aliases)]
    # a conjunct next to the comparison would let some mismatches through: the gate is the bare comparison
    weakened = [t for t in dm if not isinstance(t.exprs[0], ast.Compare)]
    dm = [t for t in dm if isinstance(t.exprs[0], ast.Compare)]
    if not dm and not weakened:
        raise AnalysisError("validate_meta: no rejecting comparison with meta.data_mtime found")
    bypass = [n for n in g.nodes if n.kind == "test" and "skip_cache_mtime_checks" in norm(n.exprs[0])]
    for a in accepts:
        tag = "; ".join(norm(c)[:40] for c in guard_chain(vm, a.stmt)[0]) or "final"
        key = f"validate_meta: data_mtime compared before accept [{tag}]"
        ok = any(g.must_pass(g.entry, [a], [t], labels_excluded=("exc",)) for t in dm)
        if not ok and bypass and dm:
            # the gate sits under `if not <skip_cache_mtime_checks>`: then that test must dominate the return instead
            ok = any(g.must_pass(g.entry, [a], [b], labels_excluded=("exc",)) for b in bypass)
        if ok:
            r12.ok(key, vm.loc(a.stmt))
        else:
            r12.violation(key, vm.loc(a.stmt), "this return accepts the meta record on a path that has not compared the data record's time stamp with meta.data_mtime: after a run killed between the data write and the meta write, a source reverted to its old contents (hash matches, mtime differs) makes the old meta valid again and the new data record is loaded as the module's tree")


def run_link_time_stamp_resolution(chk: Check, ix) -> None:
    """R04.13: the time stamp that ties a data record to its meta is not coarsened before it is compared."""
    r13 = chk.rule("R04.13", "validate_meta trusts a data record when `manager.getmtime(meta.data_file) == meta.data_mtime` (R04.12), and write_cache stores `manager.getmtime(data_file)` in the meta. Both stores keep sub-second time stamps (os.path.getmtime / a REAL column). BuildManager.getmtime must hand that value on unchanged: a truncation (`int(...)`) makes two data records written in the same second indistinguishable, so the record of a killed run that started in the same second as the previous one validates against the old meta", floor=1)
    bm = ix.cls("mypy.build.BuildManager")
    f = bm.methods.get("getmtime")
    if f is None:
        raise AnalysisError("BuildManager.getmtime not found")
    n = 0
    for r in ast.walk(f.node):
        if not (isinstance(r, ast.Return) and r.value is not None and any(isinstance(c, ast.Call) and call_name(c) == "getmtime" for c in ast.walk(r.value))):
            continue
        n += 1
        key = "BuildManager.getmtime: the store's time stamp is returned at full resolution"
        coarse = [c for c in ast.walk(r.value) if isinstance(c, ast.Call) and isinstance(c.func, ast.Name) and c.func.id in ("int", "round", "floor", "trunc")]
        if not coarse:
            r13.ok(key, f.loc(r))
        else:
            r13.violation(key, f.loc(r), f"`{norm(r.value)}` drops the sub-second part: runs 1 and 2 within one second (run 2 killed after committing a's new data record), then the source reverted: the warm run accepts old meta + new data and misses `c.py:2: error: Incompatible types in assignment`, with both stores")
    if n < 1:
        raise AnalysisError("BuildManager.getmtime: no return of the store's getmtime found")
