"""C12 — static models of Python's runtime rules (small partial).

R12.1  operator spelling <-> operator: in any branch guarded by `<name> == "<op>"` the value
       returned / the IR opcode chosen uses the operator that is spelled.
R12.2  operator tables mirror the language reference (dunder names, reflected names, mirrored,
       negated and flipped comparisons, mypyc ComparisonOp tables).
R12.3  guard completeness: every partial arithmetic operator applied by the constant folders is
       guarded against each of CPython's failure preconditions for the operand types in force
       (ZeroDivisionError, negative shift, OverflowError on int->float conversion, complex
       result, results of unbounded size).
"""

from __future__ import annotations

import ast

from ..cfg import call_name
from ..index import AnalysisError, FuncInfo, get_index, norm, walk_no_nested
from ..report import Check

BIN = {
    "+": ast.Add, "-": ast.Sub, "*": ast.Mult, "/": ast.Div, "//": ast.FloorDiv, "%": ast.Mod,
    "**": ast.Pow, "<<": ast.LShift, ">>": ast.RShift, "&": ast.BitAnd, "|": ast.BitOr, "^": ast.BitXor,
    "@": ast.MatMult,
}
CMP = {"==": ast.Eq, "!=": ast.NotEq, "<": ast.Lt, "<=": ast.LtE, ">": ast.Gt, ">=": ast.GtE,
       "is": ast.Is, "is not": ast.IsNot, "in": ast.In, "not in": ast.NotIn}
UN = {"-": ast.USub, "+": ast.UAdd, "~": ast.Invert, "not": ast.Not}
NONCOMM = (ast.Sub, ast.Div, ast.FloorDiv, ast.Mod, ast.Pow, ast.LShift, ast.RShift, ast.MatMult,
           ast.Lt, ast.LtE, ast.Gt, ast.GtE)

# Language reference, "Emulating numeric types" / "Rich comparison"
DUNDER = {"+": "__add__", "-": "__sub__", "*": "__mul__", "/": "__truediv__", "%": "__mod__",
          "divmod": "__divmod__", "//": "__floordiv__", "**": "__pow__", "@": "__matmul__", "&": "__and__",
          "|": "__or__", "^": "__xor__", "<<": "__lshift__", ">>": "__rshift__", "==": "__eq__",
          "!=": "__ne__", "<": "__lt__", ">=": "__ge__", ">": "__gt__", "<=": "__le__", "in": "__contains__"}
UNARY_DUNDER = {"-": "__neg__", "+": "__pos__", "~": "__invert__"}
MIRROR = {"==": "==", "!=": "!=", "<": ">", ">": "<", "<=": ">=", ">=": "<="}
NEG = {"==": "!=", "!=": "==", "is": "is not", "is not": "is", "<": ">=", "<=": ">", ">": "<=", ">=": "<",
       "in": "not in", "not in": "in"}
IR_CMP_SIGNED = {"==": "EQ", "!=": "NEQ", "<": "SLT", ">": "SGT", "<=": "SLE", ">=": "SGE"}
IR_CMP_UNSIGNED = {"==": "EQ", "!=": "NEQ", "<": "ULT", ">": "UGT", "<=": "ULE", ">=": "UGE"}
IR_INT = {"+": "ADD", "-": "SUB", "*": "MUL", "//": "DIV", "%": "MOD", "&": "AND", "|": "OR", "^": "XOR",
          "<<": "LEFT_SHIFT", ">>": "RIGHT_SHIFT"}
IR_FLOAT = {"+": "ADD", "-": "SUB", "*": "MUL", "/": "DIV", "%": "MOD"}

FOLDER_MODULES = ("mypy.constant_fold", "mypyc.irbuild.constant_fold")


def op_tests(test: ast.expr) -> list[tuple[str, str]]:
    """(name, op-spelling) for every positive conjunct `name == "<op>"` of a branch condition."""
    out = []
    conj = test.values if isinstance(test, ast.BoolOp) and isinstance(test.op, ast.And) else [test]
    for c in conj:
        if isinstance(c, ast.Compare) and len(c.ops) == 1 and isinstance(c.ops[0], ast.Eq):
            l, r = c.left, c.comparators[0]
            if isinstance(r, ast.Constant) and isinstance(r.value, str) and isinstance(l, (ast.Name, ast.Attribute)):
                if r.value in BIN or r.value in CMP or r.value in UN:
                    out.append((norm(l), r.value))
    return out


def branch_stmts(body: list[ast.stmt]):
    """Statements of a branch body, not descending into nested op-dispatch ifs."""
    for s in body:
        yield s
        if isinstance(s, ast.If):
            if not op_tests(s.test):
                yield from branch_stmts(s.body)
                yield from branch_stmts(s.orelse)
        elif isinstance(s, (ast.Try,)):
            yield from branch_stmts(s.body)
            yield from branch_stmts(s.orelse)
        elif isinstance(s, (ast.With, ast.For, ast.While)):
            yield from branch_stmts(s.body)


def value_exprs(stmts) -> list[ast.expr]:
    """Values computed in a branch: the returned / assigned expression itself, or, when it merely
    wraps the result (`rmap[left <= right]`, `bool(a < b)`), the operator application inside."""
    out = []
    for s in stmts:
        v = None
        if isinstance(s, ast.Return) and s.value is not None:
            v = s.value
        elif isinstance(s, ast.Assign):
            v = s.value
        if v is None:
            continue
        if isinstance(v, (ast.BinOp, ast.Compare, ast.UnaryOp, ast.BoolOp)):
            out.append(v)
            continue
        inner = []
        if isinstance(v, ast.Subscript):
            inner = [v.slice]
        elif isinstance(v, ast.Call) and len(v.args) == 1 and not v.keywords:
            inner = [v.args[0]]
        ops = [x for x in inner if isinstance(x, (ast.BinOp, ast.Compare))]
        out.extend(ops if ops else [v])
    return out


def run(chk: Check) -> None:
    ix = get_index()
    run_optional_truthiness(chk, ix)
    run_by_name_binding(chk, ix)
    run_duplicate_exemptions(chk, ix)
    run_comparison_tables(chk, ix)
    run_boolean_combination_tables(chk, ix)

    # ---------------- R12.1
    r1 = chk.rule("R12.1", "in every branch guarded by <name> == '<operator spelling>', the Python operator applied to the operands / the IR opcode selected is the one spelled, with operands in parameter order", floor=30)
    for q, f in sorted(ix.functions.items()):
        if f.parent is not None:
            continue
        params = [a.arg for a in f.params]
        for n in walk_no_nested(f.node):
            if not isinstance(n, ast.If):
                continue
            for name, sym in op_tests(n.test):
                for e in value_exprs(branch_stmts(n.body)):
                    inst = check_value(e, sym, params)
                    if inst is None:
                        continue
                    ok, what = inst
                    key = f"{q}: {name} == {sym!r} -> {norm(e)[:60]}"
                    if ok:
                        r1.ok(key, f.loc(n))
                    else:
                        r1.violation(key, f.loc(e), f"branch for operator {sym!r} computes {what}")

    # in the constant folders an operator's branch returns the operator's result or None ("not folded"), never a fixed value
    for q, f in sorted(ix.functions.items()):
        if f.parent is not None or f.module.name not in ("mypy.constant_fold", "mypyc.irbuild.constant_fold"):
            continue
        for n in walk_no_nested(f.node):
            if not isinstance(n, ast.If):
                continue
            for name, sym in op_tests(n.test):
                for st in branch_stmts(n.body):
                    if isinstance(st, ast.Return) and isinstance(st.value, ast.Name) and st.value.id in [a.arg for a in f.params] and st.value.id != name and sym in UN and len(f.params) == 2:
                        r1.violation(f"{q}: {name} == {sym!r} -> return {st.value.id}", f.loc(st), f"the branch for the unary operator {sym!r} returns its operand unchanged: `{sym}True` is the int 1 in Python, not True")
                    if isinstance(st, ast.Return) and isinstance(st.value, ast.Constant) and st.value.value is not None:
                        r1.violation(f"{q}: {name} == {sym!r} -> return {norm(st.value)}", f.loc(st), f"the branch for operator {sym!r} returns the fixed value {norm(st.value)} for some operands instead of applying the operator (or answering None for `not folded`): a short cut that is right for non-negative operands only, for example, folds `-8 >> 4` to 0 where Python gives -1")
    # ---------------- R12.2
    r2 = chk.rule("R12.2", "operator tables agree with the language reference (dunder names, reflected/in-place names, mirrored/negated/flipped comparisons) and mypyc's ComparisonOp/IntOp tables agree with the spelling", floor=9)
    mo = ix.module("mypy.operators")

    def table(mod, name):
        if name not in mod.assigns:
            raise AnalysisError(f"table {mod.name}.{name} vanished")
        return mod.assigns[name]

    def dict_items(e: ast.expr, mod):
        if isinstance(e, ast.Dict) and all(isinstance(k, ast.Constant) for k in e.keys):
            return {k.value: v for k, v in zip(e.keys, e.values)}
        # computed table (dict(zip(..)), comprehension, ** merge): constant-propagate it
        val = ix.const_eval(mod, e)
        if not isinstance(val, dict):
            raise AnalysisError(f"table in {mod.name} does not evaluate to a dict: {norm(e)[:40]}")
        return {k: (v if isinstance(v, ast.AST) else ast.Constant(value=v)) for k, v in val.items()}

    def cmp_table(modname, name, spec, conv=lambda v: v.value if isinstance(v, ast.Constant) else norm(v), partial=True):
        mod = ix.module(modname)
        items = dict_items(table(mod, name), mod)
        bad = []
        for k, v in items.items():
            got = conv(v)
            if k not in spec:
                bad.append(f"{k!r}: unknown operator")
            elif spec[k] != got:
                bad.append(f"{k!r}: {got!r} (expected {spec[k]!r})")
        key = f"{modname}.{name}"
        if bad:
            r2.violation(key, f"{mod.relpath}:{table(mod, name).lineno}", "; ".join(bad))
        else:
            r2.ok(key, f"{mod.relpath}:{table(mod, name).lineno}", f"{len(items)} entries")

    cmp_table("mypy.operators", "op_methods", DUNDER)
    cmp_table("mypy.operators", "unary_op_methods", UNARY_DUNDER)
    cmp_table("mypy.operators", "flip_ops", MIRROR)
    cmp_table("mypy.operators", "neg_ops", NEG)
    cmp_table("mypy.reachability", "reverse_op", MIRROR)
    cmp_table("mypy.operators", "int_op_to_method", {k: f"int.{DUNDER.get(k, '__eq__' if k == 'is' else '__ne__')}" for k in list(MIRROR) + ["is", "is not"]} | {"is": "int.__eq__", "is not": "int.__ne__"})
    rev = dict_items(table(mo, "reverse_op_methods"), mo)
    refl_cmp = {"__eq__": "__eq__", "__ne__": "__ne__", "__lt__": "__gt__", "__gt__": "__lt__", "__le__": "__ge__", "__ge__": "__le__"}
    bad = [f"{k}: {v.value}" for k, v in rev.items() if not (isinstance(v, ast.Constant) and v.value == refl_cmp.get(k, "__r" + k[2:]))]
    known = set(DUNDER.values())
    bad += [f"{k}: not a binary operator method" for k in rev if k not in known]
    if bad:
        r2.violation("mypy.operators.reverse_op_methods", f"{mo.relpath}:{table(mo, 'reverse_op_methods').lineno}", "; ".join(bad))
    else:
        r2.ok("mypy.operators.reverse_op_methods", mo.relpath, f"{len(rev)} entries, each __X__ -> __rX__")
    inplace = table(mo, "ops_with_inplace_method")
    ops = ix.const_eval(mo, inplace)
    spec_inplace = {"+", "-", "*", "/", "%", "//", "**", "@", "&", "|", "^", "<<", ">>"}
    if set(ops) == spec_inplace:
        r2.ok("mypy.operators.ops_with_inplace_method", mo.relpath)
    else:
        r2.violation("mypy.operators.ops_with_inplace_method", f"{mo.relpath}:{inplace.lineno}", f"differs from the augmented-assignment operators: {sorted(set(ops) ^ spec_inplace)}")
    # the methods for which Python skips the reflected method when both operands have the same type:
    # every binary arithmetic / bitwise dunder that has an __r*__ counterpart (the data model: "if the operands
    # are of the same type, it is assumed that if the non-reflected method fails the operation is not supported")
    shortcut = table(mo, "op_methods_that_shortcut")
    try:
        sc = set(ix.const_eval(mo, shortcut))
    except Exception as exc:  # a computed table the evaluator cannot fold
        raise AnalysisError(f"mypy.operators.op_methods_that_shortcut cannot be evaluated: {exc}")
    want_sc = {k for k in rev if k not in refl_cmp}
    if sc == want_sc:
        r2.ok("mypy.operators.op_methods_that_shortcut", mo.relpath, f"{len(sc)} methods: every __X__ with an __rX__")
    else:
        r2.violation("mypy.operators.op_methods_that_shortcut", f"{mo.relpath}:{shortcut.lineno}", f"differs from the binary operator methods that have a reflected form: missing {sorted(want_sc - sc)}, extra {sorted(sc - want_sc)}; for a missing method mypy also tries __r*__ on operands of the same type (`divmod(A(), A())` with only __rdivmod__ is accepted, CPython raises TypeError)")
    # mypyc ComparisonOp tables (class-level)
    cop = ix.cls("mypyc.ir.ops.ComparisonOp")
    for nm, spec in (("signed_ops", IR_CMP_SIGNED), ("unsigned_ops", IR_CMP_UNSIGNED)):
        e = cop.class_assigns.get(nm)
        if e is None:
            raise AnalysisError(f"ComparisonOp.{nm} vanished")
        items = dict_items(e, cop.module)
        bad = [f"{k!r}: {norm(v)}" for k, v in items.items() if spec.get(k) != norm(v)]
        if bad or set(items) != set(spec):
            r2.violation(f"mypyc.ir.ops.ComparisonOp.{nm}", f"{cop.module.relpath}:{e.lineno}", "; ".join(bad) or "key set differs")
        else:
            r2.ok(f"mypyc.ir.ops.ComparisonOp.{nm}", f"{cop.module.relpath}:{e.lineno}")
    ml = ix.module("mypyc.lower.int_ops")
    items = dict_items(table(ml, "int_comparison_op_mapping"), ml)
    bad = []
    for k, v in items.items():
        if not (isinstance(v, ast.Call) and v.args and norm(v.args[0]) == f"ComparisonOp.{IR_CMP_SIGNED.get(k)}"):
            bad.append(f"{k!r}: {norm(v)[:50]}")
        else:
            # boxed path: (c function, negate, swap) must realise the comparison from == / <
            cfun, neg, swap = norm(v.args[1]), norm(v.args[2]), norm(v.args[3])
            want = {"==": ("int_equal_", "False", "False"), "!=": ("int_equal_", "True", "False"),
                    "<": ("int_less_than_", "False", "False"), "<=": ("int_less_than_", "True", "True"),
                    ">": ("int_less_than_", "False", "True"), ">=": ("int_less_than_", "True", "False")}[k]
            if (cfun, neg, swap) != want:
                bad.append(f"{k!r}: boxed path ({cfun}, negate={neg}, swap={swap}) does not compute {k} (needs {want})")
    if bad:
        r2.violation("mypyc.lower.int_ops.int_comparison_op_mapping", ml.relpath, "; ".join(bad))
    else:
        r2.ok("mypyc.lower.int_ops.int_comparison_op_mapping", ml.relpath, "a<=b == not(b<a), a>b == b<a, a>=b == not(a<b)")

    run_kind_predicates(chk, ix)

    # ---------------- R12.3
    r3 = chk.rule("R12.3", "each partial operator applied to folded operands is guarded against every CPython failure precondition for the operand types in force", floor=12)
    n_funcs = 0
    for modname in FOLDER_MODULES:
        m = ix.module(modname)
        for f in m.functions.values():
            n_funcs += 1
            check_folder(f, r3)
    chk.extra["folder_functions_analysed"] = n_funcs


def check_value(e: ast.expr, sym: str, params: list[str]):
    """For a value computed in an op-branch: (agrees, description) or None if not an operator application."""
    def is_operand(x):
        # only the function's own value parameters: these are the operands being modelled
        return isinstance(x, ast.Name) and x.id in params
    if isinstance(e, ast.BinOp) and is_operand(e.left) and is_operand(e.right):
        if sym not in BIN:
            return None
        if not isinstance(e.op, BIN[sym]):
            return False, f"`{norm(e)}`"
        if isinstance(e.op, NONCOMM) and isinstance(e.left, ast.Name) and isinstance(e.right, ast.Name) and e.left.id in params and e.right.id in params:
            if params.index(e.left.id) > params.index(e.right.id):
                return False, f"`{norm(e)}` with operands swapped"
        return True, ""
    if isinstance(e, ast.Compare) and len(e.ops) == 1 and is_operand(e.left) and is_operand(e.comparators[0]):
        if sym not in CMP:
            return None
        l, r = e.left, e.comparators[0]
        mirror = {"<": ">", ">": "<", "<=": ">=", ">=": "<="}
        if sym in mirror and isinstance(e.ops[0], CMP[mirror[sym]]) and params.index(l.id) > params.index(r.id):
            return True, ""  # `right < left` for '>': the mirrored operator with the operands exchanged is the same comparison
        if not isinstance(e.ops[0], CMP[sym]):
            return False, f"`{norm(e)}`"
        if isinstance(e.ops[0], NONCOMM) and isinstance(l, ast.Name) and isinstance(r, ast.Name) and l.id in params and r.id in params:
            if params.index(l.id) > params.index(r.id):
                return False, f"`{norm(e)}` with operands swapped"
        return True, ""
    if isinstance(e, ast.UnaryOp) and is_operand(e.operand) and not isinstance(e.op, ast.Not):
        if sym not in UN:
            return None
        return isinstance(e.op, UN[sym]), f"`{norm(e)}`"
    if isinstance(e, ast.Attribute) and isinstance(e.value, ast.Name) and e.value.id in ("IntOp", "ComparisonOp", "FloatOp"):
        spec = {"IntOp": IR_INT, "FloatOp": IR_FLOAT, "ComparisonOp": {**IR_CMP_SIGNED}}[e.value.id]
        if sym in spec:
            if e.value.id == "ComparisonOp":
                return e.attr in (IR_CMP_SIGNED[sym], IR_CMP_UNSIGNED[sym]), f"{norm(e)}"
            return e.attr == spec[sym], f"{norm(e)}"
        return None
    return None


# ---- R12.3 machinery

_FLIP = {ast.Eq: ast.NotEq, ast.NotEq: ast.Eq, ast.Lt: ast.GtE, ast.GtE: ast.Lt, ast.Gt: ast.LtE, ast.LtE: ast.Gt, ast.Is: ast.IsNot, ast.IsNot: ast.Is, ast.In: ast.NotIn, ast.NotIn: ast.In}


def _negate(t: ast.expr) -> list[ast.expr]:
    """Conditions that hold when `t` is false (a list: `not (a or b)` gives two)."""
    if isinstance(t, ast.UnaryOp) and isinstance(t.op, ast.Not):
        return [t.operand]
    if isinstance(t, ast.BoolOp) and isinstance(t.op, ast.Or):
        return [x for v in t.values for x in _negate(v)]
    if isinstance(t, ast.Compare) and len(t.ops) == 1 and type(t.ops[0]) in _FLIP:
        return [ast.copy_location(ast.Compare(left=t.left, ops=[_FLIP[type(t.ops[0])]()], comparators=t.comparators), t)]
    return [ast.copy_location(ast.UnaryOp(op=ast.Not(), operand=t), t)]


def guard_chain(f: FuncInfo, node: ast.AST, early_exits: bool = False):
    """Positive branch conditions and enclosing handler types for a node inside f."""
    parents = f.module.parents()
    tests, handlers = [], set()
    cur = node
    while cur is not f.node:
        p = parents.get(cur)
        if p is None:
            break
        if isinstance(p, ast.If):
            if cur in p.body:
                tests.append(p.test)
        elif isinstance(p, ast.IfExp):
            if cur is p.body:
                tests.append(p.test)
        elif isinstance(p, ast.Try) and cur in p.body:
            for h in p.handlers:
                ts = [h.type] if not isinstance(h.type, ast.Tuple) else h.type.elts
                for t in ts:
                    handlers.add("BaseException" if t is None else norm(t))
        # early exits before `cur` in the same block: `if T: return ...` makes `not T` hold afterwards
        for fld in ("body", "orelse", "finalbody") if early_exits else ():
            blk = getattr(p, fld, None)
            if isinstance(blk, list) and any(cur is x for x in blk):
                for prev in blk[: [i for i, x in enumerate(blk) if x is cur][0]]:
                    if isinstance(prev, ast.If) and not prev.orelse and prev.body and isinstance(prev.body[-1], (ast.Return, ast.Raise, ast.Continue, ast.Break)):
                        tests.extend(_negate(prev.test))
        cur = p
    conj = []
    for t in tests:
        conj.extend(t.values if isinstance(t, ast.BoolOp) and isinstance(t.op, ast.And) else [t])
    return conj, handlers


def operand_types(f: FuncInfo, name: str, conj) -> set[str]:
    ts: set[str] = set()
    for c in conj:
        if isinstance(c, ast.Call) and isinstance(c.func, ast.Name) and c.func.id == "isinstance" and isinstance(c.args[0], ast.Name) and c.args[0].id == name:
            t = c.args[1]
            ts |= {norm(x) for x in (t.elts if isinstance(t, ast.Tuple) else [t])}
    if not ts:
        for a in f.params:
            if a.arg == name and a.annotation is not None:
                ts |= {x.strip() for x in norm(a.annotation).split("|")}
    return ts


CATCH = {
    "ZeroDivisionError": {"ZeroDivisionError", "ArithmeticError", "Exception", "BaseException"},
    "OverflowError": {"OverflowError", "ArithmeticError", "Exception", "BaseException"},
    "ValueError": {"ValueError", "Exception", "BaseException"},
}


def has_cmp(conj, name: str, ops, rhs_pred=lambda r: True, side="left") -> bool:
    """Is there a conjunct comparing `name` with something using one of ops (chains included)?"""
    for c in conj:
        for n in ast.walk(c) if isinstance(c, ast.BoolOp) and isinstance(c.op, ast.And) else [c]:
            if not isinstance(n, ast.Compare):
                continue
            operands = [n.left] + list(n.comparators)
            for i, op in enumerate(n.ops):
                l, r = operands[i], operands[i + 1]
                if isinstance(l, ast.Name) and l.id == name and isinstance(op, ops) and rhs_pred(r):
                    return True
                # mirrored: K <= name
                mirrored = {ast.LtE: ast.GtE, ast.Lt: ast.Gt, ast.GtE: ast.LtE, ast.Gt: ast.Lt, ast.NotEq: ast.NotEq, ast.Eq: ast.Eq}
                if isinstance(r, ast.Name) and r.id == name and any(isinstance(op, k) and v in (ops if isinstance(ops, tuple) else (ops,)) for k, v in mirrored.items()) and rhs_pred(l):
                    return True
    return False


def is_zero(e):
    return isinstance(e, ast.Constant) and e.value == 0


def bounded_above(conj, mentions: list[str]) -> bool:
    """Some conjunct (or a conjunct of a nested `and`) is an upper-bound comparison (<, <=) whose
    left side mentions all of `mentions`; disjunctions must bound every disjunct or make it trivial."""
    def bound_in(c) -> bool:
        if isinstance(c, ast.BoolOp) and isinstance(c.op, ast.And):
            return any(bound_in(v) for v in c.values)
        if isinstance(c, ast.BoolOp) and isinstance(c.op, ast.Or):
            return all(bound_in(v) or small_base(v) for v in c.values)
        if isinstance(c, ast.Compare):
            operands = [c.left] + list(c.comparators)
            for i, op in enumerate(c.ops):
                if isinstance(op, (ast.Lt, ast.LtE)):
                    txt = norm(operands[i])
                    if all(m in txt for m in mentions) and not any(m in norm(operands[i + 1]) for m in mentions):
                        return True
        return False

    def small_base(c) -> bool:
        # abs(left) <= 1 : the power of -1, 0, 1 stays tiny whatever the exponent
        return isinstance(c, ast.Compare) and norm(c.left).startswith("abs(") and isinstance(c.ops[0], (ast.LtE, ast.Lt)) and isinstance(c.comparators[0], ast.Constant) and c.comparators[0].value <= 2

    return any(bound_in(c) for c in conj)


def excludes_zero_base(conj, name: str) -> bool:
    def ex(c) -> bool:
        if isinstance(c, ast.BoolOp) and isinstance(c.op, ast.Or):
            return all(ex(v) for v in c.values)
        if isinstance(c, ast.BoolOp) and isinstance(c.op, ast.And):
            return any(ex(v) for v in c.values)
        if isinstance(c, ast.Compare) and isinstance(c.left, ast.Name) and c.left.id == name and len(c.ops) == 1 and is_zero(c.comparators[0]):
            return isinstance(c.ops[0], (ast.Gt, ast.Lt, ast.NotEq))
        return False
    return any(ex(c) for c in conj)


def negative_base_needs_int_exponent(conj, base: str, exp: str) -> bool:
    """(base < 0 and isinstance(exp, int)) or base > 0 — no complex result."""
    def ok(c) -> bool:
        if isinstance(c, ast.BoolOp) and isinstance(c.op, ast.Or):
            return all(ok(v) for v in c.values)
        if isinstance(c, ast.Compare) and isinstance(c.left, ast.Name) and c.left.id == base and is_zero(c.comparators[0]) and isinstance(c.ops[0], (ast.Gt, ast.GtE)):
            return True
        if isinstance(c, ast.BoolOp) and isinstance(c.op, ast.And):
            neg = any(isinstance(v, ast.Compare) and isinstance(v.left, ast.Name) and v.left.id == base and isinstance(v.ops[0], ast.Lt) for v in c.values)
            isint = any(norm(v) == f"isinstance({exp}, int)" for v in c.values)
            if neg and isint:
                return True
            return any(ok(v) for v in c.values if not (isinstance(v, ast.Compare) and isinstance(v.ops[0], ast.Lt)))
        return False
    return any(ok(c) for c in conj)


def check_folder(f: FuncInfo, r3) -> None:
    params = {a.arg for a in f.params}
    for n in walk_no_nested(f.node):
        if not isinstance(n, ast.BinOp):
            continue
        if not (isinstance(n.left, ast.Name) and isinstance(n.right, ast.Name) and n.left.id in params and n.right.id in params):
            continue
        conj, handlers = guard_chain(f, n, early_exits=True)
        L, R = n.left.id, n.right.id
        lt, rt = operand_types(f, L, conj), operand_types(f, R, conj)
        ints = lt <= {"int", "bool"} and rt <= {"int", "bool"} and lt and rt
        floaty = bool((lt | rt) & {"float"}) and (lt | rt) <= {"int", "float", "bool"}
        complexy = bool((lt | rt) & {"complex"})
        seq = bool((lt | rt) & {"str", "bytes"})
        obligations: list[tuple[str, bool]] = []

        def caught(exc):
            return bool(handlers & CATCH[exc])

        op = type(n.op)
        if op in (ast.Div, ast.FloorDiv, ast.Mod) and (ints or floaty):
            obligations.append(("divisor != 0 (ZeroDivisionError)", has_cmp(conj, R, (ast.NotEq,), is_zero) or has_cmp(conj, R, (ast.Gt,), is_zero) or caught("ZeroDivisionError")))
        if op is ast.Div and ints:
            obligations.append(("OverflowError of int/int true division (result too large for a float)", caught("OverflowError")))
        if floaty and op in (ast.Add, ast.Sub, ast.Mult, ast.Div, ast.FloorDiv, ast.Mod, ast.Pow) and ("int" in lt or "int" in rt or op in (ast.Pow, ast.Mult)):
            obligations.append(("OverflowError (int operand too large for float, or float result out of range)", caught("OverflowError")))
        if complexy and op in (ast.Add, ast.Sub, ast.Mult) and ("int" in (lt | rt)):
            obligations.append(("OverflowError (int operand too large to convert for complex arithmetic)", caught("OverflowError")))
        if op in (ast.LShift, ast.RShift) and ints:
            obligations.append(("shift count >= 0 (ValueError)", has_cmp(conj, R, (ast.GtE, ast.Gt), lambda r: isinstance(r, ast.Constant)) or caught("ValueError")))
        if op is ast.LShift and ints:
            obligations.append(("upper bound on the shift count (result of unbounded size: time/memory)", bounded_above(conj, [R])))
        if op is ast.Pow and ints:
            obligations.append(("exponent >= 0 (negative exponent gives a float / ZeroDivisionError)", has_cmp(conj, R, (ast.GtE, ast.Gt), lambda r: isinstance(r, ast.Constant))))
            obligations.append(("upper bound on the size of the power (time/memory)", bounded_above(conj, [R])))
        if op is ast.Pow and floaty:
            obligations.append(("base != 0 for possibly negative exponent (ZeroDivisionError)", excludes_zero_base(conj, L) or caught("ZeroDivisionError")))
            obligations.append(("negative base only with int exponent (complex result)", negative_base_needs_int_exponent(conj, L, R)))
        if op is ast.Mult and seq:
            obligations.append(("upper bound on the repeated sequence length (MemoryError / unbounded time)", bounded_above(conj, ["len("])))
            count = L if lt <= {"int", "bool"} else R

            def name_bounded(c) -> bool:
                if isinstance(c, ast.BoolOp) and isinstance(c.op, ast.And):
                    return any(name_bounded(v) for v in c.values)
                if isinstance(c, ast.Compare):
                    operands = [c.left] + list(c.comparators)
                    return any(isinstance(o, (ast.Lt, ast.LtE)) and is_count(operands[i]) for i, o in enumerate(c.ops))
                return False

            def is_count(e, magnitude_only=False) -> bool:
                if isinstance(e, ast.Call) and isinstance(e.func, ast.Name) and e.func.id == "abs" and len(e.args) == 1:
                    return isinstance(e.args[0], ast.Name) and e.args[0].id == count
                return not magnitude_only and isinstance(e, ast.Name) and e.id == count

            def bounded_below(c) -> bool:
                if isinstance(c, ast.BoolOp) and isinstance(c.op, ast.And):
                    return any(bounded_below(v) for v in c.values)
                if isinstance(c, ast.Compare):
                    operands = [c.left] + list(c.comparators)
                    for i, o in enumerate(c.ops):
                        if isinstance(o, (ast.Lt, ast.LtE)) and is_count(operands[i], magnitude_only=True):
                            return True  # abs(count) <= bound
                        if isinstance(o, (ast.Lt, ast.LtE)) and is_count(operands[i + 1]) and not is_count(operands[i + 1], magnitude_only=True):
                            return True  # bound <= count
                        if isinstance(o, (ast.Gt, ast.GtE)) and is_count(operands[i]) and not is_count(operands[i], magnitude_only=True):
                            return True  # count >= bound
                return False
            obligations.append(("upper bound on the repetition count itself (OverflowError: the count must fit an index even when the sequence is empty)", any(name_bounded(c) for c in conj) or caught("OverflowError")))
            obligations.append(("lower bound on the repetition count (OverflowError for a count below -2**63, although the result is empty)", any(bounded_below(c) for c in conj) or caught("OverflowError")))
        for what, ok in obligations:
            key = f"{f.qualname}: {norm(n)} [{'/'.join(sorted(lt))} , {'/'.join(sorted(rt))}] needs {what}"
            if ok:
                r3.ok(key, f.loc(n))
            else:
                r3.violation(key, f.loc(n), f"`{norm(n)}` on folded user constants is not guarded: {what}")


def run_kind_predicates(chk: Check, ix) -> None:
    """R12.4: argument-kind tests in call binding agree with Python's binding rules (six-value domain, evaluated exhaustively)."""
    from ..kinds import KINDS, KindEval, kind_subjects
    from ..cfg import branch_conditions
    r4 = chk.rule("R12.4", "call binding: (a) a keyword-only formal may be fed only by a keyword or ** actual, so the `too many positional arguments` branch of check_argument_count fires for exactly the positional actual kinds {ARG_POS, ARG_STAR}; (b) the case split of map_actuals_to_formals over the actual kind covers all four actual kinds; (c) a missing required formal is reported for exactly the required kinds, as positional/named by its kind", floor=4)
    KE = KindEval(ix)
    ACTUAL = {"ARG_POS", "ARG_STAR", "ARG_NAMED", "ARG_STAR2"}
    cac = ix.func("mypy.checkexpr.ExpressionChecker.check_argument_count")
    par = cac.module.parents()
    sites = [c for c in ast.walk(cac.node) if isinstance(c, ast.Call) and call_name(c) == "too_many_positional_arguments"]
    if not sites:
        raise AnalysisError("check_argument_count: too_many_positional_arguments site not found")
    for c in sites:
        st = c
        while not isinstance(st, ast.stmt):
            st = par[st]
        pos, neg = branch_conditions(par, cac.node, st)
        formal_ok = False
        actual_ts = None
        for t in pos:
            subs = kind_subjects(t)
            if len(subs) != 1:
                continue
            sub = next(iter(subs))
            try:
                ts = KE.truth_set(t, sub)
            except AnalysisError:
                continue
            if "actual" in sub:
                actual_ts = (ts & ACTUAL) if actual_ts is None else (actual_ts & ts)
            elif ts == frozenset({"ARG_NAMED", "ARG_NAMED_OPT"}):
                formal_ok = True
        key = "check_argument_count: a positional or * actual mapped to a keyword-only formal is rejected"
        if formal_ok and actual_ts == frozenset({"ARG_POS", "ARG_STAR"}):
            r4.ok(key, cac.loc(c))
        else:
            r4.violation(key, cac.loc(c), f"the branch reporting `too many positional arguments` is taken for actual kinds {sorted(actual_ts) if actual_ts is not None else None} (formal keyword-only test found: {formal_ok}); Python binds a keyword-only parameter only from a keyword or ** argument, so the branch must cover exactly ARG_POS and ARG_STAR (e.g. items of a *tuple running on into keyword-only parameters must be rejected: CPython raises TypeError)")
    # (c) missing required formal
    miss = [c for c in ast.walk(cac.node) if isinstance(c, ast.Call) and call_name(c) in ("too_few_arguments", "missing_named_argument")]
    for c in miss:
        st = c
        while not isinstance(st, ast.stmt):
            st = par[st]
        pos, neg = branch_conditions(par, cac.node, st)
        sets = []
        for t, positive in [(x, True) for x in pos] + [(x, False) for x in neg]:
            subs = kind_subjects(t)
            if len(subs) == 1:
                try:
                    ts = KE.truth_set(t, next(iter(subs)))
                    sets.append(ts if positive else frozenset(KINDS) - ts)
                except AnalysisError:
                    pass
        if not sets:
            continue  # the ParamSpec branch: not a kind decision
        eff = frozenset(KINDS)
        for x in sets:
            eff &= x
        want = frozenset({"ARG_POS"}) if call_name(c) == "too_few_arguments" else frozenset({"ARG_NAMED"})
        key = f"check_argument_count: {call_name(c)} reported for formal kinds {sorted(want)}"
        if eff == want:
            r4.ok(key, cac.loc(c))
        else:
            r4.violation(key, cac.loc(c), f"reported for formal kinds {sorted(eff)}: a missing required {'positional' if 'few' in call_name(c) else 'keyword-only'} parameter is reported wrongly or not at all")
    # (b) exhaustive case split over the actual kind
    maf = ix.func("mypy.argmap.map_actuals_to_formals")
    loops = [l for l in ast.walk(maf.node) if isinstance(l, ast.For) and "actual_kinds" in norm(l.iter)]
    if not loops:
        raise AnalysisError("map_actuals_to_formals: loop over actual kinds not found")
    lp = loops[0]
    chain = [x for x in lp.body if isinstance(x, ast.If)]
    covered = set()
    n_arms = 0
    cur = chain[0] if chain else None
    while cur is not None:
        subs = kind_subjects(cur.test)
        if len(subs) == 1:
            try:
                covered |= KE.truth_set(cur.test, next(iter(subs))) & ACTUAL
                n_arms += 1
            except AnalysisError:
                pass
        nxt = cur.orelse
        if len(nxt) == 1 and isinstance(nxt[0], ast.If):
            cur = nxt[0]
        else:
            if nxt:
                covered |= ACTUAL  # a final else arm takes the rest
            cur = None
    key = "map_actuals_to_formals: the case split on the actual kind covers ARG_POS, ARG_STAR, ARG_NAMED and ARG_STAR2"
    if covered >= ACTUAL and n_arms >= 3:
        r4.ok(key, maf.loc(lp))
    else:
        r4.violation(key, maf.loc(lp), f"actual kinds {sorted(ACTUAL - covered)} fall through the case split: such arguments are mapped to no formal and neither checked nor reported")


FALSY_VALUED = ("int", "float", "str", "bool", "ConstantValue", "complex", "bytes")


def _optional_falsy(ann: ast.expr | None) -> bool:
    """Does the annotation admit both None and a type with a falsy non-None value (0, '', False)?"""
    if ann is None:
        return False
    names = {n.id for n in ast.walk(ann) if isinstance(n, ast.Name)} | {n.value for n in ast.walk(ann) if isinstance(n, ast.Constant) and isinstance(n.value, str)}
    has_none = any(isinstance(n, ast.Constant) and n.value is None for n in ast.walk(ann)) or "Optional" in names
    return has_none and bool(names & set(FALSY_VALUED))


def run_optional_truthiness(chk: Check, ix) -> None:
    """R12.5: in the compile-time evaluators, `None` (not a constant / omitted) is told apart from 0 by identity, never by truthiness."""
    r5 = chk.rule("R12.5", "in the compile-time evaluators (mypy/reachability.py, mypy/constant_fold.py) a value that may be None or a number/string constant (the result of a helper annotated `... | None`, or a piece of it) is never used for its truth value (`x or d`, `x and y`, `not x`, `if x:`): 0, '' and an omitted bound would be conflated, so sys.version_info[0:0] would be evaluated as sys.version_info[0:2] and `0 + x` folded as not-a-constant", floor=6)
    mods = [ix.modules[m] for m in ("mypy.reachability", "mypy.constant_fold")]
    for mod in mods:
        for f in sorted((f for f in ix.functions.values() if f.module is mod and f.parent is None), key=lambda f: f.node.lineno):
            tainted: dict[str, str] = {}
            for a in f.node.args.args + f.node.args.kwonlyargs:
                if _optional_falsy(a.annotation):
                    tainted[a.arg] = f"parameter {a.arg}: {norm(a.annotation)}"

            def src_of(e: ast.expr) -> str | None:
                if isinstance(e, ast.Name):
                    return tainted.get(e.id)
                if isinstance(e, ast.Subscript):
                    return src_of(e.value)
                if isinstance(e, ast.Call):
                    cal = ix.functions.get(f"{mod.name}.{call_name(e)}") if isinstance(e.func, ast.Name) else None
                    if cal is not None and _optional_falsy(cal.node.returns):
                        return f"{cal.name}() -> {norm(cal.node.returns)}"
                return None

            changed = True
            while changed:
                changed = False
                for n in walk_no_nested(f.node):
                    if isinstance(n, ast.Assign) and len(n.targets) == 1:
                        s = src_of(n.value)
                        if s is None:
                            continue
                        t = n.targets[0]
                        for nm in ([t] if isinstance(t, ast.Name) else list(t.elts) if isinstance(t, (ast.Tuple, ast.List)) else []):
                            if isinstance(nm, ast.Name) and nm.id not in tainted:
                                tainted[nm.id] = s
                                changed = True
            # a name is cleared once it has been re-bound from a non-optional value under an `is None` test;
            # truthiness of it is still wrong before that, so no flow refinement: flag every truth-value use.
            def truth_uses(n: ast.AST):
                if isinstance(n, ast.BoolOp):
                    yield from n.values
                elif isinstance(n, ast.UnaryOp) and isinstance(n.op, ast.Not):
                    yield n.operand
                elif isinstance(n, (ast.If, ast.While, ast.IfExp, ast.Assert)):
                    yield n.test
            flagged = set()
            for n in walk_no_nested(f.node):
                for u in truth_uses(n):
                    s = src_of(u) if isinstance(u, (ast.Name, ast.Subscript, ast.Call)) else None
                    if s is not None and id(u) not in flagged:
                        flagged.add(id(u))
                        r5.violation(f"{f.qualname}: `{norm(u)}` is not used for its truth value", f.loc(u), f"`{norm(u)}` ({s}) is tested by truthiness in `{norm(n)[:70]}`: the constant 0 (or '') is treated like None / omitted")
            uses = [n for n in walk_no_nested(f.node) if isinstance(n, ast.Compare) and len(n.ops) == 1 and isinstance(n.ops[0], (ast.Is, ast.IsNot)) and isinstance(n.comparators[0], ast.Constant) and n.comparators[0].value is None and src_of(n.left) is not None]
            for u in uses:
                r5.ok(f"{f.qualname}: `{norm(u)}` distinguishes None by identity", f.loc(u))


def run_by_name_binding(chk: Check, ix) -> None:
    """R12.6: a name (explicit keyword or TypedDict key) never binds to the `*args` formal of the same name."""
    from ..cfg import branch_conditions
    from ..kinds import KindEval, kind_subjects
    r6 = chk.rule("R12.6", "map_actuals_to_formals: every site that binds an actual to the formal *found by name* (`formal_to_actual[formal_names.index(name)].append(ai)`) is conditional on that formal's kind not being ARG_STAR — `def g(*a)` has no parameter that a keyword `a` can fill (CPython: unexpected keyword argument); the explicit-keyword arm and the **TypedDict arm are siblings and must agree", floor=2)
    KE = KindEval(ix)
    maf = ix.func("mypy.argmap.map_actuals_to_formals")
    par = maf.module.parents()
    sites = []
    for c in ast.walk(maf.node):
        if isinstance(c, ast.Call) and isinstance(c.func, ast.Attribute) and c.func.attr == "append" and isinstance(c.func.value, ast.Subscript):
            idx = c.func.value.slice
            if isinstance(idx, ast.Call) and norm(idx.func).endswith("formal_names.index"):
                sites.append((c, norm(idx)))
    if len(sites) < 2:
        raise AnalysisError(f"map_actuals_to_formals: {len(sites)} by-name binding sites found (expected the keyword arm and the TypedDict arm)")
    for c, idx_text in sites:
        st = c
        while not isinstance(st, ast.stmt):
            st = par[st]
        pos, neg = branch_conditions(par, maf.node, st)
        arm = "TypedDict-key" if any("TypedDictType" in norm(t) for t in pos) else "explicit-keyword"
        key = f"map_actuals_to_formals: the {arm} arm binds by name only to a formal that is not *args"
        excluded = False
        atoms = []
        for t in pos:
            atoms += t.values if isinstance(t, ast.BoolOp) and isinstance(t.op, ast.And) else [t]
        for t in atoms:
            if f"formal_kinds[{idx_text}]" not in norm(t):
                continue
            subs = kind_subjects(t)
            if len(subs) != 1:
                continue
            try:
                ts = KE.truth_set(t, next(iter(subs)))
            except AnalysisError:
                continue
            if "ARG_STAR" not in ts:
                excluded = True
        if excluded:
            r6.ok(key, maf.loc(c))
        else:
            r6.violation(key, maf.loc(c), f"the binding `formal_to_actual[{idx_text}].append(ai)` is reached under {[norm(t) for t in pos]}: no test excludes an ARG_STAR formal of that name, so `g(**td)` / `g(a=..)` for `def g(*a)` fills *a from a keyword (CPython raises TypeError: unexpected keyword argument; with a **kw formal present the value is also checked against the wrong type)")


def run_duplicate_exemptions(chk: Check, ix) -> None:
    """R12.7: an exemption from the duplicate-value check that rests on `the shape is unknown` looks at the type."""
    r7 = chk.rule("R12.7", "checkexpr.is_duplicate_mapping: each exemption clause for star actuals (`not (... ARG_STAR ... ARG_STAR2 ...)`) rests on the actual's shape being unknown when the call is checked, so it consults `actual_types` (a tuple and a TypedDict are of known shape: CPython raises `got multiple values for argument` when both supply the same parameter); the sibling clauses must agree on this", floor=2)
    f = ix.func("mypy.checkexpr.is_duplicate_mapping")
    rets = [n for n in ast.walk(f.node) if isinstance(n, ast.Return) and n.value is not None]
    if len(rets) != 1 or not (isinstance(rets[0].value, ast.BoolOp) and isinstance(rets[0].value.op, ast.And)):
        raise AnalysisError("is_duplicate_mapping: expected a single `return a and not (...) and not ...`")
    clauses = [v.operand for v in rets[0].value.values if isinstance(v, ast.UnaryOp) and isinstance(v.op, ast.Not)]
    star = [c for c in clauses if "ARG_STAR" in norm(c)]
    if len(star) < 2:
        raise AnalysisError(f"is_duplicate_mapping: {len(star)} star-actual exemption clauses found (expected 2)")
    for c in star:
        kinds = sorted({x.attr for x in ast.walk(c) if isinstance(x, ast.Attribute) and x.attr.startswith("ARG_")})
        key = f"is_duplicate_mapping: the exemption for {'/'.join(kinds)} actuals consults the actual types"
        if any(isinstance(x, ast.Name) and x.id == "actual_types" for x in ast.walk(c)):
            r7.ok(key, f.loc(c))
        else:
            r7.violation(key, f.loc(c), f"the clause `{norm(c)[:140]}` exempts the pair whatever the types of the actuals: a `*tuple` and a `**TypedDict` of known shape that both supply one parameter are accepted although CPython raises TypeError (the sibling clause does look for TypedDictType)")


def run_comparison_tables(chk: Check, ix) -> None:
    """R12.8: a static comparison of two values gives, for each spelled operator, what Python's operator gives."""
    r = chk.rule("R12.8", "reachability.fixed_comparison decides `sys.version_info[...] <op> literal` and `sys.platform <op> literal` for the configured target; its operands are totally ordered, so the function is evaluated abstractly over the three orderings of (left, right): whichever way it is written (a chain of `if op == '<'` branches, or locals such as `less = left < right` and a table from operator spellings to boolean expressions over them), each of the six operators must answer what Python's operator answers in each ordering", floor=6)
    f = ix.func("mypy.reachability.fixed_comparison")
    params = [a.arg for a in f.params]
    if len(params) != 3:
        raise AnalysisError("fixed_comparison: expected (left, op, right)")
    L, OP, R_ = params
    truth = {"==": lambda o: o == 0, "!=": lambda o: o != 0, "<": lambda o: o < 0, "<=": lambda o: o <= 0, ">": lambda o: o > 0, ">=": lambda o: o >= 0}
    cmpops = {ast.Eq: "==", ast.NotEq: "!=", ast.Lt: "<", ast.LtE: "<=", ast.Gt: ">", ast.GtE: ">="}
    local_defs = {}
    for a in f.node.body:
        if isinstance(a, ast.Assign) and len(a.targets) == 1 and isinstance(a.targets[0], ast.Name):
            local_defs[a.targets[0].id] = a.value

    class Unknown(Exception):
        pass

    def ev(e: ast.expr, o: int):
        if isinstance(e, ast.Constant) and isinstance(e.value, bool):
            return e.value
        if isinstance(e, ast.Name) and e.id in local_defs:
            return ev(local_defs[e.id], o)
        if isinstance(e, ast.UnaryOp) and isinstance(e.op, ast.Not):
            return not ev(e.operand, o)
        if isinstance(e, ast.BoolOp):
            vs = [ev(x, o) for x in e.values]
            return all(vs) if isinstance(e.op, ast.And) else any(vs)
        if isinstance(e, ast.Compare) and len(e.ops) == 1 and type(e.ops[0]) in cmpops:
            a, b = norm(e.left), norm(e.comparators[0])
            sym = cmpops[type(e.ops[0])]
            if (a, b) == (L, R_):
                return truth[sym](o)
            if (a, b) == (R_, L):
                return truth[sym](-o)
        if isinstance(e, ast.Subscript) and isinstance(e.value, ast.Name) and e.value.id in local_defs and isinstance(local_defs[e.value.id], ast.Dict):
            # rmap[left == right] with rmap = {False: ALWAYS_FALSE, True: ALWAYS_TRUE}
            d = local_defs[e.value.id]
            k = ev(e.slice, o)
            for kk, vv in zip(d.keys, d.values):
                if isinstance(kk, ast.Constant) and kk.value is k:
                    return norm(vv)
        if isinstance(e, ast.IfExp):
            return ev(e.body, o) if ev(e.test, o) else ev(e.orelse, o)
        if isinstance(e, ast.Name) and e.id in ("ALWAYS_TRUE", "ALWAYS_FALSE"):
            return e.id
        raise Unknown(norm(e)[:60])

    def as_bool(v):
        return {"ALWAYS_TRUE": True, "ALWAYS_FALSE": False}.get(v, v)
    found: dict[str, ast.expr] = {}
    # form 1: if-chain
    for i in f.node.body:
        if isinstance(i, ast.If) and isinstance(i.test, ast.Compare) and norm(i.test.left) == OP and isinstance(i.test.ops[0], ast.Eq) and isinstance(i.test.comparators[0], ast.Constant):
            rets = [s for s in i.body if isinstance(s, ast.Return) and s.value is not None]
            if rets:
                found[i.test.comparators[0].value] = rets[0].value
    # form 2: a table keyed by operator spellings
    for name, d in local_defs.items():
        if isinstance(d, ast.Dict) and d.keys and all(isinstance(k, ast.Constant) and k.value in truth for k in d.keys):
            for k, v in zip(d.keys, d.values):
                found.setdefault(k.value, v)
    if len(found) < 6:
        raise AnalysisError(f"fixed_comparison: operators recognised: {sorted(found)}; the rule cannot read the new shape of the function")
    names = {-1: "left < right", 0: "left == right", 1: "left > right"}
    for sym in sorted(truth):
        key = f"fixed_comparison: operator {sym!r} is decided like Python's {sym}"
        try:
            wrong = [o for o in (-1, 0, 1) if as_bool(ev(found[sym], o)) is not truth[sym](o)]
        except Unknown as u:
            raise AnalysisError(f"fixed_comparison: cannot evaluate `{u}` for operator {sym!r}")
        if not wrong:
            r.ok(key, f.loc(found[sym]))
        else:
            r.violation(key, f.loc(found[sym]), f"for {names[wrong[0]]} the entry `{norm(found[sym])[:60]}` answers {not truth[sym](wrong[0])}, Python's `{sym}` answers {truth[sym](wrong[0])}: `if sys.version_info[:2] {sym} (3, 12)` on target 3.12 marks the branch that runs as unreachable")


TRUTH_CODES = {"ALWAYS_TRUE": True, "MYPY_TRUE": True, "ALWAYS_FALSE": False, "MYPY_FALSE": False, "TRUTH_VALUE_UNKNOWN": None}


def run_boolean_combination_tables(chk: Check, ix) -> None:
    """R12.9: the static value of `a or b` / `a and b` never claims more than three-valued logic gives."""
    r9 = chk.rule("R12.9", "reachability.infer_condition_value combines the static values of the operands of `or` / `and` with two if-chains over `left`, `right` and `results = {left, right}`. The five codes stand for what the condition is *under mypy* (ALWAYS_TRUE, MYPY_TRUE: true; ALWAYS_FALSE, MYPY_FALSE: false; TRUTH_VALUE_UNKNOWN: not known). Each chain is evaluated for all 25 operand pairs: whenever it answers true (false), Kleene's three-valued `or` / `and` of the operands' values is true (false); answering unknown is always allowed. Otherwise a branch that can be taken at run time (`sys.platform == 'win32' or flag` on linux) is treated as unreachable and not checked", floor=2)
    f = ix.func("mypy.reachability.infer_condition_value")
    chains: dict[str, ast.If] = {}
    for i in ast.walk(f.node):
        if isinstance(i, ast.If) and isinstance(i.test, ast.Compare) and norm(i.test.left).endswith(".op") and isinstance(i.test.ops[0], ast.Eq) and isinstance(i.test.comparators[0], ast.Constant) and i.test.comparators[0].value in ("or", "and"):
            if i.body and isinstance(i.body[0], ast.If):
                chains[i.test.comparators[0].value] = i.body[0]
    if set(chains) != {"or", "and"}:
        raise AnalysisError(f"infer_condition_value: if-chains found for {sorted(chains)} (expected `or` and `and`)")

    class NoEval(Exception):
        pass

    def ev(e: ast.expr, env):
        if isinstance(e, ast.Name):
            if e.id in env:
                return env[e.id]
            if e.id in TRUTH_CODES:
                return e.id
        if isinstance(e, ast.Set):
            return {ev(x, env) for x in e.elts}
        if isinstance(e, ast.Tuple):
            return tuple(ev(x, env) for x in e.elts)
        if isinstance(e, ast.UnaryOp) and isinstance(e.op, ast.Not):
            return not ev(e.operand, env)
        if isinstance(e, ast.BoolOp):
            vs = [ev(x, env) for x in e.values]
            return all(vs) if isinstance(e.op, ast.And) else any(vs)
        if isinstance(e, ast.Compare):
            vals = [ev(e.left, env)] + [ev(c, env) for c in e.comparators]
            ok = True
            for a, o, b in zip(vals, e.ops, vals[1:]):
                if isinstance(o, ast.Eq):
                    ok = ok and a == b
                elif isinstance(o, ast.NotEq):
                    ok = ok and a != b
                elif isinstance(o, ast.In):
                    ok = ok and a in b
                elif isinstance(o, ast.NotIn):
                    ok = ok and a not in b
                elif isinstance(o, ast.LtE):
                    ok = ok and a <= b
                elif isinstance(o, ast.GtE):
                    ok = ok and a >= b
                else:
                    raise NoEval(norm(e)[:60])
            return ok
        raise NoEval(norm(e)[:60])

    def run_chain(node: ast.If, env):
        cur = node
        while True:
            if ev(cur.test, env):
                rets = [s_ for s_ in cur.body if isinstance(s_, ast.Return)]
                if len(cur.body) == 1 and rets and isinstance(rets[0].value, ast.Name):
                    return rets[0].value.id
                raise NoEval(f"arm `{norm(cur.test)[:40]}` does not return a code")
            if len(cur.orelse) == 1 and isinstance(cur.orelse[0], ast.If):
                cur = cur.orelse[0]
            elif not cur.orelse:
                return "TRUTH_VALUE_UNKNOWN"
            else:
                rets = [s_ for s_ in cur.orelse if isinstance(s_, ast.Return)]
                if rets and isinstance(rets[0].value, ast.Name):
                    return rets[0].value.id
                raise NoEval("else arm does not return a code")

    def kleene(op, a, b):
        if op == "or":
            return True if (a is True or b is True) else False if (a is False and b is False) else None
        return False if (a is False or b is False) else True if (a is True and b is True) else None

    for op, chain in sorted(chains.items()):
        wrong = []
        try:
            for l in TRUTH_CODES:
                for r_ in TRUTH_CODES:
                    got = run_chain(chain, {"left": l, "right": r_, "results": {l, r_}})
                    if got not in TRUTH_CODES:
                        raise NoEval(got)
                    claim, truth = TRUTH_CODES[got], kleene(op, TRUTH_CODES[l], TRUTH_CODES[r_])
                    if claim is not None and claim is not truth:
                        wrong.append(f"{l} {op} {r_} -> {got}")
        except NoEval as e:
            raise AnalysisError(f"infer_condition_value: cannot evaluate the `{op}` chain: {e}")
        key = f"infer_condition_value: the `{op}` table claims true/false only where three-valued logic does"
        if not wrong:
            r9.ok(key, f.loc(chain))
        else:
            r9.violation(key, f.loc(chain), f"{len(wrong)} operand pairs are decided although an operand that is not known statically can make the condition go the other way, e.g. {wrong[:3]}: the corresponding branch is marked unreachable and skipped by the checker")
