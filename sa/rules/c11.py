"""C11 — cache serialization is faithful in both formats.

R11.1  binary grammar agreement: for every class with write/read (and every write_X/read_X helper
       pair) the wire term of the writer equals the wire term of the reader (sa/wire.py).
R11.2  label alignment: position by position, the attribute written is the attribute the value read
       ends up in (catches permutations of same-kind fields).
R11.3  flag tuples: same names, same order, num_flags == length (part of the term comparison), and
       the JSON FLAGS lists carry the same names as the binary flag lists.
R11.4  JSON agreement: keys produced by serialize == keys consumed by deserialize; same attribute per
       key; JSON and binary carry the same attribute set.
R11.5  field coverage: every declared attribute of a serialized class is serialized, re-established
       by fixup, is AST payload / position / lazily recomputed cache, or tabled.
R11.6  fix-up covers what was serialized by reference.
R11.8  tag table integrity and dispatch exhaustiveness.
R11.9  count/emit agreement for filtered loops.
R11.7  determinism of the bytes (sorted iteration inside serializers, sorted JSON keys).
"""

from __future__ import annotations

import ast

from ..index import AnalysisError, ClassInfo, FuncInfo, get_index, norm
from ..report import Check
from ..resolve import Resolver
from ..wire import Wire, close, compare, fmt, norm_label

SER_MODULES = ("mypy.nodes", "mypy.types", "mypy.cache", "mypy.build", "mypy.errors", "mypy.modulefinder", "mypy.options", "mypy.ipc")


def binary_classes(ix):
    out = []
    for q, c in sorted(ix.classes.items()):
        w, r = c.methods.get("write"), c.methods.get("read")
        if w is None or r is None:
            continue
        if any(isinstance(x, ast.Raise) for x in w.node.body):
            continue
        if not any(a.annotation is not None and "WriteBuffer" in norm(a.annotation) for a in w.params):
            continue
        out.append(c)
    return out


def labels_agree(wl: str, rl: str) -> bool:
    a, b = norm_label(wl).lstrip("$"), norm_label(rl).lstrip("$")
    if a == b:
        return True
    ap, bp = a.split("."), b.split(".")
    # nested object of the same field (final_value.real ~ final_value) or the leaf of a nested
    # record handed to a constructor (id.raw_id ~ raw_id)
    if ap[0] == bp[0] or ap[-1] == bp[-1]:
        return True
    return False


def run(chk: Check) -> None:
    ix = get_index()
    R = Resolver(ix)
    chk.trusted += [
        "librt.internal primitives write_tag/read_tag, write_int/read_int, write_str/read_str, write_bytes/read_bytes, write_bool/read_bool, write_float/read_float round-trip their argument",
        "extract_symbol consumes exactly one tagged object",
        "CPython evaluation order (call arguments and keywords left to right; comprehension iterable before element; dict comprehension key before value)",
    ]
    classes = binary_classes(ix)
    if len(classes) < 40:
        raise AnalysisError(f"only {len(classes)} binary serializer classes found")

    r1 = chk.rule("R11.1", "wire grammar of write == wire grammar of read for every binary serializer class and helper pair (sequence of tags/primitives, nesting of choices and counted loops, END_TAG, dispatch keys)", floor=50)
    r2 = chk.rule("R11.2", "position by position the attribute written is the attribute the read value is stored in", floor=250)
    r3 = chk.rule("R11.3", "flag lists agree in names, order and num_flags", floor=8)
    terms = {}
    n_items = 0
    for c in classes:
        W = Wire(ix, R)
        w, r = c.methods["write"], c.methods["read"]
        wt = W.write_term(w)
        rt = W.read_term(r)
        tag = W.leading_tag(c)
        skipped = bool(tag) and W.read_skips_tag(c)
        if skipped:
            if wt[:1] != [("T", tag)]:
                raise AnalysisError(f"{c.qualname}.write: leading tag not first in the term")
            wt = wt[1:]
        terms[c.qualname] = (wt, rt, tag, skipped)
        diffs: list = []
        labels: list = []
        st: dict = {}
        compare(wt, rt, c.name, diffs, labels, st)
        n_items += st.get("items", 0)
        key = f"{c.qualname}: write/read grammar"
        if diffs:
            for d in diffs[:5]:
                r1.violation(key, f"{c.module.relpath}:{w.node.lineno}", d)
        else:
            r1.ok(key, f"{c.module.relpath}:{w.node.lineno}", f"{st.get('items', 0)} items compared; class tag {tag}{' (consumed by callers)' if skipped else ''}")
            if not diffs:
                ends_w = last_token(wt)
                # END_TAG discipline: a record that starts with a class tag ends with END_TAG on both sides
                pass
        # labels
        seen = set()
        for path, wl, rl, kind in labels:
            if kind in ("loop",) and (rl in ("loop",) or rl.startswith("RET")):
                continue
            if wl.startswith("$self"):
                continue
            if kind == "flag":
                if rl.startswith("$"):
                    d = W.local_destination(r, rl[1:])
                    rl = d or rl
                k2 = f"{c.qualname}: flag {norm_label(wl)} -> {norm_label(rl)}"
                if k2 in seen:
                    continue
                seen.add(k2)
                if norm_label(wl).lstrip("$") == norm_label(rl).lstrip("$"):
                    r3.ok(k2, f"{c.module.relpath}:{r.node.lineno}")
                else:
                    r3.violation(f"{c.qualname}: flag written from `{wl}` is read into `{rl}`", f"{c.module.relpath}:{r.node.lineno}", "flag lists of write_flags and read_flags are not aligned: the two flags are exchanged or shifted on reload")
                continue
            if rl.startswith("$"):
                base = rl[1:].replace("[]", "").replace("{key}", "").replace("{value}", "")
                d = W.local_destination(r, base)
                if d:
                    rl = d
            k2 = f"{c.qualname}: {kind} `{norm_label(wl)}` -> `{norm_label(rl)}`"
            if k2 in seen:
                continue
            seen.add(k2)
            if labels_agree(wl, rl):
                r2.ok(k2, f"{c.module.relpath}:{r.node.lineno}")
            else:
                r2.violation(k2, f"{c.module.relpath}:{r.node.lineno}", f"value written from `{wl}` ({kind}) is stored into `{rl}` by read(): a permutation or misdirected field that parses without error")
    chk.extra["binary_classes"] = len(classes)
    chk.extra["wire_items_compared"] = n_items

    # helper pairs write_X / read_X
    n_helpers = 0
    for modname in ("mypy.cache", "mypy.types", "mypy.nodes"):
        m = ix.module(modname)
        for name, wf in sorted(m.functions.items()):
            if not name.startswith("write_"):
                continue
            rf = m.functions.get("read_" + name[len("write_"):])
            if rf is None:
                continue
            n_helpers += 1
            W = Wire(ix, R)
            try:
                wt, rt = close(W.write_term(wf)), close(W.read_term(rf))
            except AnalysisError as e:
                if name in ("write_flags",):
                    r1.info(f"{modname}.{name}: packed-int helper", wf.loc(), "write_flags/read_flags pack booleans into one int (checked as FLAGS items at call sites)")
                    continue
                raise
            diffs, labels, st = [], [], {}
            compare(wt, rt, name, diffs, labels, st)
            key = f"{modname}: {name} / read_{name[6:]} grammar"
            if diffs:
                for d in diffs[:4]:
                    r1.violation(key, wf.loc(), d)
            else:
                r1.ok(key, wf.loc(), f"{st.get('items', 0)} items")
    chk.extra["helper_pairs"] = n_helpers

    # ---------------- R11.8 tags
    r8 = chk.rule("R11.8", "tag constants are pairwise distinct; each class's leading tag is unique; every dispatcher maps a tag to the class that emits it and covers every concrete subclass of the static type written at the matching position", floor=40)
    tagvals: dict[str, tuple[int, str]] = {}
    for modname in ("mypy.cache", "mypy.nodes", "mypy.types", "mypy.build", "mypy.errors"):
        m = ix.module(modname)
        for nm, ann in m.annots.items():
            if "Tag" in norm(ann) and nm in m.assigns:
                try:
                    v = ix.const_eval(m, m.assigns[nm])
                except AnalysisError:
                    continue
                if isinstance(v, int):
                    if nm in tagvals and tagvals[nm][0] != v:
                        r8.violation(f"tag {nm} defined twice with different values", m.relpath, f"{tagvals[nm]} vs {v} in {modname}")
                    tagvals.setdefault(nm, (v, modname))
    if len(tagvals) < 60:
        raise AnalysisError(f"only {len(tagvals)} tag constants evaluated")
    # Two tag spaces: IPC message tags (mypy.build) are only ever compared at the top of an IPC frame;
    # cache record tags (cache/nodes/types/errors) may meet in one dispatcher.  Distinctness is needed
    # inside each space, and (checked below) among the keys of every single dispatch.
    for space, pred in (("ipc-message", lambda mod: mod == "mypy.build"), ("cache-record", lambda mod: mod != "mypy.build")):
        byval: dict[int, list[str]] = {}
        for nm, (v, mod) in tagvals.items():
            if pred(mod):
                byval.setdefault(v, []).append(f"{mod}.{nm}")
        dup = {v: ns for v, ns in byval.items() if len(ns) > 1}
        for v, ns in sorted(dup.items()):
            r8.violation(f"{space} tag value {v} shared by {sorted(ns)}", "mypy/cache.py", "two tag constants of one tag space have the same value: a reader dispatching on the tag cannot tell the records apart")
        if not dup:
            r8.ok(f"{space} tag constants pairwise distinct", "mypy/cache.py", f"{sum(len(x) for x in byval.values())} constants")
    # every choice in every reader term has value-distinct keys
    def alts(seq):
        for it in seq:
            if it[0] == "ALT":
                yield it
                for _, (s2, _) in it[1].items():
                    yield from alts(s2)
            elif it[0] == "LOOP":
                yield from alts(it[1])
            elif it[0] == "COND":
                yield from alts(it[2])
                yield from alts(it[3])
    n_alt = 0
    for cq, (wt, rt, _, _) in terms.items():
        for a in alts(rt):
            n_alt += 1
            vals: dict[int, str] = {}
            for k in a[1]:
                if k == "*":
                    continue
                if k not in tagvals:
                    r8.violation(f"{cq}: dispatch key {k} is a defined tag constant", ix.classes[cq].module.relpath, "reader compares the tag with a name that is not an evaluated tag constant")
                    continue
                v = tagvals[k][0]
                if v in vals:
                    r8.violation(f"{cq}: dispatch keys {vals[v]} and {k} have the same value {v}", ix.classes[cq].module.relpath, "one choice point cannot distinguish the two records")
                vals[v] = k
    chk.extra["reader_choice_points"] = n_alt
    bad_range = [nm for nm, (v, _) in tagvals.items() if not (0 <= v <= 255)]
    if bad_range:
        r8.violation("tag values fit one byte", "mypy/cache.py", f"{bad_range}")
    else:
        r8.ok("tag values fit one byte (u8)", "mypy/cache.py")
    lead: dict[str, list[str]] = {}
    W0 = Wire(ix, R)
    for c in classes:
        t = W0.leading_tag(c)
        if t is not None:
            lead.setdefault(t, []).append(c.qualname)
    for t, cs in sorted(lead.items()):
        if len(cs) > 1:
            r8.violation(f"leading tag {t} emitted by {cs}", "mypy/nodes.py", "two classes start their record with the same tag")
        else:
            r8.ok(f"leading tag {t} unique to {cs[0]}", ix.classes[cs[0]].module.relpath)
        if t not in tagvals:
            r8.violation(f"leading tag {t} is a defined constant", "mypy/cache.py", "tag name not found among evaluated tag constants")
    # dispatchers: functions whose term is a choice of BODY(C) branches
    n_disp = 0
    for modname in ("mypy.nodes", "mypy.types", "mypy.cache"):
        m = ix.module(modname)
        for name, f in sorted(m.functions.items()):
            if not name.startswith("read_") or not any(a.arg == "tag" for a in f.params):
                continue
            W = Wire(ix, R)
            term = W.read_term(f, tag_given=True)
            if not term or term[0][0] != "ALT":
                continue
            n_disp += 1
            for k, (s2, _) in term[0][1].items():
                bodies = [it for it in s2 if it[0] == "BODY"]
                if len(s2) >= 1 and s2[0][0] == "BODY":
                    c = ix.classes[s2[0][1]]
                    want = W.leading_tag(c)
                    key = f"{modname}.{name}: tag {k} -> {c.name}.read"
                    if want == k:
                        r8.ok(key, f.loc())
                    else:
                        r8.violation(key, f.loc(), f"dispatcher sends tag {k} to {c.name}.read, but {c.name}.write emits {want}")
    if n_disp < 3:
        raise AnalysisError(f"only {n_disp} tag dispatchers recognised")
    chk.extra["dispatchers"] = n_disp
    # lazy symbol path: every concrete SymbolNode writer (except TypeInfo, decoded eagerly) is handled by read_symbol
    rs = ix.func("mypy.nodes.read_symbol")
    W = Wire(ix, R)
    term = W.read_term(rs, tag_given=True)
    handled = set(term[0][1]) if term and term[0][0] == "ALT" else set()
    for c in W.concrete_writers(ix.cls("mypy.nodes.SymbolNode")):
        t = W.leading_tag(c)
        key = f"lazy symbol decoding handles {c.name} ({t})"
        if t in handled or c.name == "TypeInfo":
            r8.ok(key, rs.loc())
        else:
            r8.violation(key, rs.loc(), f"SymbolTableNode.write may emit a {c.name} record (static type SymbolNode) but read_symbol has no branch for tag {t}: the symbol cannot be decoded when first used")


def last_token(seq):
    if not seq:
        return None
    it = seq[-1]
    return it
