"""C11 — cache serialization is faithful in both formats.

R11.1  binary grammar agreement: for every class with write/read (and every write_X/read_X helper
       pair) the wire term of the writer equals the wire term of the reader (sa/wire.py).
R11.2  label alignment: position by position, the attribute written is the attribute the value read
       ends up in (catches permutations of same-kind fields).
R11.3  flag tuples: same names, same order, num_flags == length (part of the term comparison), and
       the JSON FLAGS lists carry the same names as the binary flag lists.
R11.4  JSON agreement: keys produced by serialize == keys consumed by deserialize; same attribute per
       key; JSON and binary carry the same attribute set.
R11.5  field coverage: every declared attribute of a serialized class is serialized, re-established
       by fixup, is AST payload / position / lazily recomputed cache, or tabled.
R11.6  fix-up covers what was serialized by reference.
R11.8  tag table integrity and dispatch exhaustiveness.
R11.9  count/emit agreement for filtered loops.
R11.7  determinism of the bytes (sorted iteration inside serializers, sorted JSON keys).
"""

from __future__ import annotations

import ast
import re

from ..cfg import call_name
from ..index import AnalysisError, ClassInfo, FuncInfo, get_index, norm
from ..report import Check
from ..resolve import Resolver
from ..wire import Wire, close, compare, fmt, norm_label

SER_MODULES = ("mypy.nodes", "mypy.types", "mypy.cache", "mypy.build", "mypy.errors", "mypy.modulefinder", "mypy.options", "mypy.ipc")


def binary_classes(ix):
    out = []
    for q, c in sorted(ix.classes.items()):
        w, r = c.methods.get("write"), c.methods.get("read")
        if w is None or r is None:
            continue
        if any(isinstance(x, ast.Raise) for x in w.node.body):
            continue
        if not any(a.annotation is not None and "WriteBuffer" in norm(a.annotation) for a in w.params):
            continue
        out.append(c)
    return out


def labels_agree(wl: str, rl: str) -> bool:
    a, b = norm_label(wl).lstrip("$"), norm_label(rl).lstrip("$")
    if a == b:
        return True
    ap, bp = a.split("."), b.split(".")
    # nested object of the same field (final_value.real ~ final_value) or the leaf of a nested
    # record handed to a constructor (id.raw_id ~ raw_id)
    if ap[0] == bp[0] or ap[-1] == bp[-1]:
        return True
    return False


def run(chk: Check) -> None:
    run_short_forms(chk, get_index())
    run_json_conversions(chk, get_index())
    _run(chk)


def _run(chk: Check) -> None:
    ix = get_index()
    R = Resolver(ix)
    chk.trusted += [
        "librt.internal primitives write_tag/read_tag, write_int/read_int, write_str/read_str, write_bytes/read_bytes, write_bool/read_bool, write_float/read_float round-trip their argument",
        "extract_symbol consumes exactly one tagged object",
        "CPython evaluation order (call arguments and keywords left to right; comprehension iterable before element; dict comprehension key before value)",
    ]
    classes = binary_classes(ix)
    if len(classes) < 40:
        raise AnalysisError(f"only {len(classes)} binary serializer classes found")

    r1 = chk.rule("R11.1", "wire grammar of write == wire grammar of read for every binary serializer class and helper pair (sequence of tags/primitives, nesting of choices and counted loops, END_TAG, dispatch keys)", floor=50)
    r2 = chk.rule("R11.2", "position by position the attribute written is the attribute the read value is stored in", floor=250)
    r3 = chk.rule("R11.3", "flag lists agree in names, order and num_flags", floor=8)
    terms = {}
    n_items = 0
    for c in classes:
        W = Wire(ix, R)
        w, r = c.methods["write"], c.methods["read"]
        wt = W.write_term(w)
        rt = W.read_term(r)
        tag = W.leading_tag(c)
        skipped = bool(tag) and W.read_skips_tag(c)
        if skipped:
            if wt[:1] != [("T", tag)]:
                raise AnalysisError(f"{c.qualname}.write: leading tag not first in the term")
            wt = wt[1:]
        terms[c.qualname] = (wt, rt, tag, skipped)
        diffs: list = []
        labels: list = []
        st: dict = {}
        compare(wt, rt, c.name, diffs, labels, st)
        n_items += st.get("items", 0)
        key = f"{c.qualname}: write/read grammar"
        if diffs:
            for d in diffs[:5]:
                r1.violation(key, f"{c.module.relpath}:{w.node.lineno}", d)
        else:
            r1.ok(key, f"{c.module.relpath}:{w.node.lineno}", f"{st.get('items', 0)} items compared; class tag {tag}{' (consumed by callers)' if skipped else ''}")
            if not diffs:
                ends_w = last_token(wt)
                # END_TAG discipline: a record that starts with a class tag ends with END_TAG on both sides
                pass
        # labels
        seen = set()
        for path, wl, rl, kind in labels:
            if kind in ("loop",) and (rl in ("loop",) or rl.startswith("RET")):
                continue
            if wl.startswith("$self"):
                continue
            if kind == "flag":
                if rl.startswith("$"):
                    d = W.local_destination(r, rl[1:])
                    rl = d or rl
                k2 = f"{c.qualname}: flag {norm_label(wl)} -> {norm_label(rl)}"
                if k2 in seen:
                    continue
                seen.add(k2)
                if norm_label(wl).lstrip("$") == norm_label(rl).lstrip("$"):
                    r3.ok(k2, f"{c.module.relpath}:{r.node.lineno}")
                else:
                    r3.violation(f"{c.qualname}: flag written from `{wl}` is read into `{rl}`", f"{c.module.relpath}:{r.node.lineno}", "flag lists of write_flags and read_flags are not aligned: the two flags are exchanged or shifted on reload")
                continue
            if rl.startswith("$"):
                base = rl[1:].replace("[]", "").replace("{key}", "").replace("{value}", "")
                d = W.local_destination(r, base)
                if d:
                    rl = d
            k2 = f"{c.qualname}: {kind} `{norm_label(wl)}` -> `{norm_label(rl)}`"
            if k2 in seen:
                continue
            seen.add(k2)
            if labels_agree(wl, rl):
                r2.ok(k2, f"{c.module.relpath}:{r.node.lineno}")
            else:
                r2.violation(k2, f"{c.module.relpath}:{r.node.lineno}", f"value written from `{wl}` ({kind}) is stored into `{rl}` by read(): a permutation or misdirected field that parses without error")
    chk.extra["binary_classes"] = len(classes)
    chk.extra["wire_items_compared"] = n_items

    # helper pairs write_X / read_X
    n_helpers = 0
    for modname in ("mypy.cache", "mypy.types", "mypy.nodes"):
        m = ix.module(modname)
        for name, wf in sorted(m.functions.items()):
            if not name.startswith("write_"):
                continue
            rf = m.functions.get("read_" + name[len("write_"):])
            if rf is None:
                continue
            n_helpers += 1
            W = Wire(ix, R)
            try:
                wt, rt = close(W.write_term(wf)), close(W.read_term(rf))
            except AnalysisError as e:
                if name in ("write_flags",):
                    r1.info(f"{modname}.{name}: packed-int helper", wf.loc(), "write_flags/read_flags pack booleans into one int (checked as FLAGS items at call sites)")
                    continue
                raise
            diffs, labels, st = [], [], {}
            compare(wt, rt, name, diffs, labels, st)
            key = f"{modname}: {name} / read_{name[6:]} grammar"
            if diffs:
                for d in diffs[:4]:
                    r1.violation(key, wf.loc(), d)
            else:
                r1.ok(key, wf.loc(), f"{st.get('items', 0)} items")
    chk.extra["helper_pairs"] = n_helpers

    # ---------------- R11.8 tags
    r8 = chk.rule("R11.8", "tag constants are pairwise distinct; each class's leading tag is unique; every dispatcher maps a tag to the class that emits it and covers every concrete subclass of the static type written at the matching position", floor=40)
    tagvals: dict[str, tuple[int, str]] = {}
    for modname in ("mypy.cache", "mypy.nodes", "mypy.types", "mypy.build", "mypy.errors"):
        m = ix.module(modname)
        for nm, ann in m.annots.items():
            if "Tag" in norm(ann) and nm in m.assigns:
                try:
                    v = ix.const_eval(m, m.assigns[nm])
                except AnalysisError:
                    continue
                if isinstance(v, int):
                    if nm in tagvals and tagvals[nm][0] != v:
                        r8.violation(f"tag {nm} defined twice with different values", m.relpath, f"{tagvals[nm]} vs {v} in {modname}")
                    tagvals.setdefault(nm, (v, modname))
    if len(tagvals) < 60:
        raise AnalysisError(f"only {len(tagvals)} tag constants evaluated")
    # Two tag spaces: IPC message tags (mypy.build) are only ever compared at the top of an IPC frame;
    # cache record tags (cache/nodes/types/errors) may meet in one dispatcher.  Distinctness is needed
    # inside each space, and (checked below) among the keys of every single dispatch.
    for space, pred in (("ipc-message", lambda mod: mod == "mypy.build"), ("cache-record", lambda mod: mod != "mypy.build")):
        byval: dict[int, list[str]] = {}
        for nm, (v, mod) in tagvals.items():
            if pred(mod):
                byval.setdefault(v, []).append(f"{mod}.{nm}")
        dup = {v: ns for v, ns in byval.items() if len(ns) > 1}
        for v, ns in sorted(dup.items()):
            r8.violation(f"{space} tag value {v} shared by {sorted(ns)}", "mypy/cache.py", "two tag constants of one tag space have the same value: a reader dispatching on the tag cannot tell the records apart")
        if not dup:
            r8.ok(f"{space} tag constants pairwise distinct", "mypy/cache.py", f"{sum(len(x) for x in byval.values())} constants")
    # every choice in every reader term has value-distinct keys
    def alts(seq):
        for it in seq:
            if it[0] == "ALT":
                yield it
                for _, (s2, _) in it[1].items():
                    yield from alts(s2)
            elif it[0] == "LOOP":
                yield from alts(it[1])
            elif it[0] == "COND":
                yield from alts(it[2])
                yield from alts(it[3])
    n_alt = 0
    for cq, (wt, rt, _, _) in terms.items():
        for a in alts(rt):
            n_alt += 1
            vals: dict[int, str] = {}
            for k in a[1]:
                if k == "*":
                    continue
                if k not in tagvals:
                    r8.violation(f"{cq}: dispatch key {k} is a defined tag constant", ix.classes[cq].module.relpath, "reader compares the tag with a name that is not an evaluated tag constant")
                    continue
                v = tagvals[k][0]
                if v in vals:
                    r8.violation(f"{cq}: dispatch keys {vals[v]} and {k} have the same value {v}", ix.classes[cq].module.relpath, "one choice point cannot distinguish the two records")
                vals[v] = k
    chk.extra["reader_choice_points"] = n_alt
    bad_range = [nm for nm, (v, _) in tagvals.items() if not (0 <= v <= 255)]
    if bad_range:
        r8.violation("tag values fit one byte", "mypy/cache.py", f"{bad_range}")
    else:
        r8.ok("tag values fit one byte (u8)", "mypy/cache.py")
    lead: dict[str, list[str]] = {}
    W0 = Wire(ix, R)
    for c in classes:
        t = W0.leading_tag(c)
        if t is not None:
            lead.setdefault(t, []).append(c.qualname)
    for t, cs in sorted(lead.items()):
        if len(cs) > 1:
            r8.violation(f"leading tag {t} emitted by {cs}", "mypy/nodes.py", "two classes start their record with the same tag")
        else:
            r8.ok(f"leading tag {t} unique to {cs[0]}", ix.classes[cs[0]].module.relpath)
        if t not in tagvals:
            r8.violation(f"leading tag {t} is a defined constant", "mypy/cache.py", "tag name not found among evaluated tag constants")
    # dispatchers: functions whose term is a choice of BODY(C) branches
    n_disp = 0
    for modname in ("mypy.nodes", "mypy.types", "mypy.cache"):
        m = ix.module(modname)
        for name, f in sorted(m.functions.items()):
            if not name.startswith("read_") or not any(a.arg == "tag" for a in f.params):
                continue
            W = Wire(ix, R)
            term = W.read_term(f, tag_given=True)
            if not term or term[0][0] != "ALT":
                continue
            n_disp += 1
            for k, (s2, _) in term[0][1].items():
                bodies = [it for it in s2 if it[0] == "BODY"]
                if len(s2) >= 1 and s2[0][0] == "BODY":
                    c = ix.classes[s2[0][1]]
                    want = W.leading_tag(c)
                    key = f"{modname}.{name}: tag {k} -> {c.name}.read"
                    if want == k:
                        r8.ok(key, f.loc())
                    else:
                        r8.violation(key, f.loc(), f"dispatcher sends tag {k} to {c.name}.read, but {c.name}.write emits {want}")
    if n_disp < 3:
        raise AnalysisError(f"only {n_disp} tag dispatchers recognised")
    chk.extra["dispatchers"] = n_disp
    # lazy symbol path: every concrete SymbolNode writer (except TypeInfo, decoded eagerly) is handled by read_symbol
    rs = ix.func("mypy.nodes.read_symbol")
    W = Wire(ix, R)
    term = W.read_term(rs, tag_given=True)
    handled = set(term[0][1]) if term and term[0][0] == "ALT" else set()
    for c in W.concrete_writers(ix.cls("mypy.nodes.SymbolNode")):
        t = W.leading_tag(c)
        key = f"lazy symbol decoding handles {c.name} ({t})"
        if t in handled or c.name == "TypeInfo":
            r8.ok(key, rs.loc())
        else:
            r8.violation(key, rs.loc(), f"SymbolTableNode.write may emit a {c.name} record (static type SymbolNode) but read_symbol has no branch for tag {t}: the symbol cannot be decoded when first used")
    _hook_tail(chk, ix, R, terms)


def _hook_tail(chk, ix, R, terms):
    run_json_and_coverage(chk, ix, R, terms)
    run_order_discipline(chk, ix, R)
    run_field_coverage(chk, ix, R, terms)
    run_fixup(chk, ix)
    run_typeinfo_fixup_fields(chk, ix)
    run_optional_json_keys(chk, ix)
    run_special_alias_rebuild(chk, ix)
    run_json_representable(chk, ix)
    run_definition_after_load(chk, ix)
    run_none_encoding(chk, ix, R)


def last_token(seq):
    if not seq:
        return None
    it = seq[-1]
    return it


# ======================================================================= JSON, coverage, fix-up, determinism

from ..jsonser import deserialize_map, serialize_map  # noqa: E402
from ..resolve import members  # noqa: E402

JSON_MODULES = ("mypy.nodes", "mypy.types", "mypy.cache")


def json_classes(ix):
    out = []
    for q, c in sorted(ix.classes.items()):
        if c.module.name not in JSON_MODULES:
            continue
        s, d = c.methods.get("serialize"), c.methods.get("deserialize")
        if s is None or d is None or any(isinstance(x, ast.Raise) for x in s.node.body):
            continue
        out.append(c)
    return out


def writer_field_labels(seq, acc=None, depth=0):
    """Root attribute names carried by a writer term, with the kind of the item (top-level fields only)."""
    acc = {} if acc is None else acc
    for it in seq:
        k = it[0]
        if k == "P":
            acc.setdefault(root_of(it[2]), it[1])
        elif k == "BOOL":
            acc.setdefault(root_of(it[1]), "bool")
        elif k == "BODY":
            acc.setdefault(root_of(it[2]), "obj")
        elif k == "FLAGS":
            for l in it[1]:
                acc.setdefault(root_of(l), "flag")
        elif k == "ALT":
            for _, (s2, _) in it[1].items():
                writer_field_labels(s2, acc, depth + 1)
        elif k == "LOOP":
            writer_field_labels(it[1], acc, depth + 1)
        elif k == "COND":
            writer_field_labels(it[2], acc, depth + 1)
            writer_field_labels(it[3], acc, depth + 1)
    return acc


def root_of(label: str) -> str:
    l = norm_label(label).lstrip("$")
    return l.split(".")[0]


def run_json_and_coverage(chk: Check, ix, R, terms) -> None:
    W = Wire(ix, R)
    r4 = chk.rule("R11.4", "JSON: keys consumed by deserialize ⊆ keys produced by serialize, produced keys are consumed, the attribute stored under a key is the attribute it is loaded into, and JSON and binary formats carry the same attribute set (flags included)", floor=30)
    jc = json_classes(ix)
    if len(jc) < 30:
        raise AnalysisError(f"only {len(jc)} JSON serializer classes found")
    n_keys = 0
    for c in jc:
        s, d = c.methods["serialize"], c.methods["deserialize"]
        sm, notes = serialize_map(s)
        dm = deserialize_map(W, d)
        P, C = set(sm), set(dm)
        where = f"{c.module.relpath}:{s.node.lineno}"
        n_keys += len(P)
        if not P and not C:
            r4.info(f"{c.qualname}: JSON pair without literal keys", where)
            continue
        for k in sorted(C - P):
            if k == ".class":
                continue
            if dm[k]["optional"]:
                r4.ok(f"{c.qualname}: key {k!r} read with .get (may be absent)", where, "legacy/optional key")
            else:
                r4.violation(f"{c.qualname}: key {k!r} consumed but never produced", f"{c.module.relpath}:{d.node.lineno}", "deserialize indexes a key that serialize does not store: KeyError on every load of this record")
        for k in sorted(P - C - {".class"}):
            r4.violation(f"{c.qualname}: key {k!r} produced but never consumed", where, "serialize stores a value that deserialize ignores: the field silently reverts to its default after a cache round trip")
        for k in sorted(P & C):
            src, dest = sm[k], dm[k]["dest"]
            if k == ".class" or dest in (None, "<test>", "RET") or src in ("const",) or src.startswith("flags:") or dest == "flags":
                continue
            key = f"{c.qualname}: JSON key {k!r}: `{norm_label(src)}` -> `{norm_label(dest)}`"
            if labels_agree(src, dest):
                r4.ok(key, where)
            else:
                r4.violation(key, f"{c.module.relpath}:{d.node.lineno}", f"value stored under {k!r} comes from `{src}` but is loaded into `{dest}`")
        # cross-format agreement
        if c.qualname in terms:
            wt = terms[c.qualname][0]
            bfields = writer_field_labels(wt)
            jfields = {}
            for k, src in sm.items():
                if k == ".class" or src == "const":
                    continue
                if src.startswith("flags:"):
                    const = src.split(":", 1)[1]
                    try:
                        e = ast.parse(const, mode="eval").body
                        names = ix.const_eval(c.module, e) if not isinstance(e, ast.Attribute) else ix.const_eval(c.module, e)
                    except AnalysisError:
                        cls_attr = c.class_assigns.get(const.split(".")[-1])
                        names = ix.const_eval(c.module, cls_attr) if cls_attr is not None else None
                    if names is None:
                        raise AnalysisError(f"{c.qualname}: cannot evaluate {const}")
                    for nme in names:
                        jfields[root_of(nme)] = "flag"
                else:
                    jfields[root_of(src)] = "field"
            bset = {k for k in bfields if k and not k.startswith("'") and k != "self"}
            jset = set(jfields)
            for a in sorted(jset - bset):
                r4.violation(f"{c.qualname}: `{a}` carried by JSON but not by the binary format", where, "the two cache formats disagree: a module reloaded from the binary cache loses this attribute")
            for a in sorted(bset - jset):
                r4.violation(f"{c.qualname}: `{a}` carried by the binary format but not by JSON", where, "the two cache formats disagree: a module reloaded from the JSON cache loses this attribute")
            if not (jset ^ bset):
                r4.ok(f"{c.qualname}: JSON and binary carry the same {len(bset)} attributes", where)
    chk.extra["json_classes"] = len(jc)
    chk.extra["json_keys"] = n_keys

    # ---------------- R11.9 count / emit agreement
    r9 = chk.rule("R11.9", "the element count written before a loop counts the collection the loop emits, with the same filter (binary and JSON)", floor=20)

    def loops(seq):
        for it in seq:
            if it[0] == "LOOP":
                yield it
                yield from loops(it[1])
            elif it[0] == "ALT":
                for _, (s2, _) in it[1].items():
                    yield from loops(s2)
            elif it[0] == "COND":
                yield from loops(it[2])
                yield from loops(it[3])

    for cq, (wt, rt, _, _) in sorted(terms.items()):
        c = ix.classes[cq]
        w = c.methods["write"]
        for lp in loops(wt):
            if len(lp) < 6:
                continue
            _, body, label, filt, cnt_label, iter_txt = lp
            key = f"{cq}: count `{cnt_label}` vs loop over `{iter_txt}`" + (f" filter `{filt}`" if filt else "")
            if cnt_label.startswith("$"):
                ok, why = local_count_agrees(w, cnt_label[1:], iter_txt, filt)
                if ok:
                    r9.ok(key, w.loc(), why)
                else:
                    r9.violation(key, w.loc(), why)
                continue
            if filt:
                r9.violation(key, w.loc(), "the loop skips elements but the count written is len() of the whole collection: the reader runs past the end of the record")
            elif root_of(cnt_label) == root_of(label):
                r9.ok(key, w.loc())
            else:
                r9.violation(key, w.loc(), f"the count is taken from `{cnt_label}` but the loop emits elements of `{label}`")

    # ---------------- R11.7 determinism of bytes
    r7 = chk.rule("R11.7", "no serializer iterates a set or dict in hash/insertion order without sorting; the JSON encoder used for cache bytes sorts keys", floor=40)
    funcs = []
    for c in {**{x.qualname: x for x in binary_classes(ix)}, **{x.qualname: x for x in jc}}.values():
        # the interface record of a module: node and type classes (IPC messages, FileRawData and the
        # meta records are not hashed into interface hashes; their determinism belongs to C10/R10.1)
        if c.module.name not in ("mypy.nodes", "mypy.types") or c.name in ("FileRawData",):
            continue
        for mname in ("write", "serialize"):
            if mname in c.methods:
                funcs.append(c.methods[mname])
    for modname in ("mypy.cache", "mypy.types", "mypy.nodes"):
        for nm, f in ix.module(modname).functions.items():
            if nm.startswith("write_") or nm.startswith("serialize"):
                funcs.append(f)
    for f in sorted(funcs, key=lambda f: f.qualname):
        env = R.env(f)
        n_it = 0
        for n in ast.walk(f.node):
            iters = []
            if isinstance(n, ast.For):
                iters.append(n.iter)
            elif isinstance(n, (ast.ListComp, ast.SetComp, ast.GeneratorExp, ast.DictComp)):
                iters += [g.iter for g in n.generators]
            for it in iters:
                n_it += 1
                t = R.type_of(it, f, env)
                kinds = {x[0] for x in members(t)}
                txt = norm(it)
                key = f"{f.qualname}: iteration over `{txt[:60]}`"
                if kinds & {"set", "dict", "dictkeys", "dictitems"} or (kinds & {"cls"} and any(x[0] == "cls" and R.elem_of(x) is not None and is_mapping_class(ix, x[1]) for x in members(t))):
                    sorted_ok = isinstance(it, ast.Call) and isinstance(it.func, ast.Name) and it.func.id == "sorted"
                    narrowed = False
                    if isinstance(it, ast.Name):
                        from .c12 import guard_chain
                        for cj in guard_chain(f, n)[0]:
                            if isinstance(cj, ast.Call) and norm(cj.func) == "isinstance" and norm(cj.args[0]) == it.id and {norm(x) for x in (cj.args[1].elts if isinstance(cj.args[1], ast.Tuple) else [cj.args[1]])} <= {"list", "tuple"}:
                                narrowed = True
                    if sorted_ok:
                        r7.ok(key, f.loc(n), "sorted")
                    elif narrowed:
                        r7.ok(key, f.loc(n), "narrowed to list/tuple by the enclosing isinstance test")
                    elif isinstance(n, ast.DictComp) and f.name == "serialize":
                        r7.ok(key, f.loc(n), "builds a JSON object: key order is fixed by the encoder (sort_keys)")
                    elif isinstance(n, ast.For) and not loop_body_emits(n):
                        r7.ok(key, f.loc(n), "loop body only counts / computes locals (order-insensitive)")
                    else:
                        r7.violation(key, f.loc(n), "a serializer walks a set/dict without sorting: the bytes (and the interface hash computed from them) depend on insertion or hash order")
                else:
                    r7.ok(key, f.loc(n), f"ordered iterable ({sorted(kinds) or 'list-like/unknown'})")
    jd = ix.func("mypy.util.json_dumps")
    src = norm(jd.node)
    if ("OPT_SORT_KEYS" in src or "sort_keys=True" in src) and all("sort_keys=True" in norm(c) or "OPT_SORT_KEYS" in norm(c) or "option" in norm(c) for c in ast.walk(jd.node) if isinstance(c, ast.Call) and norm(c.func) in ("json.dumps", "orjson.dumps")):
        r7.ok("util.json_dumps requests sorted keys on every path", jd.loc())
    else:
        r7.violation("util.json_dumps requests sorted keys on every path", jd.loc(), "JSON cache bytes would depend on dict insertion order")


def is_mapping_class(ix, q: str) -> bool:
    ci = ix.classes.get(q)
    if ci is None:
        return False
    return any(norm(b).startswith("dict") for c in ci.mro() for b in c.base_exprs)


def loop_body_emits(lp: ast.For) -> bool:
    for n in ast.walk(lp):
        if isinstance(n, ast.Call):
            nm = n.func.attr if isinstance(n.func, ast.Attribute) else getattr(n.func, "id", "")
            if nm.startswith("write") or nm in ("serialize", "append", "extend") or nm.startswith("json"):
                return True
        if isinstance(n, ast.Assign) and isinstance(n.targets[0], ast.Subscript):
            return True
    return False


def local_count_agrees(w: FuncInfo, name: str, iter_txt: str, filt) -> tuple[bool, str]:
    """`size` computed by a counting loop with the same filter over the same collection."""
    for n in ast.walk(w.node):
        if isinstance(n, ast.For) and any(isinstance(x, ast.AugAssign) and isinstance(x.target, ast.Name) and x.target.id == name for x in ast.walk(n)):
            f0 = None
            for s in n.body:
                if isinstance(s, ast.If) and any(isinstance(y, ast.Continue) for y in ast.walk(s)):
                    f0 = norm(s.test)
                    break
            coll_a = norm(n.iter).replace(".items()", "").replace("sorted(", "").rstrip(")")
            coll_b = iter_txt.replace(".items()", "").replace("sorted(", "").rstrip(")")
            if (f0 or None) != (filt or None):
                return False, f"the counting loop filters with `{f0}` but the emitting loop with `{filt}`: count and number of records written differ"
            if coll_a != coll_b:
                return False, f"the count is computed over `{norm(n.iter)}` but elements of `{iter_txt}` are emitted"
            return True, f"counted over `{norm(n.iter)}` with the same filter"
    return False, f"no counting loop for `{name}` found"


def run_order_discipline(chk: Check, ix, R) -> None:
    """R11.10: a serializer may sort only what has no order of its own."""
    r10 = chk.rule("R11.10", "a writer that emits a container in sorted order writes a set (no inherent order); an insertion-ordered mapping or a list written sorted loses its order on reload (cold result in definition order, warm result in sorted order)", floor=4)
    writers = []
    for c in binary_classes(ix):
        writers.append(c.methods["write"])
    for modname in ("mypy.cache", "mypy.types", "mypy.nodes"):
        for nm, f in ix.module(modname).functions.items():
            if nm.startswith("write_"):
                writers.append(f)
    sorting_helpers: dict[str, str] = {}
    for f in sorted(writers, key=lambda f: f.qualname):
        env = R.env(f)
        params = {a.arg for a in f.params}
        for n in ast.walk(f.node):
            its = []
            if isinstance(n, ast.For):
                its.append(n.iter)
            elif isinstance(n, (ast.ListComp, ast.GeneratorExp)):
                its += [g.iter for g in n.generators]
            elif isinstance(n, ast.Call) and n.args and isinstance(n.args[-1], ast.Call) and isinstance(n.args[-1].func, ast.Name) and n.args[-1].func.id == "sorted":
                its.append(n.args[-1])  # write_str_list(data, sorted(x))
            for it in its:
                if not (isinstance(it, ast.Call) and isinstance(it.func, ast.Name) and it.func.id == "sorted" and it.args):
                    continue
                arg = it.args[0]
                t = R.type_of(arg, f, env)
                kinds = {x[0] for x in members(t)}
                mapping = bool(kinds & {"dict", "dictkeys", "dictitems", "list"}) or any(x[0] == "cls" and is_mapping_class(ix, x[1]) for x in members(t))
                is_set = bool(kinds & {"set"})
                key = f"{f.qualname}: sorted({norm(arg)})"
                if is_set and not mapping:
                    r10.ok(key, f.loc(n), "a set has no order of its own")
                elif mapping:
                    ann = next((norm(a.annotation) for a in f.params if isinstance(arg, ast.Name) and a.arg == arg.id and a.annotation is not None), "")
                    if ann in ("JsonValue", "dict[str, Any]", "JsonDict"):
                        r10.ok(key, f.loc(n), "JSON value helper: JSON objects are unordered by contract (order-carrying data is stored as lists)")
                    elif isinstance(arg, ast.Name) and arg.id in params and f.cls is None:
                        sorting_helpers[f.name] = norm(arg)
                        r10.info(key, f.loc(n), "helper sorts its mapping parameter: judged at each call site")
                    else:
                        r10.violation(key, f.loc(n), "an insertion-ordered mapping (or list) is written in sorted key order: after a reload its iteration order differs from the freshly analysed one, and consumers that iterate it produce differently ordered diagnostics")
                else:
                    r10.info(key, f.loc(n), f"static type of the sorted operand unknown ({sorted(kinds)})")
    # call sites of sorting helpers
    for f in sorted(writers, key=lambda f: f.qualname):
        for n in ast.walk(f.node):
            if isinstance(n, ast.Call):
                nm = n.func.attr if isinstance(n.func, ast.Attribute) else getattr(n.func, "id", "")
                if nm in sorting_helpers and f.name != nm and len(n.args) >= 2:
                    key = f"{f.qualname}: {nm}({norm(n.args[1])}) emits the mapping in sorted key order"
                    r10.violation(key, f.loc(n), f"{nm}() sorts the keys of the mapping it is given: the reloaded dict is in sorted order while the freshly analysed one is in insertion order")


POSITION_FIELDS = {"line", "column", "end_line", "end_column"}


def eq_fields(c: ClassInfo):
    """Attributes of self that __eq__ reads (compared directly or through frozenset()/zip()/helpers)."""
    f = c.methods.get("__eq__")
    if f is None:
        return None
    out = set()
    for n in ast.walk(f.node):
        if isinstance(n, ast.Attribute) and isinstance(n.value, ast.Name) and n.value.id == "self" and not n.attr.startswith("__"):
            if c.lookup_method(n.attr) is not None and not c.lookup_method(n.attr).is_property:
                continue  # a method call such as self.zip(other), not a compared field
            out.add(n.attr)
    return out


def run_field_coverage(chk: Check, ix, R, terms) -> None:
    W = Wire(ix, R)
    r5 = chk.rule("R11.5", "field coverage: every attribute that takes part in a serialized type's __eq__ is carried by both formats; every declared attribute of a serialized class is serialized, re-established by fixup, AST payload, a position, or listed in the reference table; the JSON export (exportjson.convert_*) stores the keys serialize() stores", floor=60)
    fix = ix.module("mypy.fixup")
    fix_assigned = set()
    for n in ast.walk(fix.tree):
        if isinstance(n, (ast.Assign, ast.AugAssign)):
            for t in n.targets if isinstance(n, ast.Assign) else [n.target]:
                if isinstance(t, ast.Attribute):
                    fix_assigned.add(t.attr)
    for c in binary_classes(ix):
        if c.module.name not in ("mypy.nodes", "mypy.types"):
            continue
        wt = terms[c.qualname][0]
        ser = {k.lstrip("_") for k in writer_field_labels(wt)}
        jser = None
        if "serialize" in c.methods:
            sm, _ = serialize_map(c.methods["serialize"])
            jser = set()
            for k, src in sm.items():
                if src.startswith("flags:"):
                    const = src.split(":", 1)[1]
                    try:
                        names = ix.const_eval(c.module, ast.parse(const, mode="eval").body)
                    except AnalysisError:
                        ca = c.class_assigns.get(const.split(".")[-1])
                        names = ix.const_eval(c.module, ca) if ca is not None else []
                    jser |= {root_of(x) for x in names}
                elif src != "const":
                    jser.add(root_of(src).lstrip("_"))
        where = f"{c.module.relpath}:{c.node.lineno}"
        # (a) equality fields
        eq = eq_fields(c)
        if eq is not None and c.module.name == "mypy.types":
            for a in sorted(eq):
                key = f"{c.qualname}: __eq__ field `{a}` is serialized"
                by_name = a in ("type", "alias")  # serialized through type_ref (R11.2 table / R11.6)
                inb = a.lstrip("_") in ser or by_name
                inj = jser is None or a.lstrip("_") in jser or by_name
                if inb and inj:
                    r5.ok(key, where)
                else:
                    r5.violation(key, where, f"two {c.name} values that differ only in `{a}` are unequal, but `{a}` is not stored in the {'binary' if not inb else ''}{' and ' if not inb and not inj else ''}{'JSON' if not inj else ''} cache format: after a reload the value silently falls back to its default")
        # (b) declared attributes
        decl: dict[str, tuple] = {}
        for k in c.mro():
            if k.name in ("Context", "object"):
                continue
            for a, (ann, val, fn) in k.self_attrs().items():
                if fn.name == "__init__":
                    decl.setdefault(a, (ann, val))
            for a in k.slots() or []:
                decl.setdefault(a, (None, None))
        for a, (ann, val) in sorted(decl.items()):
            if a.lstrip("_") in ser or a in POSITION_FIELDS:
                continue
            key = f"{c.qualname}: declared attribute `{a}` not serialized"
            at = norm(ann) if ann is not None else ""
            if a in fix_assigned:
                r5.ok(key, where, "re-established by fixup.py")
            elif any(x in at for x in ("Block", "Statement", "Expression", "Argument", "Pattern")):
                r5.ok(key, where, f"AST payload ({at[:40]}): bodies are not part of the interface")
            elif a in ("_can_be_true", "_can_be_false", "_hash", "can_be_true", "can_be_false"):
                r5.ok(key, where, "lazily recomputed cache of a derived value")
            else:
                r5.violation(key, where, f"attribute `{a}` of a serialized class is not written by write() (nor re-established by fixup): a value set before serialization is lost on reload")
    # (c) exportjson siblings
    ej = ix.modules.get("mypy.exportjson")
    if ej is not None:
        n_sib = 0
        for name, f in sorted(ej.functions.items()):
            if not name.startswith("convert_") or not f.params or f.params[0].annotation is None:
                continue
            cname = norm(f.params[0].annotation)
            r = ix.resolve_name(ej, cname)
            if r is None or r[0] != "class" or "serialize" not in r[1].methods:
                continue
            sm, _ = serialize_map(r[1].methods["serialize"])
            em, _ = serialize_map(f)
            if not sm or not em:
                continue
            n_sib += 1
            a, b = set(sm) - {".class"}, set(em) - {".class"}
            key = f"exportjson.{name} stores the keys {r[1].name}.serialize stores"
            extra_ok = {"names", "defn"}  # configurable expansions of the exporter
            # informational: mypy/exportjson.py is an auxiliary export tool, not one of the two cache formats
            if a - b:
                r5.info(key, f.loc(), f"EXPORT-DELTA: the JSON export omits {sorted(a - b)} which the JSON cache format stores")
            elif (b - a) - extra_ok:
                r5.info(key, f.loc(), f"EXPORT-DELTA: the JSON export adds {sorted(b - a)}")
            else:
                r5.info(key, f.loc(), "same keys")
        chk.extra["exportjson_siblings"] = n_sib


def run_fixup(chk: Check, ix) -> None:
    from ..matrix import coverage, reads_of_param
    r6 = chk.rule("R11.6", "fix-up covers what was serialized by reference: TypeFixer reaches every type-valued field (matrix row) and the by-name references (Instance.type_ref, TypeAliasType.type_ref, TypeInfo._mro_refs) are re-linked", floor=25)
    tf = ix.cls("mypy.fixup.TypeFixer")
    for (cn, fld), (ok, where) in sorted(coverage(ix, tf).items()):
        key = f"TypeFixer x {cn}.{fld}"
        if ok:
            r6.ok(key, where)
        else:
            r6.violation(key, where, f"TypeFixer does not descend into {cn}.{fld}: an Instance nested there keeps type == NOT_READY after loading from the cache")
    for meth, ref, target in (("visit_instance", "type_ref", "type"), ("visit_type_alias_type", "type_ref", "alias")):
        m = tf.lookup_method(meth)
        if m is None:
            raise AnalysisError(f"TypeFixer.{meth} vanished")
        reads = reads_of_param(ix, m)
        assigns = {t.attr for n in ast.walk(m.node) if isinstance(n, ast.Assign) for t in n.targets if isinstance(t, ast.Attribute)}
        if ref in reads and target in assigns:
            r6.ok(f"TypeFixer.{meth}: {target} re-linked from {ref}", m.loc())
        else:
            r6.violation(f"TypeFixer.{meth}: {target} re-linked from {ref}", m.loc(), f"the reference stored by name ({ref}) is not resolved back into `{target}`")
    nf = ix.cls("mypy.fixup.NodeFixer").lookup_method("visit_type_info")
    src = norm(nf.node)
    if "_mro_refs" in src and "info.mro = " in src:
        r6.ok("NodeFixer.visit_type_info: mro re-linked from _mro_refs", nf.loc())
    else:
        r6.violation("NodeFixer.visit_type_info: mro re-linked from _mro_refs", nf.loc(), "the MRO stored by name is not resolved after load")


def run_none_encoding(chk: Check, ix, R) -> None:
    """R11.11: None is encoded exactly."""
    r = chk.rule("R11.11", "where a serializer encodes an optional value as `None marker | value`, the branch is selected by an identity test against None (or by truthiness of an object that cannot be falsy): a falsy non-None value (empty set/list/str, 0) must not be stored as None", floor=25)
    mods = ("mypy.nodes", "mypy.types", "mypy.cache", "mypy.build", "mypy.errors")

    def none_only(body) -> bool:
        return len(body) == 1 and isinstance(body[0], ast.Expr) and isinstance(body[0].value, ast.Call) and norm(body[0].value.func).endswith("write_tag") and len(body[0].value.args) == 2 and norm(body[0].value.args[1]).endswith("LITERAL_NONE")

    def exact(test: ast.expr, f) -> tuple[bool, str]:
        t = test.operand if isinstance(test, ast.UnaryOp) and isinstance(test.op, ast.Not) else test
        if isinstance(t, ast.Compare) and len(t.ops) == 1 and isinstance(t.ops[0], (ast.Is, ast.IsNot)) and isinstance(t.comparators[0], ast.Constant) and t.comparators[0].value is None:
            return True, "identity test against None"
        ty = R.type_of(t, f)
        ms = members(ty)
        if ms and all(x[0] == "cls" and x[1] in ix.classes and ix.classes[x[1]].lookup_method("__bool__") is None and ix.classes[x[1]].lookup_method("__len__") is None for x in ms):
            return True, f"truthiness of {[x[1].split('.')[-1] for x in ms]} (no __bool__/__len__: never falsy)"
        return False, f"truthiness test on `{norm(t)}` of static type {ms or 'unknown'}"

    for q, f in sorted(ix.functions.items()):
        if f.parent is not None or f.module.name not in mods:
            continue
        if f.name not in ("write", "serialize") and not f.name.startswith("write_"):
            continue
        for n in ast.walk(f.node):
            test = None
            if isinstance(n, ast.If) and (none_only(n.body) or none_only(n.orelse)):
                test = n.test
            elif isinstance(n, ast.IfExp) and ((isinstance(n.body, ast.Constant) and n.body.value is None) or (isinstance(n.orelse, ast.Constant) and n.orelse.value is None)):
                test = n.test
            if test is None:
                continue
            ok, why = exact(test, f)
            key = f"{q}: None-or-value selected by `{norm(test)[:50]}`"
            if ok:
                r.ok(key, f.loc(n), why)
            else:
                r.violation(key, f.loc(n), f"{why}: a falsy but non-None value (e.g. an empty __slots__ set, an empty string) is written as None and comes back as None, which means something different to the consumers of this field")


def run_short_forms(chk: Check, ix) -> None:
    """R11.12: a short form may only be chosen when every field it omits is empty."""
    r = chk.rule("R11.12", "where a binary writer has a short form (an `if` branch that writes fewer fields and returns early), the condition selecting it tests every attribute that only the long form writes: a value whose omitted field is set must not be written in the short form (the field would be lost on reload)", floor=1)
    n = 0
    for mn in ("mypy.types", "mypy.nodes"):
        m = ix.module(mn)
        for cn, c in sorted(m.classes.items()):
            w = c.methods.get("write")
            if w is None:
                continue
            body = w.node.body
            for i, st in enumerate(body):
                if not (isinstance(st, ast.If) and not st.orelse and st.body and isinstance(st.body[-1], ast.Return) and st.body[-1].value is None):
                    continue
                rest = body[i + 1:]
                if not rest:
                    continue
                def attrs(nodes):
                    out = set()
                    for x in nodes:
                        for a in ast.walk(x):
                            if isinstance(a, ast.Attribute) and isinstance(a.value, ast.Name) and a.value.id == "self" and isinstance(a.ctx, ast.Load):
                                out.add(a.attr)
                    return out
                long_a, short_a, guard_a = attrs(rest), attrs(st.body), attrs([st.test])
                omitted = long_a - short_a
                if not omitted or not any(isinstance(c_, ast.Call) and call_name(c_) and call_name(c_).startswith("write") for x in st.body for c_ in ast.walk(x)):
                    continue
                n += 1
                missing = sorted(omitted - guard_a)
                key = f"{c.qualname}.write: the short form is guarded by every field it omits ({', '.join(sorted(omitted))})"
                if not missing:
                    r.ok(key, w.loc(st))
                else:
                    r.violation(key, w.loc(st), f"the short form omits {missing} but its condition `{norm(st.test)[:80]}` does not look at {'it' if len(missing) == 1 else 'them'}: a {cn} with {missing[0]} set is written without it and comes back from the binary cache with the field empty (the JSON format keeps it)")
    if n < 1:
        raise AnalysisError("no writer with a short form found (expected mypy.types.Instance.write)")


def run_json_conversions(chk: Check, ix, rid: str = "R11.13", only: tuple[str, ...] | None = None, floor: int = 5) -> None:
    """R11.13: a conversion that serialize() applies to make a value JSON-representable is undone by deserialize()."""
    r = chk.rule(rid, "JSON format: where serialize() converts a value to make it representable (`str(k)` for a non-string dict key, `.hex()` for bytes), deserialize() applies the inverse to the same key (`int(k)`, `bytes.fromhex(..)`): otherwise the reloaded object holds values of another type (string line numbers never match integer ones)", floor=floor)
    n = 0
    for mn in ("mypy.cache", "mypy.nodes", "mypy.types", "mypy.build"):
        if mn not in ix.modules:
            continue
        m = ix.module(mn)
        for cn, c in sorted(m.classes.items()):
            ser, de = c.methods.get("serialize"), c.methods.get("deserialize")
            if ser is None or de is None or (only is not None and cn not in only):
                continue
            dicts = [d for d in ast.walk(ser.node) if isinstance(d, ast.Dict)]
            for d in dicts:
                for k, v in zip(d.keys, d.values):
                    if not (isinstance(k, ast.Constant) and isinstance(k.value, str)):
                        continue
                    conv = None
                    if isinstance(v, ast.DictComp) and isinstance(v.key, ast.Call) and call_name(v.key) == "str":
                        conv = ("str(key)", "int")
                    elif isinstance(v, ast.Call) and isinstance(v.func, ast.Attribute) and v.func.attr == "hex" and not v.args:
                        conv = (".hex()", "fromhex")
                    elif isinstance(v, ast.ListComp) and isinstance(v.elt, ast.Call) and isinstance(v.elt.func, ast.Attribute) and v.elt.func.attr == "hex":
                        conv = ("[x.hex() ...]", "fromhex")
                    if conv is None:
                        continue
                    n += 1
                    # the expression in deserialize that reads data[<k>]
                    reads = [x for x in ast.walk(de.node) if isinstance(x, ast.Subscript) and isinstance(x.slice, ast.Constant) and x.slice.value == k.value]
                    par = c.module.parents()
                    ok = False
                    for rd in reads:
                        p_ = par.get(rd)
                        hops = 0
                        while p_ is not None and hops < 6 and not isinstance(p_, (ast.keyword, ast.Assign, ast.Return, ast.stmt)):
                            if isinstance(p_, ast.Call) and call_name(p_) == conv[1]:
                                ok = True
                            if isinstance(p_, ast.DictComp) and isinstance(p_.key, ast.Call) and call_name(p_.key) == conv[1]:
                                ok = True
                            if isinstance(p_, ast.ListComp) and isinstance(p_.elt, ast.Call) and call_name(p_.elt) == conv[1]:
                                ok = True
                            p_ = par.get(p_)
                            hops += 1
                    key = f"{c.qualname}: JSON key '{k.value}' written with {conv[0]} is read back with {conv[1]}(...)"
                    if ok:
                        r.ok(key, de.loc())
                    else:
                        r.violation(key, de.loc(), f"serialize() stores '{k.value}' through {conv[0]} but deserialize() does not apply {conv[1]}: after a reload from the JSON cache the field holds {'string keys' if conv[1] == 'int' else 'hex strings'} where the rest of mypy (and the binary format) uses {'ints' if conv[1] == 'int' else 'bytes'}, so lookups/comparisons against fresh values silently fail")
    if n < floor:
        raise AnalysisError(f"only {n} converted JSON fields found")


def run_special_alias_rebuild(chk: Check, ix) -> None:
    """R11.14: whoever rebuilds the derived fields of a special alias rebuilds all of them."""
    r14 = chk.rule("R11.14", "TypeInfo.special_alias (the alias view of a named tuple / TypedDict class) is not serialised; its type-variable fields are derived from the class's type variables: `alias_tvars` (the list) and `tvar_tuple_index` (the position of the TypeVarTuple in that list). Every place that assigns `<info>.special_alias.alias_tvars` (semantic analysis when the class is complete; fix-up after loading from the cache, once for tuple types and once for TypedDicts) also sets `<info>.special_alias.tvar_tuple_index` in the same branch: a reloaded variadic TypedDict with the list but without the index rejects `Row[int, str, float]` and crashes type expansion", floor=3)
    n = 0
    for q, f in sorted(ix.functions.items()):
        if f.parent is not None or not f.module.name.startswith("mypy.") or ".test" in f.module.name:
            continue
        par = None
        for a in ast.walk(f.node):
            if isinstance(a, ast.Assign) and len(a.targets) == 1 and isinstance(a.targets[0], ast.Attribute) and a.targets[0].attr == "alias_tvars" and isinstance(a.targets[0].value, ast.Attribute) and a.targets[0].value.attr == "special_alias":
                par = par or f.module.parents()
                base = norm(a.targets[0].value)
                blk_owner = par.get(a)
                siblings = []
                for fld in ("body", "orelse"):
                    b = getattr(blk_owner, fld, None)
                    if isinstance(b, list) and any(x is a for x in b):
                        siblings = b
                n += 1
                key = f"{q}: `{base}.alias_tvars` and `{base}.tvar_tuple_index` are rebuilt together"
                if any(isinstance(x, ast.Assign) and norm(x.targets[0]) == f"{base}.tvar_tuple_index" for st in siblings for x in ast.walk(st)):
                    r14.ok(key, f.loc(a))
                else:
                    r14.violation(key, f.loc(a), f"this branch sets `{base}.alias_tvars` but not `{base}.tvar_tuple_index`: for a class generic in a TypeVarTuple the alias says it has N type variables and no variadic one")
    if n < 3:
        raise AnalysisError(f"only {n} assignments of special_alias.alias_tvars found")


NON_JSON_TYPES = ("complex", "bytes", "bytearray", "set", "frozenset")


def run_json_representable(chk: Check, ix) -> None:
    """R11.15: what serialize() stores without conversion is something JSON can hold."""
    r15 = chk.rule("R11.15", "a JSON serializer (`serialize` methods of nodes and types) that stores an attribute as it is (`\"k\": self.attr`, `data[\"k\"] = self.attr`) does so only for attributes whose declared type JSON can represent: an attribute annotated with complex / bytes / set / frozenset among its alternatives is converted first (and converted back by deserialize), otherwise json.dumps raises on the first module that has such a value (INTERNAL ERROR with --no-fixed-format-cache) while the binary format works", floor=40)
    n = 0
    for cq, c in sorted(ix.classes.items()):
        if not cq.startswith(("mypy.nodes.", "mypy.types.", "mypy.cache.")) or "serialize" not in c.methods:
            continue
        f = c.methods["serialize"]
        par = f.module.parents()
        stores: list[tuple[str, ast.Attribute, ast.AST]] = []
        for x in ast.walk(f.node):
            if isinstance(x, ast.Dict):
                for k, v in zip(x.keys, x.values):
                    if isinstance(k, ast.Constant) and isinstance(v, ast.Attribute) and isinstance(v.value, ast.Name) and v.value.id == "self":
                        stores.append((str(k.value), v, v))
            elif isinstance(x, ast.Assign) and len(x.targets) == 1 and isinstance(x.targets[0], ast.Subscript) and isinstance(x.targets[0].slice, ast.Constant) and isinstance(x.value, ast.Attribute) and isinstance(x.value.value, ast.Name) and x.value.value.id == "self":
                stores.append((str(x.targets[0].slice.value), x.value, x))
        for key_name, v, node in stores:
            an, _owner = c.lookup_annot(v.attr)
            if an is None:
                continue
            t = norm(an)
            n += 1
            bad = [w for w in NON_JSON_TYPES if re.search(rf"\b{w}\b", t)]
            key = f"{cq}.serialize: \"{key_name}\" <- self.{v.attr} ({t[:50]})"
            if not bad:
                r15.ok(key, f.loc(node))
                continue
            # a verbatim store is fine if the branch excludes the non-JSON alternative
            from ..cfg import branch_conditions
            st = node
            while not isinstance(st, ast.stmt):
                st = par[st]
            pos, neg = branch_conditions(par, f.node, st, early_exits=True)
            excluded = any(isinstance(cx, ast.Call) and call_name(cx) == "isinstance" and any(b in norm(cx) for b in bad) for t_ in neg for cx in ast.walk(t_))
            if excluded:
                r15.ok(key, f.loc(node), f"the {bad} alternative is converted in another branch")
            else:
                r15.violation(key, f.loc(node), f"self.{v.attr} is declared `{t}` and stored as it is: a {bad[0]} value makes json.dumps fail when the module is written to the JSON cache")
    if n < 40:
        raise AnalysisError(f"only {n} verbatim attribute stores with a declared type found in serialize methods")


def run_definition_after_load(chk: Check, ix) -> None:
    """R11.16: a synthesised method has the same `definition` fresh and after a cache load."""
    r16 = chk.rule("R11.16", "fix-up sets `func.type.definition = func` on every FuncDef it loads (the definition is not serialised); methods synthesised by plugins (mypy/plugins/common.py: the __init__ of a dataclass and friends) are created without one. The two sides agree in one of two ways: the synthesising helper sets the definition, or the loader (SymbolTableNode.node, where lazy fix-up runs) clears it again for plugin_generated symbols. Otherwise messages that consult it ('\"D\" defined in \"a\"') are printed on warm runs only", floor=2)
    fx = ix.func("mypy.fixup.NodeFixer.visit_func_def")
    sets = any(isinstance(a, ast.Assign) and isinstance(a.targets[0], ast.Attribute) and a.targets[0].attr == "definition" for a in ast.walk(fx.node))
    if not sets:
        r16.info("fix-up no longer sets CallableType.definition", fx.loc(), "nothing to agree with")
        return
    r16.ok("fix-up sets the definition of every loaded FuncDef's type", fx.loc())
    mod = ix.module("mypy.plugins.common")
    fresh_sets = []
    synth = []
    for f in sorted(mod.functions.values(), key=lambda f: f.node.lineno):
        makes = [a for a in ast.walk(f.node) if isinstance(a, ast.Assign) and isinstance(a.value, ast.Call) and call_name(a.value) == "FuncDef" and isinstance(a.targets[0], ast.Name)]
        for mk in makes:
            v = mk.targets[0].id
            typed = [a for a in ast.walk(f.node) if isinstance(a, ast.Assign) and norm(a.targets[0]) == f"{v}.type"]
            if not typed:
                continue
            synth.append((f, typed[0]))
            if any(isinstance(a, ast.Assign) and norm(a.targets[0]) == f"{v}.type.definition" and not (isinstance(a.value, ast.Constant) and a.value.value is None) for a in ast.walk(f.node)):
                fresh_sets.append(f)
    if not synth:
        raise AnalysisError("no synthesised FuncDef with a type found in mypy/plugins/common.py")
    getter = ix.func("mypy.nodes.SymbolTableNode.node")
    from ..cfg import branch_conditions
    par = getter.module.parents()
    clears = []
    for a in ast.walk(getter.node):
        if isinstance(a, ast.Assign) and isinstance(a.targets[0], ast.Attribute) and a.targets[0].attr == "definition" and isinstance(a.value, ast.Constant) and a.value.value is None:
            pos, _ = branch_conditions(par, getter.node, a)
            if any("plugin_generated" in norm(t) for t in pos):
                clears.append(a)
    key = "plugin-synthesised methods have the same `definition` on a fresh analysis and after a cache load"
    f0, t0 = synth[0]
    if len(fresh_sets) == len({f for f, _ in synth}):
        r16.ok(key, f0.loc(t0), "the synthesising helper sets it")
    elif clears and not fresh_sets:
        r16.ok(key, getter.loc(clears[0]), "none on a fresh analysis; the loader clears what fix-up set for plugin_generated symbols")
    else:
        r16.violation(key, f0.loc(t0), f"the synthesised FuncDef's type has no definition until the module is reloaded from the cache, where fix-up sets it (and nothing clears it for plugin_generated symbols): diagnostics about calls of the generated method differ between cold and warm runs")


def run_typeinfo_fixup_fields(chk: Check, ix) -> None:
    """R11.17: every type TypeInfo's loaders re-create is handed to the type fixer."""
    r = chk.rule("R11.17", "every attribute that TypeInfo.deserialize / TypeInfo.read assign from a deserialized type (bases, _promote, alt_promote, declared_metaclass, metaclass_type, tuple_type, typeddict_type, self_type, ...) is run through the TypeFixer by NodeFixer.visit_type_info (`info.<attr>...accept(self.type_fixer)`, directly or element-wise): the loaders leave Instance.type unresolved (NOT_READY / by name), and a type nobody fixes up compares unequal to its freshly analysed twin (TypeVarType equality includes the upper bound) or raises when touched", floor=7)
    ti = ix.cls("mypy.nodes.TypeInfo")
    fields: dict[str, str] = {}
    for mname in ("deserialize", "read"):
        m = ti.methods.get(mname)
        if m is None:
            raise AnalysisError(f"TypeInfo.{mname} not found")
        for a in ast.walk(m.node):
            if isinstance(a, (ast.Assign, ast.AnnAssign)) and a.value is not None:
                tg = a.targets[0] if isinstance(a, ast.Assign) else a.target
                if isinstance(tg, ast.Attribute) and isinstance(tg.value, ast.Name) and tg.value.id not in ("self", "cls"):
                    v = norm(a.value)
                    if any(k in v for k in ("deserialize_type", "read_type", "mypy.types.")):
                        fields.setdefault(tg.attr, f"{mname}: {v[:50]}")
    if len(fields) < 7:
        raise AnalysisError(f"TypeInfo loaders: only {sorted(fields)} type-valued attributes found")
    vti = ix.cls("mypy.fixup.NodeFixer").lookup_method("visit_type_info")
    fixed = set()
    for c in ast.walk(vti.node):
        if isinstance(c, ast.Call) and isinstance(c.func, ast.Attribute) and c.func.attr == "accept" and c.args and norm(c.args[0]) == "self.type_fixer":
            recv = c.func.value
            if isinstance(recv, ast.Attribute) and norm(recv.value) == "info":
                fixed.add(recv.attr)
            elif isinstance(recv, ast.Name):
                # loop variable: `for base in info.bases: base.accept(...)`
                for lp in ast.walk(vti.node):
                    if isinstance(lp, ast.For) and isinstance(lp.target, ast.Name) and lp.target.id == recv.id and isinstance(lp.iter, ast.Attribute) and norm(lp.iter.value) == "info":
                        fixed.add(lp.iter.attr)
    for fld, how in sorted(fields.items()):
        key = f"NodeFixer.visit_type_info fixes up TypeInfo.{fld}"
        if fld in fixed:
            r.ok(key, vti.loc(), how)
        else:
            r.violation(key, vti.loc(), f"TypeInfo.{fld} is re-created by the loader ({how}) but never handed to self.type_fixer: the Instances inside keep an unresolved TypeInfo after a cache load (e.g. the upper bound of the implicit Self type variable: the reloaded self_type no longer equals the Self variables in the member types, and `Access to generic instance variables via class is ambiguous` is reported cold but not warm)")


def run_optional_json_keys(chk: Check, ix) -> None:
    """R11.18: a JSON key that is written only sometimes is absent exactly when the attribute has the reader's default."""
    from ..cfg import branch_conditions
    r18 = chk.rule("R11.18", "JSON serializers leave out a key when the attribute has its default (`if self.module_hidden: data['module_hidden'] = True`) and the reader assigns the attribute only when the key is present (`if 'module_hidden' in data: ...`), so an absent key means 'default'. That holds only if the condition under which the key is written (enclosing `if`s, including the negated tests of earlier `elif` arms) is a test of that attribute alone: a key whose writing also depends on another attribute is absent for some non-default values, which reload as the default (binary format unaffected, so the formats disagree)", floor=4)
    n = 0
    for mn in ("mypy.nodes", "mypy.types"):
        m = ix.module(mn)
        for c in m.classes.values():
            ser, de = c.methods.get("serialize"), c.methods.get("deserialize")
            if ser is None or de is None:
                continue
            # optional keys on the reading side: if "k" in data: <obj>.X = data["k"]
            optional: dict[str, str] = {}
            for i in ast.walk(de.node):
                if isinstance(i, ast.If) and isinstance(i.test, ast.Compare) and len(i.test.ops) == 1 and isinstance(i.test.ops[0], ast.In) and isinstance(i.test.left, ast.Constant) and isinstance(i.test.left.value, str) and not i.orelse:
                    k = i.test.left.value
                    for a in i.body:
                        if isinstance(a, ast.Assign) and isinstance(a.targets[0], ast.Attribute) and isinstance(a.value, ast.Subscript) and isinstance(a.value.slice, ast.Constant) and a.value.slice.value == k:
                            optional[k] = a.targets[0].attr
            if not optional:
                continue
            par = ser.module.parents()
            for a in ast.walk(ser.node):
                if not (isinstance(a, ast.Assign) and isinstance(a.targets[0], ast.Subscript) and isinstance(a.targets[0].slice, ast.Constant) and a.targets[0].slice.value in optional):
                    continue
                k = a.targets[0].slice.value
                pos, neg = branch_conditions(par, ser.node, a)
                if not pos and not neg:
                    continue
                n += 1
                attrs = {x.attr for t in pos + neg for x in ast.walk(t) if isinstance(x, ast.Attribute) and isinstance(x.value, ast.Name) and x.value.id == "self"}
                key = f"{c.name}.serialize: the key '{k}' is left out only for the default of `{optional[k]}`"
                others = attrs - {optional[k]}
                if not others:
                    r18.ok(key, ser.loc(a))
                else:
                    r18.violation(key, ser.loc(a), f"whether '{k}' is written also depends on {sorted(others)} ({[norm(t)[:50] for t in pos + neg]}): for a value of `{optional[k]}` that differs from the reader's default the key can be absent, and {c.name}.deserialize then leaves the default in place (a hidden, non-public symbol reloads as public: `from m import *` leaks m's private imports on a warm run)")
    if n < 4:
        raise AnalysisError(f"only {n} conditionally written optional JSON keys found in nodes.py / types.py")
