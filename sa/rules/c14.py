"""C14 — both parsers mean the same thing and report valid positions (small partial).

R14.1  node-kind coverage: the set of mypy.nodes / mypy.patterns classes the default front end
       (fastparse.py) can construct equals the set the native front end (nativeparse.py) can
       construct (minus its transport record).
R14.2  semantic-flag agreement: per node class, the non-position attributes set after construction
       or through constructor keywords agree between the two front ends (branch-sensitive tracking
       of which constructor a local came from); differences tabled.
R14.4  overload merging: in both front ends every multi-statement list that becomes a Block body
       or the module body went through fix_function_overloads; the native front end's shortcut
       (skip the pass when fewer than two functions were read below) rests on a monotone counter:
       State.num_funcs is only initialised to 0 and incremented, and the gate compares it with the
       value saved on entry.
R14.3  position clamps: in Errors.report the construction of ErrorInfo is dominated by the two
       defensive normalisations (end_line >= line; on one line end_column > column).
"""

from __future__ import annotations

import ast

from ..cfg import CFG, call_name
from ..index import AnalysisError, get_index, norm
from ..report import Check
from ..resolve import Resolver
from ..wire import Wire

POS = {"line", "column", "end_line", "end_column"}
NODE_MODULES = ("mypy.nodes", "mypy.patterns")


def node_class(ix, m, e):
    if not isinstance(e, ast.Call):
        return None
    r = ix.resolve_expr_static(m, e.func) if isinstance(e.func, (ast.Name, ast.Attribute)) else None
    if r and r[0] == "class" and r[1].module.name in NODE_MODULES:
        return r[1]
    return None


def constructed(ix, modname) -> dict[str, int]:
    m = ix.module(modname)
    out: dict[str, int] = {}
    for n in ast.walk(m.tree):
        c = node_class(ix, m, n)
        if c is not None:
            out.setdefault(c.name, n.lineno)
    return out


def flag_sets(ix, W, modname) -> dict[str, dict[str, int]]:
    """class name -> {attribute: line} set on freshly constructed nodes (branch-sensitive)."""
    m = ix.module(modname)
    out: dict[str, dict[str, int]] = {}

    def note(cname, attr, line):
        if attr not in POS:
            out.setdefault(cname, {}).setdefault(attr, line)

    def expr_effects(e, env):
        for n in ast.walk(e):
            c = node_class(ix, m, n)
            if c is not None:
                init = c.lookup_method("__init__")
                ps = [a.arg for a in init.params][1:] if init else []
                for i, a in enumerate(n.args):
                    if i < len(ps) and not isinstance(a, ast.Starred):
                        if isinstance(a, ast.Constant) and a.value in (None, False) or (isinstance(a, ast.List) and not a.elts):
                            continue  # an explicit default / placeholder is not "setting" the attribute
                        note(c.name, W.param_attr(c, ps[i]), n.lineno)
                for k in n.keywords:
                    if k.arg:
                        note(c.name, W.param_attr(c, k.arg), n.lineno)

    returns: dict[str, set] = {}

    def call_classes(val, env):
        """Classes of the node a call expression yields (constructor, or a helper of this module)."""
        c = node_class(ix, m, val)
        if c is not None:
            return {c.name}
        if isinstance(val, ast.Call):
            nm = val.func.attr if isinstance(val.func, ast.Attribute) else getattr(val.func, "id", None)
            if nm in returns and returns[nm]:
                return set(returns[nm])
        return None

    def block(stmts, env):
        for s in stmts:
            if isinstance(s, (ast.Assign, ast.AnnAssign)):
                val = s.value
                tgts = s.targets if isinstance(s, ast.Assign) else [s.target]
                if val is not None:
                    expr_effects(val, env)
                for t in tgts:
                    if isinstance(t, ast.Name):
                        cs = call_classes(val, env) if val is not None else None
                        if cs is not None:
                            env[t.id] = cs
                        elif isinstance(val, ast.Name) and val.id in env:
                            env[t.id] = set(env[val.id])
                        else:
                            env.pop(t.id, None)
                    elif isinstance(t, ast.Attribute) and isinstance(t.value, ast.Name) and t.value.id in env:
                        for cn in env[t.value.id]:
                            note(cn, t.attr, s.lineno)
            elif isinstance(s, ast.Assert):
                t = s.test
                if isinstance(t, ast.Call) and isinstance(t.func, ast.Name) and t.func.id == "isinstance" and isinstance(t.args[0], ast.Name):
                    r = ix.resolve_expr_static(m, t.args[1]) if isinstance(t.args[1], (ast.Name, ast.Attribute)) else None
                    if r and r[0] == "class" and r[1].module.name in NODE_MODULES:
                        env[t.args[0].id] = {r[1].name}
            elif isinstance(s, ast.If):
                expr_effects(s.test, env)
                e1, e2 = dict(env), dict(env)
                t = s.test
                if isinstance(t, ast.Call) and isinstance(t.func, ast.Name) and t.func.id == "isinstance" and isinstance(t.args[0], ast.Name):
                    r = ix.resolve_expr_static(m, t.args[1]) if isinstance(t.args[1], (ast.Name, ast.Attribute)) else None
                    if r and r[0] == "class" and r[1].module.name in NODE_MODULES:
                        e1[t.args[0].id] = {r[1].name}
                block(s.body, e1)
                block(s.orelse, e2)
                for k in set(e1) | set(e2):
                    if k in e1 and k in e2:
                        env[k] = e1[k] | e2[k]
                    else:
                        env.pop(k, None)
            elif isinstance(s, (ast.For, ast.While, ast.With, ast.Try)):
                for fld in ("body", "orelse", "finalbody"):
                    block(getattr(s, fld, []) or [], env)
                for h in getattr(s, "handlers", []) or []:
                    block(h.body, dict(env))
            elif isinstance(s, ast.Match):
                for cs in s.cases:
                    block(cs.body, dict(env))
            elif isinstance(s, (ast.Return, ast.Expr)):
                if s.value is not None:
                    expr_effects(s.value, env)
                if isinstance(s, ast.Return) and s.value is not None and cur[0] is not None:
                    cs = call_classes(s.value, env)
                    if cs is None and isinstance(s.value, ast.Name) and s.value.id in env:
                        cs = env[s.value.id]
                    if cs:
                        returns.setdefault(cur[0], set()).update(cs)
            elif isinstance(s, (ast.FunctionDef, ast.AsyncFunctionDef)):
                block(s.body, {})

    cur = [None]
    for _round in range(2):  # second round sees helper return classes computed in the first
        out.clear()
        for q, f in ix.functions.items():
            if f.module is m and f.parent is None:
                cur[0] = f.name
                block(f.node.body, {})
    return out


def run(chk: Check) -> None:
    ix = get_index()
    W = Wire(ix, Resolver(ix))

    r1 = chk.rule("R14.1", "the two front ends can construct the same set of AST node classes", floor=60)
    a = constructed(ix, "mypy.fastparse")
    b = constructed(ix, "mypy.nativeparse")
    transport = {"FileRawData"}
    for c in sorted(set(a) | set(b)):
        key = f"node class {c} constructible by both front ends"
        if c in a and c in b:
            r1.ok(key, f"mypy/fastparse.py:{a[c]} / mypy/nativeparse.py:{b[c]}")
        elif c in transport:
            r1.ok(key, "mypy/nativeparse.py", "transport record of the native parser, not an AST node kind")
        elif c in a:
            r1.violation(f"node class {c} only constructed by fastparse", f"mypy/fastparse.py:{a[c]}", "the native parser can never produce this node kind: programs using the construct are analysed differently (or rejected) under --native-parser")
        else:
            r1.violation(f"node class {c} only constructed by nativeparse", f"mypy/nativeparse.py:{b[c]}", "the default parser can never produce this node kind")

    r2 = chk.rule("R14.2", "per node class the semantic attributes set at construction time agree between the two front ends", floor=20)
    fa = flag_sets(ix, W, "mypy.fastparse")
    fb = flag_sets(ix, W, "mypy.nativeparse")
    # the native front end builds the MypyFile itself in parse.load_from_raw
    for cn, attrs in flag_sets(ix, W, "mypy.parse").items():
        for a_, ln in attrs.items():
            fb.setdefault(cn, {}).setdefault(a_, ln)
    for c in sorted(set(fa) | set(fb)):
        if c in transport:
            continue
        x, y = fa.get(c, {}), fb.get(c, {})
        for attr in sorted(set(x) | set(y)):
            key = f"{c}.{attr}"
            if attr in x and attr in y:
                r2.ok(key, f"mypy/fastparse.py:{x[attr]} / mypy/nativeparse.py:{y[attr]}")
            elif attr in x:
                r2.violation(f"{c}.{attr} set only by fastparse", f"mypy/fastparse.py:{x[attr]}", f"the default parser sets {c}.{attr} on the node it builds, the native parser never does: the attribute keeps its constructor default under --native-parser")
            else:
                r2.violation(f"{c}.{attr} set only by nativeparse", f"mypy/nativeparse.py:{y[attr]}", f"the native parser sets {c}.{attr}, the default parser never does")

    run_overloads(chk, ix)
    run_diagnostic_parity(chk, ix)
    run_arg_constructor_guards(chk, ix)
    run_fstring_collapse(chk, ix)
    run_pos_only_special_methods(chk, ix)
    run_count_guard_agreement(chk, ix)
    run_shared_validators(chk, ix)
    run_overload_helpers_thread_context(chk, ix)
    run_string_annotation_attrs(chk, ix)
    run_locations_read_before_copied(chk, ix)
    run_ignored_files_follow_inline_config(chk, ix)

    r3 = chk.rule("R14.3", "Errors.report clamps end_line >= line and (same line) end_column > column before the ErrorInfo is built", floor=2)
    rp = ix.func("mypy.errors.Errors.report")
    g = CFG(rp.node)
    ctor = [n for n in g.nodes if any(call_name(c) == "ErrorInfo" for c in n.calls())]
    if not ctor:
        raise AnalysisError("Errors.report no longer constructs ErrorInfo")

    def clamp(test_pred, assign_pred):
        out = []
        for t in g.nodes:
            if t.kind == "test" and test_pred(norm(t.exprs[0])):
                tsucc = [m for m, lab in t.succ if lab == "true"]
                if any(n.kind == "stmt" and isinstance(n.stmt, ast.Assign) and assign_pred(norm(n.stmt)) for n in g.reachable(tsucc, avoiding=ctor, labels_excluded=("exc",))):
                    out.append(t)
        return out

    c1 = clamp(lambda t: "end_line < line" in t, lambda s: s == "end_line = line")
    c2 = clamp(lambda t: "line == end_line" in t and "end_column <= column" in t, lambda s: s == "end_column = column + 1")
    for name, cl, why in (("end_line < line => end_line = line", c1, "a reported end line before the start line"), ("same line and end_column <= column => end_column = column + 1", c2, "an empty or negative column span")):
        if cl and all(g.must_pass(g.entry, [c], cl, labels_excluded=("exc",)) for c in ctor):
            # no later assignment may undo the clamp
            later = [n for n in g.reachable(cl, labels_excluded=("exc",)) if n.kind == "stmt" and isinstance(n.stmt, ast.Assign) and norm(n.stmt.targets[0]) in ("end_line", "end_column", "line", "column") and n not in g.reachable([m for t in cl for m, lab in t.succ if lab == "true"], avoiding=ctor) and any(c in g.reachable([n]) for c in ctor)]
            later = [n for n in later if not (norm(n.stmt) in ("end_line = line", "end_column = column + 1", "end_column = -1", "column = -1"))]
            if later:
                r3.violation(f"Errors.report: {name}", rp.loc(later[0].stmt), f"`{norm(later[0].stmt)}` re-assigns a position after the clamp")
            else:
                r3.ok(f"Errors.report: {name}", rp.loc(cl[0].stmt))
        else:
            r3.violation(f"Errors.report: {name}", rp.loc(), f"an ErrorInfo can be constructed without this normalisation: {why} can be printed")
    kws = {k.arg: norm(k.value) for c in ctor[0].calls() if call_name(c) == "ErrorInfo" for k in c.keywords}
    if all(kws.get(k) == k for k in ("line", "column", "end_line", "end_column")):
        r3.ok("ErrorInfo receives the clamped locals (line, column, end_line, end_column)", rp.loc(ctor[0].stmt))
    else:
        r3.violation("ErrorInfo receives the clamped locals (line, column, end_line, end_column)", rp.loc(ctor[0].stmt), f"position keywords: { {k: kws.get(k) for k in ('line', 'column', 'end_line', 'end_column')} }")


def run_overloads(chk: Check, ix) -> None:
    r4 = chk.rule("R14.4", "both front ends merge overloads in every statement list (Block / module body); the native front end's `fewer than two functions` shortcut relies on State.num_funcs being initialised once and only incremented", floor=6)
    fp = ix.module("mypy.fastparse")
    npm = ix.module("mypy.nativeparse")
    # fastparse: Block(x) with a translated list => x passes fix_function_overloads
    for q, f in sorted(ix.functions.items()):
        if f.module is not fp or f.parent is not None:
            continue
        for n in ast.walk(f.node):
            if isinstance(n, ast.Call) and call_name(n) == "Block" and n.args:
                a = n.args[0]
                if any(isinstance(x, ast.Call) and call_name(x) == "translate_stmt_list" for x in ast.walk(a)):
                    key = f"{q}: Block body from translate_stmt_list goes through fix_function_overloads"
                    if isinstance(a, ast.Call) and call_name(a) == "fix_function_overloads":
                        r4.ok(key, f.loc(n))
                    else:
                        r4.violation(key, f.loc(n), "a translated statement list becomes a block without overload merging")
    # nativeparse: Block(<name>) where the name holds several statements => it came from read_statements
    for q, f in sorted(ix.functions.items()):
        if f.module is not npm or f.parent is not None:
            continue
        for n in ast.walk(f.node):
            if isinstance(n, ast.Call) and call_name(n) == "Block" and n.args and isinstance(n.args[0], ast.Name):
                nm = n.args[0].id
                defs = [a.value for a in ast.walk(f.node) if isinstance(a, ast.Assign) and isinstance(a.targets[0], ast.Name) and a.targets[0].id == nm]
                key = f"{q}: Block({nm}) body was read by read_statements"
                if defs and all(isinstance(d, ast.Call) and call_name(d) == "read_statements" for d in defs):
                    r4.ok(key, f.loc(n))
                else:
                    r4.violation(key, f.loc(n), f"`{nm}` is not (only) the result of read_statements: overloads in this block are not merged under --native-parser")
    rs = ix.func("mypy.nativeparse.read_statements")
    calls = [c for c in ast.walk(rs.node) if isinstance(c, ast.Call) and call_name(c) == "fix_function_overloads"]
    if not calls:
        r4.violation("read_statements applies fix_function_overloads", rs.loc(), "the native front end no longer merges overloads")
        return
    from ..cfg import branch_conditions
    pos, neg = branch_conditions(npm.parents(), rs.node, [st for st in ast.walk(rs.node) if isinstance(st, ast.stmt) and any(c is calls[0] for c in ast.walk(st))][-1])
    gate = [t for t in pos if "num_funcs" in norm(t)]
    if not pos and not neg:
        r4.ok("read_statements applies fix_function_overloads unconditionally", rs.loc(calls[0]))
    elif len(pos) == 1 and gate and not neg:
        saved = [a for a in rs.node.body if isinstance(a, ast.Assign) and norm(a.value) == "state.num_funcs" and isinstance(a.targets[0], ast.Name)]
        first_is_save = bool(saved) and rs.node.body.index(saved[0]) <= 1
        sv = saved[0].targets[0].id if saved else "?"
        if first_is_save and norm(gate[0]) == f"state.num_funcs > {sv} + 1":
            r4.ok("read_statements: the shortcut is `state.num_funcs > <value on entry> + 1`", rs.loc(calls[0]))
        else:
            r4.violation("read_statements: the shortcut is `state.num_funcs > <value on entry> + 1`", rs.loc(calls[0]), f"gate `{norm(gate[0])}` no longer compares the running count with the count saved on entry")
        # monotone counter: who may write State.num_funcs
        for q, f in sorted(ix.functions.items()):
            if f.module is not npm or f.parent is not None:
                continue
            for n in ast.walk(f.node):
                tgt = None
                if isinstance(n, ast.Assign):
                    tgt = [t for t in n.targets if isinstance(t, ast.Attribute) and t.attr == "num_funcs"]
                elif isinstance(n, (ast.AugAssign, ast.AnnAssign)) and isinstance(n.target, ast.Attribute) and n.target.attr == "num_funcs":
                    tgt = [n.target]
                if not tgt:
                    continue
                key = f"{q}: `{norm(n)}` keeps State.num_funcs monotone"
                init = f.name == "__init__" and isinstance(n, (ast.Assign, ast.AnnAssign)) and isinstance(n.value, ast.Constant) and n.value.value == 0
                inc = isinstance(n, ast.AugAssign) and isinstance(n.op, ast.Add) and isinstance(n.value, ast.Constant) and isinstance(n.value.value, int) and n.value.value > 0
                if init or inc:
                    r4.ok(key, f.loc(n))
                else:
                    r4.violation(key, f.loc(n), "the counter of functions read so far is lowered or overwritten: an enclosing statement list then sees `fewer than two functions below` and skips overload merging, so conditional overloads nested in `if` blocks are not joined with the items outside (the default parser merges every list)")
    else:
        r4.violation("read_statements: overload merging is skipped only by the function-count shortcut", rs.loc(calls[0]), f"fix_function_overloads is guarded by {[norm(t) for t in pos + neg]}")


def run_diagnostic_parity(chk: Check, ix) -> None:
    """R14.5: what the default front end rejects or warns about at parse time, the native front end does too."""
    r5 = chk.rule("R14.5", "every message_registry diagnostic that fastparse.py reports through fail() is also reported by nativeparse.py (or is tabled: about type comments, which the native parser does not read, or produced by the external serializer)", floor=15)
    fp = ix.module("mypy.fastparse")
    npm = ix.module("mypy.nativeparse")
    used = {}
    for n in ast.walk(fp.tree):
        if isinstance(n, ast.Call) and isinstance(n.func, ast.Attribute) and n.func.attr in ("fail", "fail_arg"):
            for x in ast.walk(n):
                if isinstance(x, ast.Attribute) and norm(x.value) == "message_registry":
                    used.setdefault(x.attr, n.lineno)
    native = {x.attr for x in ast.walk(npm.tree) if isinstance(x, ast.Attribute) and norm(x.value) == "message_registry"}
    if len(used) < 15:
        raise AnalysisError(f"only {len(used)} message_registry diagnostics found in fastparse.fail calls")
    for name, ln in sorted(used.items()):
        key = f"parse-time diagnostic {name} is reported by both front ends"
        if name in native:
            r5.ok(key, f"mypy/fastparse.py:{ln}")
        else:
            r5.violation(key, f"mypy/fastparse.py:{ln}", f"the default parser reports message_registry.{name}; nativeparse.py never does: the construct is accepted silently (or diagnosed differently) under --native-parser")


def implied_by_flag(f, atom_text: str, flags_tested: set[str]) -> bool:
    """`V is not D` follows from a tested flag F when D is a fresh object private to the function
    (bound once to a constructor call, used only as V's initial value and in identity tests) and
    F is set to True only directly after an assignment `V = <something else>`."""
    try:
        t = ast.parse(atom_text, mode="eval").body
    except SyntaxError:
        return False
    if not (isinstance(t, ast.Compare) and len(t.ops) == 1 and isinstance(t.ops[0], ast.IsNot) and isinstance(t.left, ast.Name) and isinstance(t.comparators[0], ast.Name)):
        return False
    v, d = t.left.id, t.comparators[0].id
    binds = [a for a in ast.walk(f.node) if isinstance(a, (ast.Assign, ast.AnnAssign)) and any(isinstance(x, ast.Name) and x.id == d for x in (a.targets if isinstance(a, ast.Assign) else [a.target]))]
    if len(binds) != 1 or not isinstance(binds[0].value, ast.Call):
        return False
    par = f.module.parents()
    for n in ast.walk(f.node):
        if isinstance(n, ast.Name) and n.id == d and isinstance(n.ctx, ast.Load):
            p = par.get(n)
            ok = (isinstance(p, ast.Compare) and all(isinstance(o, (ast.Is, ast.IsNot)) for o in p.ops)) or (isinstance(p, (ast.Assign, ast.AnnAssign)) and p.value is n and any(isinstance(x, ast.Name) and x.id == v for x in (p.targets if isinstance(p, ast.Assign) else [p.target])))
            if not ok:
                return False
    for fl in flags_tested:
        sets = [a for a in ast.walk(f.node) if isinstance(a, ast.Assign) and len(a.targets) == 1 and isinstance(a.targets[0], ast.Name) and a.targets[0].id == fl and isinstance(a.value, ast.Constant) and a.value.value is True]
        if not sets:
            continue
        good = True
        for a in sets:
            blk = next((b for b in (getattr(par.get(a), "body", None), getattr(par.get(a), "orelse", None)) if isinstance(b, list) and any(x is a for x in b)), None)
            if blk is None:
                good = False
                break
            i = [k for k, x in enumerate(blk) if x is a][0]
            prev = blk[i - 1] if i > 0 else None
            if not (isinstance(prev, ast.Assign) and len(prev.targets) == 1 and isinstance(prev.targets[0], ast.Name) and prev.targets[0].id == v and not (isinstance(prev.value, ast.Name) and prev.value.id == d)):
                good = False
                break
        if good:
            return True
    return False


def run_arg_constructor_guards(chk: Check, ix) -> None:
    """R14.6: the two parsers of `Arg(...)`-style argument constructors reject the same calls."""
    from ..cfg import branch_conditions
    r6 = chk.rule("R14.6", "TypeConverter.visit_Call (default parser) and read_call_type (native parser) report each argument-constructor diagnostic of message_registry under the same tests on the values they share (name, typ, default_type, constructor, the keyword spelling, the positional index): every test the default parser makes is made by the native parser too, and the native parser adds only tests of its own boolean flags; dropping `name is not None` makes the native parser reject `Arg(int, None, name='x')`, which the default parser accepts", floor=5)
    fa = ix.func("mypy.fastparse.TypeConverter.visit_Call")
    fb = ix.func("mypy.nativeparse.read_call_type")

    def locals_of(f):
        return {n.id for n in ast.walk(f.node) if isinstance(n, ast.Name)}
    shared = locals_of(fa) & locals_of(fb)

    def flags(f):
        out = set()
        cand: dict[str, list] = {}
        for a in ast.walk(f.node):
            if isinstance(a, ast.Assign) and len(a.targets) == 1 and isinstance(a.targets[0], ast.Name):
                cand.setdefault(a.targets[0].id, []).append(a.value)
        for k, vs in cand.items():
            if all(isinstance(v, ast.Constant) and isinstance(v.value, bool) for v in vs):
                out.add(k)
        return out

    def atom(t: ast.expr, positive: bool) -> str:
        if isinstance(t, ast.UnaryOp) and isinstance(t.op, ast.Not):
            return atom(t.operand, not positive)
        txt = norm(t)
        if isinstance(t, ast.Compare) and len(t.ops) == 1 and isinstance(t.comparators[0], ast.Constant):
            root = t.left
            while isinstance(root, (ast.Attribute, ast.Subscript)):
                root = root.value
            if not (isinstance(root, ast.Name) and root.id in shared):
                txt = f"<subject> {type(t.ops[0]).__name__} {t.comparators[0].value!r}"
        return ("" if positive else "not ") + txt

    def sites(f):
        par = f.module.parents()
        out: dict[str, tuple[set[str], ast.AST]] = {}
        for c in ast.walk(f.node):
            if not (isinstance(c, ast.Call) and call_name(c) in ("fail", "add_error")):
                continue
            msgs = [x.attr for x in ast.walk(c) if isinstance(x, ast.Attribute) and norm(x.value) == "message_registry"]
            if not msgs:
                continue
            st = c
            while not isinstance(st, ast.stmt):
                st = par[st]
            pos, neg = branch_conditions(par, f.node, st)
            ats = set()
            for t in pos:
                for v in (t.values if isinstance(t, ast.BoolOp) and isinstance(t.op, ast.And) else [t]):
                    ats.add(atom(v, True))
            for t in neg:
                for v in (t.values if isinstance(t, ast.BoolOp) and isinstance(t.op, ast.Or) else [t]):
                    ats.add(atom(v, False))
            out[msgs[0]] = (ats, c)
        return out
    sa_, sb = sites(fa), sites(fb)
    common = sorted(set(sa_) & set(sb))
    if len(common) < 5:
        raise AnalysisError(f"only {common} argument-constructor diagnostics shared by visit_Call and read_call_type")
    bflags = flags(fb)
    for m in common:
        (aa, ca), (ab, cb) = sa_[m], sb[m]
        key = f"{m}: reported under the same tests by both parsers"
        missing = sorted(x for x in aa - ab if not implied_by_flag(fb, x, ab & {f for f in bflags}))
        extra = sorted(x for x in ab - aa if not ({n.id for n in ast.walk(ast.parse(x.removeprefix('not '), mode='eval')) if isinstance(n, ast.Name)} <= bflags))
        if missing:
            r6.violation(key, fb.loc(cb), f"the default parser reports it only when {sorted(aa)}, the native parser when {sorted(ab)}: the native parser does not test {missing}, so it rejects calls the default parser accepts")
        elif extra:
            r6.violation(key, fb.loc(cb), f"the native parser additionally requires {extra} (not one of its boolean flags {sorted(bflags)}): it accepts calls the default parser rejects")
        else:
            r6.ok(key, fb.loc(cb), f"tests: {sorted(aa)}")


def run_fstring_collapse(chk: Check, ix) -> None:
    """R14.7: text folded out of an f-string's literal run lands in a node that is kept."""
    r7 = chk.rule("R14.7", "collapse_consecutive_str_items (native parser; the default parser gets adjacent literal pieces already merged by Python's ast) appends the text of a dropped literal piece to a node that is an element of the returned list: the accumulator is bound only to items that the same block puts into the result; folding into the loop's previous item instead loses the third and later pieces of a run, because that item was itself dropped", floor=2)
    f = ix.func("mypy.nativeparse.collapse_consecutive_str_items")
    rets = [r.value.id for r in ast.walk(f.node) if isinstance(r, ast.Return) and isinstance(r.value, ast.Name)]
    params = {a.arg for a in f.node.args.args}
    outs = {r for r in rets if r not in params}
    if not outs:
        raise AnalysisError("collapse_consecutive_str_items: no result list found")
    out = sorted(outs)[0]
    augs = [a for a in ast.walk(f.node) if isinstance(a, ast.AugAssign) and isinstance(a.target, ast.Attribute) and a.target.attr == "value" and isinstance(a.target.value, (ast.Name, ast.Subscript))]
    if not augs:
        raise AnalysisError("collapse_consecutive_str_items: no `<node>.value += ...` found")
    par = f.module.parents()
    for a in augs:
        tgt = a.target.value
        key = f"`{norm(a.target)} += ...` modifies an element of `{out}`"
        if isinstance(tgt, ast.Subscript):
            if norm(tgt.value) == out:
                r7.ok(key, f.loc(a))
            else:
                r7.violation(key, f.loc(a), f"the text is appended to `{norm(tgt)}`, not to an element of the result")
            continue
        v = tgt.id
        bad = []
        n_bind = 0
        for b in ast.walk(f.node):
            if isinstance(b, ast.For) and any(isinstance(x, ast.Name) and x.id == v for x in ast.walk(b.target)):
                bad.append(f"`{v}` is a loop variable of `for {norm(b.target)} in {norm(b.iter)}` (line {b.lineno}): an earlier literal piece that was itself folded away")
            if isinstance(b, ast.Assign) and any(isinstance(t, ast.Name) and t.id == v for t in b.targets):
                n_bind += 1
                blk = next((bl for bl in (getattr(par.get(b), "body", None), getattr(par.get(b), "orelse", None)) if isinstance(bl, list) and any(x is b for x in bl)), [])
                src = norm(b.value)
                kept = norm(b.value) == f"{out}[-1]"
                for st in blk:
                    for c in ast.walk(st):
                        if isinstance(c, ast.Call) and isinstance(c.func, ast.Attribute) and c.func.attr == "append" and norm(c.func.value) == out and c.args and norm(c.args[0]) in (src, v):
                            kept = True
                        if isinstance(c, ast.Assign) and any(norm(t) == out for t in c.targets) and isinstance(c.value, ast.List) and any(norm(e) in (src, v) for e in c.value.elts):
                            kept = True
                if not kept:
                    bad.append(f"`{norm(b)}` (line {b.lineno}) binds it to something the block does not put into `{out}`")
        if n_bind == 0 and not bad:
            bad.append(f"`{v}` is never bound to an element of `{out}`")
        if bad:
            r7.violation(key, f.loc(a), "; ".join(bad))
        else:
            r7.ok(key, f.loc(a), f"{n_bind} bindings of `{v}`, each to an item the same block puts into `{out}`")
    # position of the merged node is extended too
    ends = [x for x in ast.walk(f.node) if isinstance(x, ast.Assign) and isinstance(x.targets[0], ast.Attribute) and x.targets[0].attr in ("end_line", "end_column")]
    if len(ends) >= 2:
        r7.ok("the merged literal's end position is extended to the folded piece", f.loc(ends[0]))
    else:
        r7.violation("the merged literal's end position is extended to the folded piece", f.loc(), "end_line / end_column of the merged StrExpr are no longer updated: its span differs from the one the default parser produces")


def run_pos_only_special_methods(chk: Check, ix) -> None:
    """R14.8: both front ends make the parameters of special methods positional-only in the same way."""
    from ..cfg import branch_conditions
    r8 = chk.rule("R14.8", "for functions named like binary/unary special methods (sharedparse.special_function_elide_names) both front ends set `pos_only = True` on *every* parameter of the list, under the same two conditions (the option pos_only_special_methods and the name test): the loop body is the bare assignment, with no further test on the parameter's kind. A difference changes `arg_names` of the FuncItem and of its CallableType (signatures in messages, keyword calls of `__getitem__`, override checks)", floor=4)
    sites = []
    for q in ("mypy.fastparse.ASTConverter.do_func_def", "mypy.nativeparse.read_func_def"):
        f = ix.func(q)
        par = f.module.parents()
        found = None
        for lp in ast.walk(f.node):
            if isinstance(lp, ast.For):
                asg = [a for a in ast.walk(lp) if isinstance(a, ast.Assign) and isinstance(a.targets[0], ast.Attribute) and a.targets[0].attr == "pos_only" and isinstance(a.value, ast.Constant) and a.value.value is True]
                if asg:
                    found = (lp, asg[0])
        if found is None:
            r8.violation(f"{q}: parameters of special methods are made positional-only", f.loc(), "no loop setting `pos_only = True` was found")
            continue
        lp, a = found
        pos, neg = branch_conditions(par, f.node, lp)
        atoms = set()
        for t in pos:
            if isinstance(t, ast.Call) and call_name(t) == "special_function_elide_names":
                atoms.add("special_function_elide_names(name)")
            elif isinstance(t, ast.Attribute) and t.attr == "pos_only_special_methods":
                atoms.add("options.pos_only_special_methods")
            else:
                atoms.add(norm(t))
        sites.append((q, f, lp, a, atoms))
        key = f"{q}: every parameter is marked (the loop body is the bare assignment)"
        inner_pos, inner_neg = branch_conditions(par, lp, a)
        if not inner_pos and not inner_neg and len(lp.body) == 1:
            r8.ok(key, f.loc(a))
        else:
            r8.violation(key, f.loc(a), f"the assignment is under `{' and '.join(norm(t) for t in inner_pos + inner_neg) or 'other statements'}`: parameters that fail the test keep their names (the other front end drops them), so `*args`, `**kw` and keyword-only parameters of `__getitem__`, `__exit__`, ... get different signatures")
    if len(sites) == 2:
        key = "both front ends mark under the same conditions"
        if sites[0][4] == sites[1][4]:
            r8.ok(key, sites[1][1].loc(sites[1][2]), f"conditions: {sorted(sites[0][4])}")
        else:
            r8.violation(key, sites[1][1].loc(sites[1][2]), f"default parser: {sorted(sites[0][4])}; native parser: {sorted(sites[1][4])}")
        r8.ok("both loops found", sites[0][1].loc(sites[0][2]))


def run_count_guard_agreement(chk: Check, ix) -> None:
    """R14.9: where both front ends report one diagnostic under a test on a count (`len(xs) < 2`,
    `n == 1`), the two tests select the same counts."""
    r9 = chk.rule("R14.9", "a parse-time diagnostic that both front ends report under a comparison of a count with an integer constant is reported for the same counts by both (evaluated for 0..8)", floor=2)
    ops = {ast.Lt: lambda a, b: a < b, ast.LtE: lambda a, b: a <= b, ast.Gt: lambda a, b: a > b, ast.GtE: lambda a, b: a >= b, ast.Eq: lambda a, b: a == b, ast.NotEq: lambda a, b: a != b}

    def guards(m):
        par = m.parents()
        out: dict[str, list] = {}
        for n in ast.walk(m.tree):
            if isinstance(n, ast.Attribute) and norm(n.value) == "message_registry":
                p = n
                prev = n
                while p in par and not isinstance(p, (ast.If, ast.FunctionDef)):
                    prev = p
                    p = par[p]
                if not isinstance(p, ast.If) or not any(prev is b for b in p.body):
                    continue  # reported in an else arm: the test does not select it
                atoms = p.test.values if isinstance(p.test, ast.BoolOp) and isinstance(p.test.op, ast.And) else [p.test]
                for a in atoms:
                    if isinstance(a, ast.Compare) and len(a.ops) == 1 and type(a.ops[0]) in ops and isinstance(a.comparators[0], ast.Constant) and type(a.comparators[0].value) is int:
                        lhs = a.left
                        if isinstance(lhs, ast.Name) or (isinstance(lhs, ast.Call) and norm(lhs.func) == "len"):
                            c = a.comparators[0].value
                            sel = frozenset(k for k in range(9) if ops[type(a.ops[0])](k, c))
                            out.setdefault(n.attr, []).append((sel, norm(a), p.lineno))
        return out

    g_fp = guards(ix.module("mypy.fastparse"))
    g_np = guards(ix.module("mypy.nativeparse"))
    for name in sorted(set(g_fp) & set(g_np)):
        want = {s for s, _, _ in g_fp[name]}
        for sel, text, ln in g_np[name]:
            key = f"{name}: nativeparse `{text}` selects the same counts as fastparse"
            if sel in want:
                r9.ok(key, f"mypy/nativeparse.py:{ln}")
            else:
                ft = ", ".join(sorted({t for _, t, _ in g_fp[name]}))
                r9.violation(key, f"mypy/nativeparse.py:{ln}", f"fastparse reports {name} when `{ft}` (counts {sorted(min(want, key=len))[:4]}...), nativeparse when `{text}` (counts {sorted(sel)[:4]}): for the other counts only one of the two front ends reports the diagnostic")


def run_shared_validators(chk: Check, ix) -> None:
    """R14.10: the shared helpers that decide what a parameter list means are used by both front ends."""
    r10 = chk.rule("R14.10", "every helper of mypy.sharedparse, and every `check_*` validator of mypy.nodes, that fastparse.py calls is also called by nativeparse.py (or is tabled with where the native front end gets the same effect): these helpers decide which parameter lists are rejected (duplicate names) and which parameters are positional-only", floor=3)
    fp = ix.module("mypy.fastparse")
    npm = ix.module("mypy.nativeparse")

    def shared_imports(m):
        out = {}
        for n in m.tree.body:
            if isinstance(n, ast.ImportFrom) and n.module in ("mypy.sharedparse", "mypy.nodes"):
                for a in n.names:
                    if n.module == "mypy.sharedparse" or a.name.startswith("check_"):
                        if a.name[:1].islower():
                            out[a.asname or a.name] = f"{n.module}.{a.name}"
        return out

    def called(m, names):
        got = {}
        for n in ast.walk(m.tree):
            if isinstance(n, ast.Call) and isinstance(n.func, ast.Name) and n.func.id in names:
                got.setdefault(names[n.func.id], n.lineno)
        return got

    f_calls = called(fp, shared_imports(fp))
    n_calls = called(npm, shared_imports(npm))
    if len(f_calls) < 3:
        raise AnalysisError(f"only {len(f_calls)} shared parse helpers found in fastparse.py (expected sharedparse.* and nodes.check_param_names)")
    for full, ln in sorted(f_calls.items()):
        key = f"{full} is applied by both front ends"
        if full in n_calls:
            r10.ok(key, f"mypy/nativeparse.py:{n_calls[full]}")
        else:
            r10.violation(key, f"mypy/fastparse.py:{ln}", f"fastparse.py calls {full}; nativeparse.py never does: what the helper rejects or marks under the default parser is accepted or left unmarked under --native-parser")


def run_overload_helpers_thread_context(chk: Check, ix) -> None:
    """R14.11: the conditional-overload helpers of both front ends pass their context on when they recurse."""
    r = chk.rule("R14.11", "the helpers that decide whether an `if` statement belongs to an overload (fastparse `_check_ifstmt_for_overloads` / `_get_executable_if_block_with_overloads`, nativeparse `check_ifstmt_for_overloads` / `get_executable_if_block_with_overloads`) recurse into `elif` chains; a helper that takes the current overload name as a defaulted parameter passes it in every call of itself, in both front ends alike (a recursive call that falls back to the default `None` rejects an undecorated implementation in an `elif` branch, which the other parser accepts)", floor=2)
    n = 0
    for mn in ("mypy.fastparse", "mypy.nativeparse"):
        m = ix.module(mn)
        cands = list(m.functions.values()) + [mm for c in m.classes.values() for mm in c.methods.values()]
        for f in cands:
            if "ifstmt_for_overloads" not in f.name and "if_block_with_overloads" not in f.name:
                continue
            a = f.node.args
            params = [p.arg for p in a.posonlyargs + a.args if p.arg != "self"]
            ndef = len(a.defaults)
            defaulted = params[len(params) - ndef:] if ndef else []
            if not defaulted:
                continue
            selfcalls = [c for c in ast.walk(f.node) if isinstance(c, ast.Call) and call_name(c) == f.name]
            if not selfcalls:
                continue
            n += 1
            key = f"{mn.split('.')[-1]}.{f.name}: recursive calls pass {defaulted}"
            bad = None
            for c in selfcalls:
                given = set(params[: len(c.args)]) | {k.arg for k in c.keywords}
                if not set(defaulted) <= given:
                    bad = c
            if bad is None:
                r.ok(key, f.loc(selfcalls[0]))
            else:
                r.violation(key, f.loc(bad), f"`{norm(bad)[:90]}` leaves {sorted(set(defaulted) - (set(params[: len(bad.args)]) | {k.arg for k in bad.keywords}))} at its default: inside an `elif` chain the helper no longer knows the name of the overload being collected, so the undecorated implementation in an `elif` branch is not merged (no-overload-impl / no-redef under this parser only)")
    if n < 2:
        raise AnalysisError(f"only {n} recursive conditional-overload helpers with a defaulted context parameter found")


def run_string_annotation_attrs(chk: Check, ix) -> None:
    """R14.12: what the default parser records about a type written as a string, the native parser records too."""
    r = chk.rule("R14.12", "fastparse.parse_type_string records on the type it returns how the annotation was spelled (`node.original_str_expr`, `node.original_str_fallback`, for the classes named in its isinstance test); typeanal.analyze_literal_param needs them to read `Literal[\"r | w\"]` as a string and not as a union of names. nativeparse.read_type builds the same classes from the serialized tree: in the branch that constructs each of them, every one of those attributes is passed to the constructor or assigned on the constructed object", floor=2)
    fp = ix.func("mypy.fastparse.parse_type_string")
    attrs, classes = set(), set()
    for i in ast.walk(fp.node):
        if isinstance(i, ast.If):
            for c in ast.walk(i.test):
                if isinstance(c, ast.Call) and norm(c.func) == "isinstance" and len(c.args) == 2 and norm(c.args[0]) == "node":
                    names = [e.id for e in (c.args[1].elts if isinstance(c.args[1], ast.Tuple) else [c.args[1]]) if isinstance(e, ast.Name)]
                    sets = {t.attr for a in i.body if isinstance(a, ast.Assign) for t in a.targets if isinstance(t, ast.Attribute) and norm(t.value) == "node"}
                    if sets:
                        classes |= set(names)
                        attrs |= sets
    if len(attrs) < 2 or not classes:
        raise AnalysisError(f"parse_type_string: attributes {sorted(attrs)} on classes {sorted(classes)}")
    rt = ix.func("mypy.nativeparse.read_type")
    for cls in sorted(classes):
        ctor = [c for c in ast.walk(rt.node) if isinstance(c, ast.Call) and isinstance(c.func, ast.Name) and c.func.id == cls]
        key = f"nativeparse.read_type sets {sorted(attrs)} on the {cls} it builds"
        if not ctor:
            r.violation(key, rt.loc(), f"read_type never constructs {cls}")
            continue
        ok_any = False
        for c in ctor:
            given = {k.arg for k in c.keywords}
            par = rt.module.parents()
            st = c
            while not isinstance(st, ast.stmt):
                st = par[st]
            var = norm(st.targets[0]) if isinstance(st, ast.Assign) and len(st.targets) == 1 and isinstance(st.targets[0], ast.Name) else None
            if var:
                for a in ast.walk(rt.node):
                    if isinstance(a, ast.Assign):
                        for t in a.targets:
                            if isinstance(t, ast.Attribute) and norm(t.value) == var:
                                given.add(t.attr)
            if attrs <= given:
                ok_any = True
        if ok_any:
            r.ok(key, rt.loc(ctor[0]))
        else:
            r.violation(key, rt.loc(ctor[0]), f"the branch building {cls} does not set all of {sorted(attrs)}: under --native-parser a `Literal[\"a|b\"]` parameter is analysed as the union `a | b` (`Name \"a\" is not defined`, the type becomes Any) while the default parser yields Literal['a|b']")


LOC_ATTRS = {"line", "column", "end_line", "end_column"}


def _walk_scope(node: ast.AST, name: str):
    """ast.walk that does not enter a lambda or comprehension that rebinds `name`."""
    todo = [node]
    while todo:
        n = todo.pop()
        if isinstance(n, ast.Lambda) and any(a.arg == name for a in n.args.args + n.args.kwonlyargs + n.args.posonlyargs):
            continue
        if isinstance(n, (ast.ListComp, ast.SetComp, ast.DictComp, ast.GeneratorExp)) and any(isinstance(t, ast.Name) and t.id == name for g in n.generators for t in ast.walk(g.target)):
            continue
        yield n
        todo.extend(ast.iter_child_nodes(n))


def run_locations_read_before_copied(chk: Check, ix) -> None:
    """R14.13: the native reader copies a node's position only after it has read it."""
    from ..cfg import CFG
    r13 = chk.rule("R14.13", "nativeparse builds a node first and fills in its position afterwards (`read_loc(data, node)`; until then line and column are -1). Wherever a reader function passes a local node to read_loc, every read of that node's line/column/end_line/end_column and every `set_line_column[_range](target, node)` in the function lies behind the read_loc call on every CFG path from the entry: a position copied earlier (the signature type of a FuncDef, an argument's variable) stays -1, and diagnostics reported on the copy have no line, escape `# type: ignore` and are merged across functions", floor=8)
    m = ix.module("mypy.nativeparse")
    n = 0
    for f in m.functions.values():
        located = {c.args[1].id for c in ast.walk(f.node) if isinstance(c, ast.Call) and call_name(c) == "read_loc" and len(c.args) > 1 and isinstance(c.args[1], ast.Name)}
        if not located:
            continue
        g = None
        for x in sorted(located):
            def uses_loc(nd) -> bool:
                for src in ([nd.stmt] if nd.kind == "stmt" and nd.stmt is not None and not isinstance(nd.stmt, (ast.If, ast.While, ast.For, ast.Try, ast.With, ast.FunctionDef)) else list(nd.exprs)):
                    for a in _walk_scope(src, x):
                        if isinstance(a, ast.Attribute) and a.attr in LOC_ATTRS and isinstance(a.value, ast.Name) and a.value.id == x and isinstance(a.ctx, ast.Load):
                            return True
                        if isinstance(a, ast.Call) and call_name(a) in ("set_line_column", "set_line_column_range") and len(a.args) > 1 and isinstance(a.args[1], ast.Name) and a.args[1].id == x:
                            return True
                return False
            g = g or CFG(f.node)
            users = [nd for nd in g.nodes if uses_loc(nd)]
            if not users:
                continue
            n += 1
            readers = [nd for nd in g.nodes if any(call_name(c) == "read_loc" and len(c.args) > 1 and isinstance(c.args[1], ast.Name) and c.args[1].id == x for c in nd.calls())]
            # a node may be (re)built on several paths; definitions restart the obligation
            key = f"{f.name}: the position of `{x}` is used only after read_loc(data, {x})"
            early = [u for u in users if u not in readers and not g.must_pass(g.entry, [u], readers, labels_excluded=("exc",))]
            if not early:
                r13.ok(key, f.loc())
            else:
                u = early[0]
                r13.violation(key, f.loc(u.stmt) if u.stmt is not None else f.loc(), f"`{norm(u.stmt)[:70] if u.stmt is not None else x}` reads the position of `{x}` on a path that has not passed `read_loc(data, {x})`: the copy keeps line -1 / column -1 (fastparse sets the position in the constructor call, so the default parser reports the same diagnostic at the `def` line)")
    if n < 8:
        raise AnalysisError(f"nativeparse: only {n} (function, node) pairs with read_loc and a later use of the position found")


def run_ignored_files_follow_inline_config(chk: Check, ix) -> None:
    """R14.14: whether a file's errors are dropped is decided from its options *after* the inline configuration."""
    from ..cfg import branch_conditions
    r14 = chk.rule("R14.14", "build.py registers a file in Errors.ignored_files from `state.ignore_all or state.options.ignore_errors` before parsing (State.parse_file, BuildManager.parse_files_threaded_raw). With the default parser the inline `# mypy:` configuration has been applied by then (get_source); with the native parser and in parallel mode it arrives with the parse data and is applied afterwards. Either every such registration is preceded by the inline configuration on all paths, or State.apply_inline_configuration re-evaluates the registration (an `ignored_files.discard(self.xpath)` under the negated condition) after it has replaced self.options: otherwise `# mypy: ignore-errors=False` wins over a config section with one parser and loses with the other", floor=2)
    b = ix.module("mypy.build")
    st = ix.cls("mypy.build.State")
    aic = st.methods.get("apply_inline_configuration")
    if aic is None:
        raise AnalysisError("State.apply_inline_configuration not found")
    par = b.parents()
    reeval = False
    for c in ast.walk(aic.node):
        if isinstance(c, ast.Call) and isinstance(c.func, ast.Attribute) and c.func.attr == "discard" and norm(c.func.value).endswith("ignored_files"):
            stmt = c
            while not isinstance(stmt, ast.stmt):
                stmt = par[stmt]
            pos, neg = branch_conditions(par, aic.node, stmt)
            if any("ignore_errors" in norm(t) and isinstance(t, ast.UnaryOp) and isinstance(t.op, ast.Not) for t in pos) or any("ignore_errors" in norm(t) for t in neg):
                reeval = True
    n = 0
    for f in list(b.functions.values()) + [mm for c in b.classes.values() for mm in c.methods.values()]:
        if f is aic:
            continue
        for c in ast.walk(f.node):
            if not (isinstance(c, ast.Call) and isinstance(c.func, ast.Attribute) and c.func.attr == "add" and norm(c.func.value).endswith("ignored_files")):
                continue
            n += 1
            key = f"build.{f.name}: the registration in ignored_files agrees with the options after inline configuration"
            if reeval:
                r14.ok(key, f.loc(c), "apply_inline_configuration re-evaluates the registration")
            else:
                r14.violation(key, f.loc(c), "the file is registered from the options as they are before `apply_inline_configuration(raw_data.mypy_comments)` and apply_inline_configuration does not take it out again: with --native-parser / -n N, `# mypy: ignore-errors=False` in a file whose config section says ignore_errors = True leaves all its errors dropped (Success), the default parser reports them")
    if n < 2:
        raise AnalysisError(f"build.py: only {n} registrations in ignored_files found")
