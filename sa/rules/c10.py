"""C10 — results are deterministic and independent of irrelevant context (partial).

R10.1  no hash-ordered iteration (set / frozenset / dict.keys()&...) reaches an order-sensitive use
       unsorted.  Order-insensitive uses are recognised structurally (building a set, sorted(),
       any/all/sum/len, set algebra, loop bodies that only add to sets / store under the loop key /
       count / return a constant on first match); every other site must be in tables/R10.1.json.
R10.2  no builtin hash() / id() / object identity / os.urandom / time value flows into cache bytes,
       interface hashes or printed text (sites listed; each must be tabled).
R10.3  process-global mutable state: every module-level mutable binding that is mutated from
       functions, every class-level counter and every lru_cache is reset on the build entry path
       or tabled with a reason.
"""

from __future__ import annotations

import ast

from ..index import AnalysisError, FuncInfo, get_index, norm, walk_no_nested
from ..report import Check
from ..resolve import Resolver, members

ORDER_INSENSITIVE_CONSUMERS = {"set", "frozenset", "sorted", "any", "all", "sum", "len", "min", "max", "dict", "Counter", "bool"}
SCOPE = lambda m: (m.name.startswith("mypy.") or m.name == "mypy") and not m.name.startswith(("mypy.stub", "mypy.dmypy", "mypy.test", "mypy.report", "mypy.memprofile", "mypy.server.objgraph", "mypy.server.mergecheck", "mypy.moduleinspect", "mypy.stats", "mypy.exportjson", "mypy.inspections", "mypy.suggestions", "mypy.refinfo", "mypy.pyinfo"))  # noqa: E731


def is_hash_ordered(t) -> bool:
    return any(x[0] == "set" for x in members(t))


def run(chk: Check) -> None:
    ix = get_index()
    run_only_once_slot(chk, ix)
    run_plugin_identity(chk, ix)
    run_shared_memo_keys(chk, ix)
    run_cache_slot_read_under_write_condition(chk, ix)
    run_first_element_of_ordered_only(chk, ix)
    R = Resolver(ix)
    r1 = chk.rule("R10.1", "every iteration over a set/frozenset is either consumed order-insensitively (recognised structurally) or tabled with a reason; an untabled order-sensitive use is a violation", floor=80)
    n_sites = 0
    n_auto = 0
    for q, f in sorted(ix.functions.items()):
        if f.parent is not None or not SCOPE(f.module):
            continue
        sites = iteration_sites(f, R)
        seen_keys: dict[str, int] = {}
        for node, it, kind in sorted(sites, key=lambda x: (x[0].lineno, x[0].col_offset)):
            n_sites += 1
            verdict = classify(f, node, it, kind)
            key = f"{q}: {kind} over `{norm(it)[:60]}`"
            seen_keys[key] = seen_keys.get(key, 0) + 1
            if seen_keys[key] > 1:
                key += f" #{seen_keys[key]}"  # n-th identical construct in this function
            if verdict is not None:
                n_auto += 1
                r1.ok(key, f.loc(node), verdict)
            else:
                r1.violation(key, f.loc(node), "a set is iterated in hash order into an order-sensitive use (list/str building, first-match result, message text, processing order) without sorting: the outcome can vary with PYTHONHASHSEED")
    chk.extra["set_iteration_sites"] = n_sites
    chk.extra["recognised_order_insensitive"] = n_auto

    # ---------------- R10.2
    r2 = chk.rule("R10.2", "builtin hash()/id()/os.urandom/time values do not reach cache bytes, interface hashes, shard selection or printed text (every call site classified)", floor=10)
    for q, f in sorted(ix.functions.items()):
        if f.parent is not None or not SCOPE(f.module):
            continue
        if f.name in ("__hash__", "__eq__", "__repr__"):
            continue
        for n in ast.walk(f.node):
            if isinstance(n, ast.Call):
                fn = norm(n.func)
                if fn in ("hash", "id", "os.urandom", "random.random", "random.randint", "uuid.uuid4", "time.time", "time.perf_counter") or fn.endswith(".__hash__"):
                    use = use_of(f, n)
                    key = f"{q}: {fn}({norm(n.args[0])[:30] if n.args else ''}) used as {use}"
                    if fn.startswith("time.") and use in ("timing-arith", "assigned-timing"):
                        r2.ok(key, f.loc(n), "timing statistics only")
                        continue
                    if fn in ("hash", "id") and use in ("dict-key", "set-member", "compare", "cache-key"):
                        r2.ok(key, f.loc(n), "identity / memo key inside one process; never printed or persisted")
                        continue
                    r2.violation(key, f.loc(n), f"a per-process value ({fn}) may flow into persisted or printed data")
    # hash_digest family uses a cryptographic hash
    mu = ix.module("mypy.util")
    for nm in ("hash_digest", "hash_digest_bytes"):
        f = mu.functions.get(nm)
        if f is None:
            raise AnalysisError(f"mypy.util.{nm} vanished")
        src = norm(f.node)
        if "hashlib." in src and "hash(" not in src.replace("hashlib.", "").replace("hash_digest", ""):
            r2.ok(f"mypy.util.{nm} is a hashlib digest", f.loc())
        else:
            r2.violation(f"mypy.util.{nm} is a hashlib digest", f.loc(), "cache hashes are no longer computed by a seed-independent digest")
    hps = ix.functions.get("mypy.metastore.hash_path_stem") or ix.functions.get("mypy.util.hash_path_stem")
    if hps is not None:
        if any(isinstance(n, ast.Call) and norm(n.func) == "hash" for n in ast.walk(hps.node)):
            r2.violation("hash_path_stem uses no builtin hash()", hps.loc(), "shard selection would depend on PYTHONHASHSEED: workers and later runs would look in different shards")
        else:
            r2.ok("hash_path_stem uses no builtin hash()", hps.loc())

    # ---------------- R10.3
    r3 = chk.rule("R10.3", "every process-global mutable (module-level containers mutated in functions, `global` rebinding, class-level counters, lru_cache) is reset on the build entry path or tabled with a reason", floor=8)
    resets = reset_reach(ix, R)
    chk.extra["reset_functions_reached_from_build"] = sorted(resets)
    for key, where, how in global_state(ix, R):
        if how in resets or any(key_part in resets for key_part in ()):
            r3.ok(key, where, f"reset via {how}")
        else:
            r3.violation(key, where, "process-global mutable state that no function on the build entry path resets: a build's result may depend on which builds ran earlier in the same process")


# --------------------------------------------------------------------------- R10.1 helpers

def iteration_sites(f: FuncInfo, R: Resolver):
    out = []
    env_cache = {}

    def env_for(g):
        if g.qualname not in env_cache:
            env_cache[g.qualname] = R.env(g)
        return env_cache[g.qualname]

    def scan(g, node):
        env = env_for(g)
        for n in ast.iter_child_nodes(node):
            if isinstance(n, (ast.FunctionDef, ast.AsyncFunctionDef)):
                q = f"{g.qualname}.<locals>.{n.name}"
                g2 = R.ix.functions.get(q)
                scan(g2 or g, n)
                continue
            its = []
            if isinstance(n, (ast.For, ast.AsyncFor)):
                its.append((n.iter, "for"))
            elif isinstance(n, (ast.ListComp, ast.GeneratorExp, ast.DictComp, ast.SetComp)):
                env2 = dict(env)
                for gen in n.generators:
                    its.append((gen.iter, type(n).__name__))
            elif isinstance(n, ast.Call):
                fn = n.func
                if isinstance(fn, ast.Name) and fn.id in ("list", "tuple", "enumerate", "zip", "iter", "next", "reversed", "map", "filter") and n.args:
                    for a in n.args[:1] if fn.id != "zip" else n.args:
                        its.append((a, fn.id + "()"))
                elif isinstance(fn, ast.Attribute) and fn.attr == "join" and n.args:
                    its.append((n.args[0], "join"))
                elif isinstance(fn, ast.Attribute) and fn.attr == "pop" and not n.args:
                    its.append((fn.value, "set.pop"))
                elif isinstance(fn, ast.Attribute) and fn.attr in ("extend",) and n.args:
                    its.append((n.args[0], "extend"))
                for a in n.args:
                    if isinstance(a, ast.Starred):
                        its.append((a.value, "*splat"))
            elif isinstance(n, ast.Assign) and isinstance(n.targets[0], (ast.Tuple, ast.List)):
                its.append((n.value, "unpack"))
            elif isinstance(n, (ast.List, ast.Tuple)):
                for e in n.elts:
                    if isinstance(e, ast.Starred):
                        its.append((e.value, "*splat"))
            for it, kind in its:
                if isinstance(it, (ast.GeneratorExp, ast.ListComp)):
                    continue
                t = R.type_of(it, g, env)
                if kind == "set.pop":
                    if is_hash_ordered(t) and not any(x[0] in ("list", "dict") for x in members(t)):
                        out.append((n, it, kind))
                elif is_hash_ordered(t):
                    out.append((n, it, kind))
            scan(g, n)

    scan(f, f.node)
    return out


def parent_of(f: FuncInfo, node):
    return f.module.parents().get(node)


def classify(f: FuncInfo, node, it, kind) -> str | None:
    """Reason why this iteration is order-insensitive, or None."""
    p = parent_of(f, node)
    if kind == "SetComp":
        return "builds a set"
    if kind in ("ListComp", "GeneratorExp", "DictComp", "list()", "tuple()", "iter()", "map()", "filter()", "enumerate()", "zip()", "reversed()"):
        # consumed by an order-insensitive function?
        cur, par = node, p
        while isinstance(par, (ast.Starred,)):
            cur, par = par, parent_of(f, par)
        if isinstance(par, ast.Call) and isinstance(par.func, ast.Name) and par.func.id in ORDER_INSENSITIVE_CONSUMERS and cur in par.args:
            if par.func.id in ("min", "max") and any(k.arg == "key" for k in par.keywords):
                return None
            return f"consumed by {par.func.id}()"
        if isinstance(par, ast.Call) and isinstance(par.func, ast.Attribute) and par.func.attr in ("update", "union", "intersection", "difference", "issubset", "issuperset", "isdisjoint", "difference_update", "intersection_update", "symmetric_difference") and cur in par.args:
            return f"set algebra .{par.func.attr}()"
        if isinstance(par, ast.Compare) and any(isinstance(o, (ast.In, ast.NotIn)) for o in par.ops):
            return "membership test"
        if kind == "DictComp":
            # {k: v for k in S}: a dict keyed by the elements; order only matters if the dict is iterated later
            return "builds a dict keyed by the elements (dict order not observed here)"
        if isinstance(par, (ast.For, ast.comprehension)) and par.iter is cur:
            return None
        return None
    if kind == "for":
        return loop_commutative(f, node)
    if kind == "extend":
        return None
    if kind == "*splat":
        par = p
        if isinstance(par, ast.Call) and isinstance(par.func, ast.Attribute) and par.func.attr in ("union", "update", "intersection"):
            return "set algebra"
        if isinstance(par, ast.Call) and isinstance(par.func, ast.Name) and par.func.id in ORDER_INSENSITIVE_CONSUMERS:
            return f"consumed by {par.func.id}()"
        return None
    return None


def loop_commutative(f: FuncInfo, lp: ast.For) -> str | None:
    """A loop body whose effects commute across iterations."""
    tnames = {n.id for n in ast.walk(lp.target) if isinstance(n, ast.Name)}
    ret_consts = set()
    for s in lp.body + lp.orelse:
        for n in ast.walk(s):
            if isinstance(n, (ast.FunctionDef, ast.Lambda)):
                continue
            if isinstance(n, ast.Return):
                if n.value is None or isinstance(n.value, ast.Constant):
                    ret_consts.add(None if n.value is None else n.value.value)
                else:
                    return None
            elif isinstance(n, ast.Break):
                return None
            elif isinstance(n, (ast.Yield, ast.YieldFrom)):
                return None
            elif isinstance(n, ast.Call):
                fn = n.func
                if isinstance(fn, ast.Attribute):
                    if fn.attr in ("add", "update", "discard", "remove", "difference_update", "intersection_update", "setdefault", "get", "items", "keys", "values", "startswith", "endswith", "split", "rsplit", "partition", "rpartition", "join", "format", "copy", "union", "intersection", "issubset", "count", "lower", "strip", "isidentifier", "pop"):
                        if fn.attr == "pop" and not n.args:
                            return None
                        continue
                    return None
                if isinstance(fn, ast.Name) and fn.id in ("len", "isinstance", "set", "frozenset", "sorted", "any", "all", "min", "max", "sum", "str", "int", "bool", "tuple", "list", "dict", "getattr", "hasattr", "id", "type", "repr", "callable", "issubclass", "cast"):
                    continue
                return None
            elif isinstance(n, (ast.Assign, ast.AugAssign, ast.AnnAssign)):
                tgts = n.targets if isinstance(n, ast.Assign) else [n.target]
                for t in tgts:
                    if isinstance(t, ast.Subscript):
                        # d[key] = v where key mentions the loop variable: distinct keys per element
                        if not any(isinstance(x, ast.Name) and x.id in tnames for x in ast.walk(t.slice)):
                            return None
                    elif isinstance(t, ast.Name):
                        if isinstance(n, ast.AugAssign) and isinstance(n.op, (ast.Add, ast.BitOr, ast.BitAnd, ast.Sub, ast.Mult)):
                            # counters / set or int accumulation; string or list += is order-sensitive
                            v = n.value
                            if isinstance(v, (ast.Constant,)) and isinstance(v.value, (int, float, bool)):
                                continue
                            if isinstance(n.op, (ast.BitOr, ast.BitAnd)):
                                continue
                            return None
                        # plain local assignment inside the body: a per-iteration temporary if it is
                        # assigned before use in the same iteration; "last wins" otherwise
                        if not assigned_only_as_temp(lp, t.id):
                            return None
                    elif isinstance(t, (ast.Tuple, ast.List)):
                        if not all(isinstance(e, ast.Name) and assigned_only_as_temp(lp, e.id) for e in t.elts):
                            return None
                    elif isinstance(t, ast.Attribute):
                        return None
            elif isinstance(n, ast.Raise):
                return None
            elif isinstance(n, ast.Delete):
                continue
    if len(ret_consts) > 1:
        return None
    return "loop body commutes: only set/dict-by-key updates, counters, constant early result"


def assigned_only_as_temp(lp: ast.For, name: str) -> bool:
    """`name` is assigned in the loop body and not read after the loop... approximated: the name is
    assigned at the top level of the body before any read in the body."""
    for s in lp.body:
        for n in ast.walk(s):
            if isinstance(n, ast.Name) and n.id == name:
                return isinstance(n.ctx, ast.Store)
    return False


# --------------------------------------------------------------------------- R10.2 helpers

def use_of(f: FuncInfo, call: ast.Call) -> str:
    par = f.module.parents()
    p = par.get(call)
    while isinstance(p, (ast.Tuple, ast.Starred)):
        p = par.get(p)
    if isinstance(p, ast.Subscript) and p.slice is call or (isinstance(p, ast.Subscript) and any(x is call for x in ast.walk(p.slice))):
        return "dict-key"
    if isinstance(p, ast.Compare):
        return "compare"
    if isinstance(p, ast.BinOp) and isinstance(p.op, (ast.Sub, ast.Add)):
        return "timing-arith"
    if isinstance(p, ast.Call) and isinstance(p.func, ast.Attribute) and p.func.attr in ("add", "discard", "remove", "get", "setdefault", "pop", "__contains__"):
        return "set-member"
    if isinstance(p, ast.Assign):
        tn = norm(p.targets[0])
        if any(x in tn for x in ("t0", "t1", "t2", "t3", "t4", "start", "time", "_t")):
            return "assigned-timing"
        if "key" in tn or "id" in tn:
            return "cache-key"
        return f"assigned to {tn[:30]}"
    if isinstance(p, ast.keyword):
        return f"keyword {p.arg}"
    if isinstance(p, ast.Return):
        return "returned"
    if isinstance(p, ast.Call):
        return f"argument of {norm(p.func)[:30]}"
    if isinstance(p, ast.Dict):
        return "dict-key" if any(k is call for k in p.keys) else "dict-value"
    return type(p).__name__


# --------------------------------------------------------------------------- R10.3 helpers

MUTATORS = {"append", "extend", "add", "update", "pop", "clear", "remove", "discard", "insert", "setdefault", "popitem"}


def global_state(ix, R):
    """(key, where, reset-handle) for every process-global mutable binding."""
    out = []
    for mname, m in sorted(ix.modules.items()):
        if not SCOPE(m):
            continue
        # module-level containers mutated inside functions, and `global` rebinding
        mutated: dict[str, str] = {}
        for q, f in ix.functions.items():
            if f.module is not m or f.parent is not None:
                continue
            gl = {nm for n in ast.walk(f.node) if isinstance(n, ast.Global) for nm in n.names}
            local_names = {a.arg for a in f.params}
            for n in ast.walk(f.node):
                if isinstance(n, (ast.Assign, ast.AugAssign, ast.AnnAssign)):
                    for t in n.targets if isinstance(n, ast.Assign) else [n.target]:
                        if isinstance(t, ast.Name) and t.id in gl:
                            mutated.setdefault(t.id, q)
                        if isinstance(t, ast.Subscript) and isinstance(t.value, ast.Name) and t.value.id in m.assigns and t.value.id not in local_names and not shadowed(f, t.value.id):
                            mutated.setdefault(t.value.id, q)
                elif isinstance(n, ast.Call) and isinstance(n.func, ast.Attribute) and n.func.attr in MUTATORS and isinstance(n.func.value, ast.Name):
                    nm = n.func.value.id
                    if nm in m.assigns and nm not in local_names and not shadowed(f, nm) and is_container(m.assigns[nm]):
                        mutated.setdefault(nm, q)
        for nm, q in sorted(mutated.items()):
            out.append((f"{mname}.{nm} (module-level, mutated in {q.split('.')[-1]})", f"{m.relpath}", f"{mname}.{nm}"))
        # class-level counters assigned through the class
        for cname, c in sorted(m.classes.items()):
            for attr in c.class_assigns:
                if attr.startswith("__"):
                    continue
                q = class_attr_writers(ix).get((cname, attr))
                if q is not None:
                    out.append((f"{mname}.{cname}.{attr} (class-level, assigned in {q.split('.')[-1]})", m.relpath, f"{mname}.{cname}.{attr}"))
        # lru_cache / functools.cache
        for fname, f in sorted(m.functions.items()):
            for d in f.node.decorator_list:
                dn = norm(d.func if isinstance(d, ast.Call) else d)
                if dn in ("lru_cache", "functools.lru_cache", "functools.cache", "cache"):
                    out.append((f"{mname}.{fname} ({dn})", m.relpath, f"{mname}.{fname}"))
        # module-level singleton instances of classes with mutable fields
        for nm, val in sorted(m.assigns.items()):
            if isinstance(val, ast.Call) and isinstance(val.func, ast.Name) and val.func.id in m.classes:
                c = m.classes[val.func.id]
                muts = [a for a, (ann, v, fn) in c.self_attrs().items() if fn.name == "__init__"]
                if muts and any(any(isinstance(x, (ast.Assign, ast.AugAssign)) for x in ast.walk(mm.node)) for mn, mm in c.methods.items() if mn != "__init__"):
                    out.append((f"{mname}.{nm} (singleton {c.name})", m.relpath, f"{mname}.{nm}"))
    return out


_CAW = None


def class_attr_writers(ix) -> dict:
    """(class name, attr) -> function that assigns `ClassName.attr = ...` or `cls.attr = ...`."""
    global _CAW
    if _CAW is None:
        _CAW = {}
        for q, f in ix.functions.items():
            if f.parent is not None:
                continue
            for n in ast.walk(f.node):
                if isinstance(n, (ast.Assign, ast.AugAssign)):
                    for t in n.targets if isinstance(n, ast.Assign) else [n.target]:
                        if isinstance(t, ast.Attribute) and isinstance(t.value, ast.Name):
                            if t.value.id == "cls" and f.cls is not None:
                                _CAW.setdefault((f.cls.name, t.attr), q)
                            elif t.value.id[:1].isupper():
                                _CAW.setdefault((t.value.id, t.attr), q)
    return _CAW


def shadowed(f: FuncInfo, name: str) -> bool:
    for n in ast.walk(f.node):
        if isinstance(n, (ast.Assign, ast.AnnAssign)):
            for t in n.targets if isinstance(n, ast.Assign) else [n.target]:
                if isinstance(t, ast.Name) and t.id == name:
                    return True
        if isinstance(n, (ast.For, ast.comprehension)) and any(isinstance(x, ast.Name) and x.id == name for x in ast.walk(n.target)):
            return True
    return False


def is_container(v: ast.expr) -> bool:
    return isinstance(v, (ast.Dict, ast.List, ast.Set, ast.DictComp, ast.ListComp, ast.SetComp)) or (isinstance(v, ast.Call) and isinstance(v.func, ast.Name) and v.func.id in ("dict", "list", "set", "defaultdict", "OrderedDict", "deque", "Counter"))


def reset_reach(ix, R):
    """Handles (qualified names of globals) reset by functions called on the path build.build -> dispatch."""
    out = set()
    # the entry path of a build: listing the sources (main.process_options, the daemon) and build.build
    roots = ["mypy.build.build", "mypy.build.build_inner", "mypy.find_sources.create_source_list"]
    seen = set()
    todo = list(roots)
    depth = {r: 0 for r in roots}
    while todo:
        q = todo.pop()
        if q in seen or q not in ix.functions:
            continue
        seen.add(q)
        f = ix.functions[q]
        for n in ast.walk(f.node):
            if isinstance(n, ast.Call):
                nm = n.func.attr if isinstance(n.func, ast.Attribute) else getattr(n.func, "id", "")
                if "reset" in nm or nm in ("cache_clear", "clear"):
                    callees, _ = R.callees(n, f)
                    for g in callees:
                        out |= assigned_globals(ix, g)
                        if depth[q] < 3 and g.qualname not in depth:
                            depth[g.qualname] = depth[q] + 1
                            todo.append(g.qualname)
                    if isinstance(n.func, ast.Attribute) and isinstance(n.func.value, ast.Name):
                        r = ix.resolve_name(f.module, n.func.value.id)
                        if r and r[0] == "const":
                            out.add(f"{r[1].name}.{r[2]}")
                        if r and r[0] == "func" and nm == "cache_clear":
                            out.add(r[1].qualname)
                elif q == "mypy.build.build" and nm == "build_inner":
                    depth.setdefault("mypy.build.build_inner", 1)
                    todo.append("mypy.build.build_inner")
    return out


def assigned_globals(ix, g: FuncInfo) -> set[str]:
    out = set()
    m = g.module
    gl = {nm for n in ast.walk(g.node) if isinstance(n, ast.Global) for nm in n.names}
    for n in ast.walk(g.node):
        if isinstance(n, (ast.Assign, ast.AugAssign)):
            for t in n.targets if isinstance(n, ast.Assign) else [n.target]:
                if isinstance(t, ast.Name) and t.id in gl:
                    out.add(f"{m.name}.{t.id}")
                if isinstance(t, ast.Attribute) and isinstance(t.value, ast.Name):
                    r = ix.resolve_name(m, t.value.id)
                    if r and r[0] == "class":
                        out.add(f"{r[1].qualname}.{t.attr}")
                    if r and r[0] == "const":
                        out.add(f"{r[1].name}.{r[2]}")
                    if t.value.id == "self" and g.cls is not None:
                        # a reset method of a singleton's class: credit every module-level instance of it
                        for mm in ix.modules.values():
                            for nm, v in mm.assigns.items():
                                if isinstance(v, ast.Call) and isinstance(v.func, ast.Name) and v.func.id == g.cls.name:
                                    out.add(f"{mm.name}.{nm}")
        if isinstance(n, ast.Call) and isinstance(n.func, ast.Attribute) and n.func.attr in ("clear", "cache_clear") and isinstance(n.func.value, ast.Name):
            r = ix.resolve_name(m, n.func.value.id)
            if r and r[0] == "const":
                out.add(f"{r[1].name}.{r[2]}")
            if r and r[0] == "func":
                out.add(r[1].qualname)
        if isinstance(n, ast.Call):
            # nested reset helpers
            nm = n.func.attr if isinstance(n.func, ast.Attribute) else getattr(n.func, "id", "")
            if "reset" in nm and nm != g.name:
                r = ix.resolve_expr_static(m, n.func) if isinstance(n.func, (ast.Name, ast.Attribute)) else None
                if r and r[0] == "func":
                    out |= assigned_globals(ix, r[1])
                elif isinstance(n.func, ast.Attribute) and isinstance(n.func.value, ast.Name):
                    rr = ix.resolve_name(m, n.func.value.id)
                    if rr and rr[0] == "const":
                        out.add(f"{rr[1].name}.{rr[2]}")
    return out


def run_only_once_slot(chk: Check, ix, rid: str = "R10.4") -> None:
    """R10.4 / R13.10: a once-per-build slot is claimed only by a message that is recorded."""
    from ..cfg import CFG, call_name
    r4 = chk.rule(rid, "Errors.add_error_info claims a slot in only_once_messages (the build-wide set that makes a note appear once) only on a path that goes on to record the message (_add_error_info / note_for_info): every early return that drops the message (ErrorWatcher filters, `# type: ignore`, ignored files) comes before the slot is claimed; a suppressed occurrence that claims the slot removes the note from the module where it is visible, and which occurrence is first depends on the order of the file arguments", floor=2)
    f = ix.func("mypy.errors.Errors.add_error_info")
    g = CFG(f.node)
    adds = [n for n in g.nodes if any(isinstance(c.func, ast.Attribute) and c.func.attr == "add" and isinstance(c.func.value, ast.Attribute) and c.func.value.attr == "only_once_messages" for c in n.calls())]
    recs = [n for n in g.nodes if any(call_name(c) in ("_add_error_info", "note_for_info") for c in n.calls())]
    if not adds or not recs:
        raise AnalysisError("add_error_info: only_once_messages.add / recording call not found")
    for a in adds:
        key = f"the slot claimed at line {a.lineno} is followed by the recording of the message on every path"
        later = [r for r in recs if r in g.reachable([a], labels_excluded=("exc",)) and r is not a]
        if later and g.must_pass(a, [g.exit], later, labels_excluded=("exc",)):
            r4.ok(key, f.loc(a.stmt))
        else:
            w = g.witness(a, [g.exit], avoiding=later, labels_excluded=("exc",)) if hasattr(g, "witness") else None
            r4.violation(key, f.loc(a.stmt), "after `only_once_messages.add(...)` the function can still return without recording the message (a later suppression test drops it): the slot is taken by an occurrence nobody sees" + (f"; path through line {[x.lineno for x in w][:6]}" if w else ""))


def run_plugin_identity(chk: Check, ix) -> None:
    """R10.5: a plugin given by file path is the module from that file, whatever earlier builds imported."""
    r5 = chk.rule("R10.5", "load_plugins_from_config imports a plugin given as a .py path by its bare module name (importlib.import_module after putting the directory first on sys.path); sys.modules is process-global, so before that import a module of the same name that was loaded from another file is discarded (or the plugin is loaded from its path directly): otherwise a second build in the same process runs the first build's plugin", floor=1)
    f = ix.func("mypy.build.load_plugins_from_config")
    imps = [c for c in ast.walk(f.node) if isinstance(c, ast.Call) and norm(c.func) in ("importlib.import_module", "import_module")]
    if not imps:
        r5.ok("plugins are no longer imported by bare module name", f.loc())
        return
    guards = [n for n in ast.walk(f.node) if (isinstance(n, ast.Delete) and any("sys.modules" in norm(t) for t in n.targets)) or (isinstance(n, ast.Call) and norm(n.func) in ("sys.modules.pop", "importlib.util.spec_from_file_location", "importlib.reload"))]
    key = "a same-named module loaded from another file is not reused as the plugin"
    if guards:
        r5.ok(key, f.loc(guards[0]))
    else:
        r5.violation(key, f.loc(imps[0]), "import_module(<bare name>) returns whatever sys.modules holds under that name: a plugin file with the same name from another directory, loaded by an earlier build in this process")


def run_shared_memo_keys(chk: Check, ix) -> None:
    """R10.6: a process-wide memo shared by all modules of a build is only ever asked with the key of the current query."""
    from .c08 import memo_call_sites_agree
    r6 = chk.rule("R10.6", "the subtype caches in TypeState outlive a module and are shared by all modules of a build; their key (SubtypeVisitor._subtype_kind) contains the per-module inputs of the answer (state.strict_optional and the context flags, decided by R08.1). Every lookup and every record in SubtypeVisitor.visit_instance uses that key and nothing else: a lookup under another module's key hands one module an answer computed for another, and which answers exist depends on the order in which the files were given", floor=1)
    memo_call_sites_agree(r6, ix)


def run_cache_slot_read_under_write_condition(chk: Check, ix) -> None:
    """R10.7: a memo slot that is only filled under a per-module condition is only consulted under that condition."""
    from ..cfg import branch_conditions
    r = chk.rule("R10.7", "typeops.type_object_type memoises the constructor type of a class on the TypeInfo (info.type_object_type), which all modules of a build share. It writes the slot only when `state.strict_optional` holds (a comment explains that the result differs otherwise: union simplification); the `return info.type_object_type` that answers from the slot is under the same condition. Otherwise a `# mypy: no-strict-optional` module gets the strict result or its own depending on whether a strict module asked about the class earlier, i.e. on the order of the files", floor=1)
    f = ix.func("mypy.typeops.type_object_type")
    par = f.module.parents()
    writes = [a for a in ast.walk(f.node) if isinstance(a, ast.Assign) and norm(a.targets[0]) == "info.type_object_type" and not (isinstance(a.value, ast.Constant) and a.value.value is None)]
    reads = [x for x in ast.walk(f.node) if isinstance(x, ast.Return) and x.value is not None and norm(x.value) == "info.type_object_type"]
    if not writes or not reads:
        raise AnalysisError(f"type_object_type: slot writes {len(writes)}, answering returns {len(reads)}")

    def per_module_atoms(node):
        pos, neg = branch_conditions(par, f.node, node)
        out = set()
        for t in pos:
            for c in ast.walk(t):
                if isinstance(c, ast.Attribute) and norm(c).startswith("state."):
                    out.add(norm(c))
        return out
    need = set()
    for w in writes:
        need |= per_module_atoms(w)
    for rd in reads:
        key = "type_object_type: the cached constructor type is returned only under the condition it was stored under"
        have = per_module_atoms(rd)
        if need <= have:
            r.ok(key, f.loc(rd), f"both under {sorted(need)}")
        else:
            r.violation(key, f.loc(rd), f"the slot is written only when {sorted(need)} holds but read without that test: a module checked with the other setting receives the answer computed for a module with this one when that module came first, and computes its own otherwise (`mypy a.py b.py` vs `mypy b.py a.py`)")


ORDERED_CALLS = {"sorted", "list", "tuple", "reversed", "dict", "OrderedDict"}
ORDERED_METHODS = {"values", "keys", "items", "fromkeys", "split", "splitlines"}
ORDERED_ANN = ("list[", "List[", "tuple[", "Tuple[", "Sequence[", "dict[", "Dict[", "Mapping[", "str")


def _first_of_sites(fnode: ast.AST):
    """(call, argument, verdict) for every next(iter(x)) in a function."""
    def ordered_expr(e: ast.expr) -> bool:
        if isinstance(e, (ast.List, ast.Tuple, ast.Dict, ast.ListComp, ast.DictComp)):
            return True
        if isinstance(e, ast.Call):
            if isinstance(e.func, ast.Name) and e.func.id in ORDERED_CALLS:
                return True
            if isinstance(e.func, ast.Attribute) and e.func.attr in ORDERED_METHODS:
                return True
        return False
    out = []
    for c in ast.walk(fnode):
        if not (isinstance(c, ast.Call) and isinstance(c.func, ast.Name) and c.func.id == "next" and c.args and isinstance(c.args[0], ast.Call) and isinstance(c.args[0].func, ast.Name) and c.args[0].func.id == "iter" and c.args[0].args):
            continue
        x = c.args[0].args[0]
        ok = ordered_expr(x)
        if not ok and isinstance(x, ast.Name):
            defs = [a.value for a in ast.walk(fnode) if isinstance(a, ast.Assign) and len(a.targets) == 1 and isinstance(a.targets[0], ast.Name) and a.targets[0].id == x.id]
            lam = any(isinstance(l, ast.Lambda) and any(a.arg == x.id for a in l.args.args) and c in list(ast.walk(l)) for l in ast.walk(fnode))
            if defs and not lam and all(ordered_expr(d) for d in defs):
                ok = True
            a_ = getattr(fnode, "args", None)
            if a_ is not None and not lam:
                for p in a_.posonlyargs + a_.args + a_.kwonlyargs:
                    if p.arg == x.id and p.annotation is not None and norm(p.annotation).startswith(ORDERED_ANN):
                        ok = True
        out.append((c, x, ok))
    return out


def run_first_element_of_ordered_only(chk: Check, ix) -> None:
    """R10.8: `next(iter(x))` takes the first element of something that has a first element."""
    r8 = chk.rule("R10.8", "`next(iter(x))` is 'any element' for a set or frozenset (which one depends on PYTHONHASHSEED for str members) and 'the first element' only for an ordered container. R10.1 decides iterations whose container type it can resolve; a lambda parameter or an untyped local is not resolved, so every `next(iter(x))` in mypy/ (the modules R10.1 covers) and mypyc/ has an argument that is ordered by construction: a list/tuple/dict display, a call of sorted/list/tuple/dict(.fromkeys)/.values()/.items()/.keys(), a local with exactly such a definition, or a parameter annotated as list/tuple/Sequence/dict/Mapping (build.sorted_components_inner orders sub-SCCs, which are frozensets, by the minimum State.order over their members, not by a representative). The detector is run on a built-in positive and negative example first", floor=1)
    pos = ast.parse("def f(ready, g):\n    return sorted(ready, key=lambda scc: -g[next(iter(scc))].order)\n").body[0]
    neg = ast.parse("def f(items):\n    u = dict.fromkeys(items)\n    return next(iter(u))\n").body[0]
    if [ok for _, _, ok in _first_of_sites(pos)] != [False] or [ok for _, _, ok in _first_of_sites(neg)] != [True]:
        raise AnalysisError("R10.8 detector self-check failed on the built-in examples")
    n = 0
    for q, f in sorted(ix.functions.items()):
        if f.parent is not None or not (SCOPE(f.module) or (f.module.name.startswith("mypyc.") and not f.module.name.startswith("mypyc.test"))):
            continue
        for c, x, ok in _first_of_sites(f.node):
            n += 1
            if not ok:
                # the resolver may know the container's type (an attribute or a typed local)
                t = Resolver(ix).type_of(x, f)
                ms = members(t)
                if ms and all(m_[0] in ("list", "dict", "tuple", "str") for m_ in ms):
                    ok = True
            key = f"{q}: next(iter({norm(x)[:40]})) is applied to an ordered container"
            if ok:
                r8.ok(key, f.loc(c))
            else:
                r8.violation(key, f.loc(c), f"`{norm(x)[:40]}` is not ordered by construction (a lambda parameter, an untyped local, or a set): for a frozenset of module ids the element chosen depends on the hash seed, and with it the order in which the modules of an import cycle are processed and their diagnostics printed")
    if n < 1:
        raise AnalysisError(f"only {n} next(iter(...)) sites found")
