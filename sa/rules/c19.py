"""C19 — generated stubs are valid, self-consistent and faithful (small partial).

Validity and faithfulness are properties of the emitted text per input module and are not decided.
Two clauses have a shape in the code:

R19.1  definition-kind coverage: stubgen first collects the top-level names of a module with
       DefinitionFinder (one visit_<kind> per statement kind that binds a name) and later emits
       the stub with ASTStubGenerator.  For every kind the finder records names for, the generator
       has its own visit_<kind> whose code (through the generator's own helper methods) reaches an
       emission (`self.add(...)`) — otherwise definitions of that kind are known to the
       generator's bookkeeping but can never appear in the stub ("every public function, class,
       method and annotated variable of the source appears").
R19.2  the printers are total: AliasPrinter (expressions rendered into annotations, bases and
       defaults) and the annotation printer are NodeVisitor[str] / TypeStrVisitor subclasses; each
       visit_<kind> they define returns a string expression on every path (no fall-through, no bare
       return): a None would be interpolated into the stub text as the name `None` or crash
       ''.join.
"""

from __future__ import annotations

import ast

from ..cfg import CFG, call_name
from ..index import AnalysisError, get_index, norm
from ..report import Check


def reaches_emission(cls, fname: str, seen=None) -> bool:
    seen = seen or set()
    if fname in seen:
        return False
    seen.add(fname)
    f = cls.lookup_method(fname)
    if f is None:
        return False
    for c in ast.walk(f.node):
        if isinstance(c, ast.Call) and isinstance(c.func, ast.Attribute) and isinstance(c.func.value, ast.Name) and c.func.value.id == "self":
            if c.func.attr in ("add", "add_decorator"):
                return True
            if reaches_emission(cls, c.func.attr, seen):
                return True
    return False


def run(chk: Check) -> None:
    ix = get_index()
    r1 = chk.rule("R19.1", "every statement kind for which DefinitionFinder records a top-level name (its visit_<kind> methods) has an own visit_<kind> in ASTStubGenerator that reaches an emission (`self.add(...)`) through the generator's own methods", floor=4)
    finder = ix.cls("mypy.stubgen.DefinitionFinder")
    gen = ix.cls("mypy.stubgen.ASTStubGenerator")
    kinds = sorted(m for m in finder.methods if m.startswith("visit_"))
    if len(kinds) < 4:
        raise AnalysisError(f"DefinitionFinder handles only {kinds}")
    for k in kinds:
        key = f"{k}: names recorded by DefinitionFinder are emitted by ASTStubGenerator"
        own = gen.methods.get(k)
        if own is None:
            r1.violation(key, finder.methods[k].loc(), f"ASTStubGenerator has no {k} of its own (the inherited traverser only recurses): definitions of this kind are counted as defined names but never written to the stub")
        elif reaches_emission(gen, k):
            r1.ok(key, own.loc())
        else:
            r1.violation(key, own.loc(), f"ASTStubGenerator.{k} never reaches self.add(...): nothing is emitted for this kind of definition")
    # the other direction, informational: kinds the generator emits for that the finder does not record
    r2 = chk.rule("R19.2", "each visit_<kind> defined by stubgen's string-producing visitors (AliasPrinter and the annotation printer of stubutil) returns a value on every path: a fall-through would put None into the emitted text", floor=25)
    n = 0
    for cq in ("mypy.stubgen.AliasPrinter", "mypy.stubutil.AnnotationPrinter"):
        c = ix.classes.get(cq)
        if c is None:
            raise AnalysisError(f"{cq} not found")
        for name, f in sorted(c.methods.items()):
            if not name.startswith("visit_"):
                continue
            n += 1
            g = CFG(f.node)
            key = f"{cq.split('.')[-1]}.{name} returns a string on every path"
            rets = [nd for nd in g.nodes if nd.kind == "stmt" and isinstance(nd.stmt, ast.Return)]
            bare = [nd for nd in rets if nd.stmt.value is None or (isinstance(nd.stmt.value, ast.Constant) and nd.stmt.value.value is None)]
            valued = [nd for nd in rets if nd not in bare]
            raises = [nd for nd in g.nodes if nd.kind == "stmt" and isinstance(nd.stmt, ast.Raise)]
            falls = not g.must_pass(g.entry, [g.exit], valued + raises, labels_excluded=("exc",)) if (valued or raises) else True
            if bare:
                r2.violation(key, f.loc(bare[0].stmt), "a bare `return` / `return None` in a method whose result is interpolated into the stub")
            elif falls:
                r2.violation(key, f.loc(), "some path reaches the end of the method without returning a value")
            else:
                r2.ok(key, f.loc())
    if n < 25:
        raise AnalysisError(f"only {n} visit methods found in the stub printers")
    run_pending_decorators_cleared(chk, ix)


def run_pending_decorators_cleared(chk: Check, ix) -> None:
    """R19.3: decorators collected for a function never outlive the decision not to emit it."""
    r3 = chk.rule("R19.3", "ASTStubGenerator collects the decorators of the next function in self._decorators (process_decorator / add_decorator) and visit_func_def emits and clears them. Every path through visit_func_def from entry to a `return` or to the end passes self.clear_decorators() — except the skip of dataclass-generated methods, which have no decorators: a skip that keeps them (a public-looking function that is not in __all__) attaches them to the next function or method written to the stub (`@overload @overload def area`, a decorated __init__), and mypy and stubtest reject the stub", floor=2)
    f = ix.func("mypy.stubgen.ASTStubGenerator.visit_func_def")
    g = CFG(f.node)
    clears = [n for n in g.nodes if n.kind == "stmt" and any(isinstance(c, ast.Call) and call_name(c) == "clear_decorators" for c in ast.walk(n.stmt))]
    if not clears:
        raise AnalysisError("ASTStubGenerator.visit_func_def: no clear_decorators() call found")
    par = f.module.parents()
    from ..cfg import branch_conditions
    ends = [n for n in g.nodes if n.kind == "stmt" and isinstance(n.stmt, ast.Return)]
    for n in ends:
        pos, neg = branch_conditions(par, f.node, n.stmt)
        cond = " and ".join(norm(t)[:60] for t in pos) or "<unconditional>"
        key = f"visit_func_def: the return under `{cond[:90]}` leaves no pending decorators"
        exempt = any("dataclass_generated" in norm(t) or "plugin_generated" in norm(t) for t in pos)
        if exempt:
            r3.ok(key, f.loc(n.stmt), "methods generated by the dataclass plugin carry no decorators")
        elif g.must_pass(g.entry, [n], clears, labels_excluded=("exc",)):
            r3.ok(key, f.loc(n.stmt))
        else:
            r3.violation(key, f.loc(n.stmt), "this `return` is reached without clear_decorators(): decorators already collected for the skipped function are written in front of the next definition that is emitted")
    key = "visit_func_def: the normal end clears the decorators it emitted"
    # paths to the exit that do not go through a return
    if g.must_pass(g.entry, [g.exit], clears + ends, labels_excluded=("exc",)):
        r3.ok(key, f.loc())
    else:
        r3.violation(key, f.loc(), "a path reaches the end of visit_func_def without clear_decorators()")
