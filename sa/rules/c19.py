"""C19 — generated stubs are valid, self-consistent and faithful (small partial).

Validity and faithfulness are properties of the emitted text per input module and are not decided.
Two clauses have a shape in the code:

R19.1  definition-kind coverage: stubgen first collects the top-level names of a module with
       DefinitionFinder (one visit_<kind> per statement kind that binds a name) and later emits
       the stub with ASTStubGenerator.  For every kind the finder records names for, the generator
       has its own visit_<kind> whose code (through the generator's own helper methods) reaches an
       emission (`self.add(...)`) — otherwise definitions of that kind are known to the
       generator's bookkeeping but can never appear in the stub ("every public function, class,
       method and annotated variable of the source appears").
R19.2  the printers are total: AliasPrinter (expressions rendered into annotations, bases and
       defaults) and the annotation printer are NodeVisitor[str] / TypeStrVisitor subclasses; each
       visit_<kind> they define returns a string expression on every path (no fall-through, no bare
       return): a None would be interpolated into the stub text as the name `None` or crash
       ''.join.
"""

from __future__ import annotations

import ast

from ..cfg import CFG, call_name
from ..index import AnalysisError, get_index, norm
from ..report import Check


def reaches_emission(cls, fname: str, seen=None) -> bool:
    seen = seen or set()
    if fname in seen:
        return False
    seen.add(fname)
    f = cls.lookup_method(fname)
    if f is None:
        return False
    for c in ast.walk(f.node):
        if isinstance(c, ast.Call) and isinstance(c.func, ast.Attribute) and isinstance(c.func.value, ast.Name) and c.func.value.id == "self":
            if c.func.attr in ("add", "add_decorator"):
                return True
            if reaches_emission(cls, c.func.attr, seen):
                return True
    return False


def run(chk: Check) -> None:
    ix = get_index()
    r1 = chk.rule("R19.1", "every statement kind for which DefinitionFinder records a top-level name (its visit_<kind> methods) has an own visit_<kind> in ASTStubGenerator that reaches an emission (`self.add(...)`) through the generator's own methods", floor=4)
    finder = ix.cls("mypy.stubgen.DefinitionFinder")
    gen = ix.cls("mypy.stubgen.ASTStubGenerator")
    kinds = sorted(m for m in finder.methods if m.startswith("visit_"))
    if len(kinds) < 4:
        raise AnalysisError(f"DefinitionFinder handles only {kinds}")
    for k in kinds:
        key = f"{k}: names recorded by DefinitionFinder are emitted by ASTStubGenerator"
        own = gen.methods.get(k)
        if own is None:
            r1.violation(key, finder.methods[k].loc(), f"ASTStubGenerator has no {k} of its own (the inherited traverser only recurses): definitions of this kind are counted as defined names but never written to the stub")
        elif reaches_emission(gen, k):
            r1.ok(key, own.loc())
        else:
            r1.violation(key, own.loc(), f"ASTStubGenerator.{k} never reaches self.add(...): nothing is emitted for this kind of definition")
    # the other direction, informational: kinds the generator emits for that the finder does not record
    r2 = chk.rule("R19.2", "each visit_<kind> defined by stubgen's string-producing visitors (AliasPrinter and the annotation printer of stubutil) returns a value on every path: a fall-through would put None into the emitted text", floor=25)
    n = 0
    for cq in ("mypy.stubgen.AliasPrinter", "mypy.stubutil.AnnotationPrinter"):
        c = ix.classes.get(cq)
        if c is None:
            raise AnalysisError(f"{cq} not found")
        for name, f in sorted(c.methods.items()):
            if not name.startswith("visit_"):
                continue
            n += 1
            g = CFG(f.node)
            key = f"{cq.split('.')[-1]}.{name} returns a string on every path"
            rets = [nd for nd in g.nodes if nd.kind == "stmt" and isinstance(nd.stmt, ast.Return)]
            bare = [nd for nd in rets if nd.stmt.value is None or (isinstance(nd.stmt.value, ast.Constant) and nd.stmt.value.value is None)]
            valued = [nd for nd in rets if nd not in bare]
            raises = [nd for nd in g.nodes if nd.kind == "stmt" and isinstance(nd.stmt, ast.Raise)]
            falls = not g.must_pass(g.entry, [g.exit], valued + raises, labels_excluded=("exc",)) if (valued or raises) else True
            if bare:
                r2.violation(key, f.loc(bare[0].stmt), "a bare `return` / `return None` in a method whose result is interpolated into the stub")
            elif falls:
                r2.violation(key, f.loc(), "some path reaches the end of the method without returning a value")
            else:
                r2.ok(key, f.loc())
    if n < 25:
        raise AnalysisError(f"only {n} visit methods found in the stub printers")
    run_pending_decorators_cleared(chk, ix)
    run_class_state_is_a_stack(chk, ix)
    run_word_operator_spacing(chk, ix)
    run_replaced_args_lose_nothing(chk, ix)
    run_exported_names_are_not_private(chk, ix)
    run_init_file_test_for_relative_imports(chk, ix)
    run_replacement_names_are_imported(chk, ix)
    run_literal_strings_kept(chk, ix)
    run_typing_forms_by_resolved_name(chk, ix)
    run_bytes_literals_not_reescaped(chk, ix)


def run_pending_decorators_cleared(chk: Check, ix) -> None:
    """R19.3: decorators collected for a function never outlive the decision not to emit it."""
    r3 = chk.rule("R19.3", "ASTStubGenerator collects the decorators of the next function in self._decorators (process_decorator / add_decorator) and visit_func_def emits and clears them. Every path through visit_func_def from entry to a `return` or to the end passes self.clear_decorators() — except the skip of dataclass-generated methods, which have no decorators: a skip that keeps them (a public-looking function that is not in __all__) attaches them to the next function or method written to the stub (`@overload @overload def area`, a decorated __init__), and mypy and stubtest reject the stub", floor=2)
    f = ix.func("mypy.stubgen.ASTStubGenerator.visit_func_def")
    g = CFG(f.node)
    clears = [n for n in g.nodes if n.kind == "stmt" and any(isinstance(c, ast.Call) and call_name(c) == "clear_decorators" for c in ast.walk(n.stmt))]
    if not clears:
        raise AnalysisError("ASTStubGenerator.visit_func_def: no clear_decorators() call found")
    par = f.module.parents()
    from ..cfg import branch_conditions
    ends = [n for n in g.nodes if n.kind == "stmt" and isinstance(n.stmt, ast.Return)]
    for n in ends:
        pos, neg = branch_conditions(par, f.node, n.stmt)
        cond = " and ".join(norm(t)[:60] for t in pos) or "<unconditional>"
        key = f"visit_func_def: the return under `{cond[:90]}` leaves no pending decorators"
        exempt = any("dataclass_generated" in norm(t) or "plugin_generated" in norm(t) for t in pos)
        if exempt:
            r3.ok(key, f.loc(n.stmt), "methods generated by the dataclass plugin carry no decorators")
        elif g.must_pass(g.entry, [n], clears, labels_excluded=("exc",)):
            r3.ok(key, f.loc(n.stmt))
        else:
            r3.violation(key, f.loc(n.stmt), "this `return` is reached without clear_decorators(): decorators already collected for the skipped function are written in front of the next definition that is emitted")
    key = "visit_func_def: the normal end clears the decorators it emitted"
    # paths to the exit that do not go through a return
    if g.must_pass(g.entry, [g.exit], clears + ends, labels_excluded=("exc",)):
        r3.ok(key, f.loc())
    else:
        r3.violation(key, f.loc(), "a path reaches the end of visit_func_def without clear_decorators()")


def run_class_state_is_a_stack(chk: Check, ix) -> None:
    """R19.4: what stubgen knows about the class it is in is restored, not reset, when a nested class ends."""
    r4 = chk.rule("R19.4", "ASTStubGenerator.visit_class_def sets per-class state on entry (method_names, processing_enum, processing_dataclass, dataclass_field_specifier) and classes nest, so after the body has been visited (`super().visit_class_def(o)`) each of these attributes gets back the value it had on entry (an assignment from something saved before), not a constant: a constant reset at the end of a *nested* class switches the enclosing dataclass / enum / method-name handling off for the rest of the outer body (fields lose their defaults, a generated __init__ is emitted, enum members become annotations, `meth: int` next to `def meth`)", floor=3)
    f = ix.func("mypy.stubgen.ASTStubGenerator.visit_class_def")
    body = f.node.body
    idx = next((i for i, s in enumerate(body) if any(isinstance(c, ast.Call) and norm(c.func) == "super().visit_class_def" for c in ast.walk(s))), None)
    if idx is None:
        raise AnalysisError("ASTStubGenerator.visit_class_def: the `super().visit_class_def(o)` call was not found at the top level of the method")

    def self_targets(stmts):
        out = []
        for s in stmts:
            for a in ast.walk(s):
                if isinstance(a, ast.Assign):
                    for t in a.targets:
                        elts = t.elts if isinstance(t, ast.Tuple) else [t]
                        vals = a.value.elts if isinstance(t, ast.Tuple) and isinstance(a.value, ast.Tuple) and len(a.value.elts) == len(t.elts) else [a.value] * len(elts)
                        for e, v in zip(elts, vals):
                            if isinstance(e, ast.Attribute) and norm(e.value) == "self":
                                out.append((e.attr, v, a))
        return out
    output_state = {"_state", "_output"}
    entry = {a for a, v, _ in self_targets(body[:idx]) if a not in output_state}
    # also flags that helper methods called on entry set (get_class_decorators sets processing_dataclass)
    if len(entry) < 3:
        raise AnalysisError(f"visit_class_def: per-class attributes set on entry: {sorted(entry)}")
    after = self_targets(body[idx + 1:])
    for attr in sorted(entry):
        rs = [(v, a) for a_, v, a in after if a_ == attr]
        key = f"visit_class_def: self.{attr} gets back the enclosing class's value at the end"
        if not rs:
            r4.violation(key, f.loc(), f"self.{attr} is set on entry and never restored after the body: the value of the nested class leaks into the rest of the enclosing class")
            continue
        v, a = rs[-1]
        is_const = isinstance(v, ast.Constant) or (isinstance(v, (ast.Tuple, ast.List, ast.Set, ast.Dict)) and not getattr(v, "elts", getattr(v, "keys", []))) or (isinstance(v, ast.Call) and not v.args and norm(v.func) in ("set", "list", "dict", "tuple"))
        if is_const:
            r4.violation(key, f.loc(a), f"after the class body `self.{attr} = {norm(v)}` resets the attribute to a constant: when the class that just ended was nested, the enclosing class (a dataclass, an enum, a class with methods) loses its setting for the rest of its body")
        else:
            r4.ok(key, f.loc(a))


def run_word_operator_spacing(chk: Check, ix) -> None:
    """R19.5: a unary operator is not glued to its operand when it is a word."""
    r5 = chk.rule("R19.5", "stubgen prints unary expressions (defaults, alias targets) by interpolating the operator in front of the operand; Python's unary operators include the word `not`, so an f-string that places `{<node>.op}` directly in front of the next interpolation (`f\"{o.op}{...}\"`) produces `not1` / `notx`, an undefined name in the stub: the interpolated operator is a local that was normalised (`'not ' if op == 'not' else op`) or the f-string has a separator", floor=2)
    m = ix.module("mypy.stubgen")
    n = 0
    for f in list(m.functions.values()) + [mm for c in m.classes.values() for mm in c.methods.values()]:
        unary = any("UnaryExpr" in norm(a.annotation) for a in f.node.args.args + f.node.args.posonlyargs if a.annotation is not None) or any(isinstance(c, ast.Call) and norm(c.func) == "isinstance" and len(c.args) == 2 and "UnaryExpr" in norm(c.args[1]) for c in ast.walk(f.node))
        if not unary:
            continue
        for js in ast.walk(f.node):
            if not isinstance(js, ast.JoinedStr):
                continue
            vals = js.values
            for i, v in enumerate(vals[:-1]):
                if isinstance(v, ast.FormattedValue) and isinstance(vals[i + 1], ast.FormattedValue):
                    e = v.value
                    is_raw_op = isinstance(e, ast.Attribute) and e.attr == "op"
                    is_local_op = isinstance(e, ast.Name) and e.id == "op"
                    if not (is_raw_op or is_local_op):
                        continue
                    n += 1
                    key = f"{f.qualname}: the operator in `{norm(js)[:50]}` is separated from its operand when it is a word"
                    if is_local_op and any(isinstance(a, ast.Assign) and norm(a.targets[0]) == "op" and "not " in norm(a.value) for a in ast.walk(f.node)):
                        r5.ok(key, f.loc(js))
                    else:
                        r5.violation(key, f.loc(js), f"`{norm(e)}` is interpolated directly in front of the operand: for the operator `not` the text is `not1` / `notx`, which the stub's reader parses as a name")
    if n < 2:
        raise AnalysisError(f"stubgen: {n} unary-operator interpolations found (expected AliasPrinter.visit_unary_expr and get_str_default_of_node)")


def run_replaced_args_lose_nothing(chk: Check, ix) -> None:
    """R19.6: an argument list is replaced by inferred signatures only when the replacement drops nothing the source said."""
    r6 = chk.rule("R19.6", "ASTStubGenerator._get_func_args replaces the whole argument list of a known special method by the result of stubutil.infer_method_arg_types, which builds fresh ArgSig objects from names only. Every ArgSig field that those constructions leave at its default (what the source said about the argument: its `default`, its `type`) is tested in the guard of the replacement for *all* arguments (`all(arg.type is None and arg.default is False ...)`): otherwise `def __exit__(self, exc_type=None, exc=None, tb=None)` comes out without its defaults and stubtest rejects the stub", floor=2)
    arg_cls = ix.cls("mypy.stubdoc.ArgSig")
    init = arg_cls.methods["__init__"]
    a = init.node.args
    fields = [p.arg for p in a.args[1:] + a.kwonlyargs]
    imt = ix.func("mypy.stubutil.infer_method_arg_types")
    set_fields = set()
    for c in ast.walk(imt.node):
        if isinstance(c, ast.Call) and call_name(c) == "ArgSig":
            these = set(fields[: len(c.args)]) | {k.arg for k in c.keywords}
            set_fields = these if not set_fields else (set_fields & these)
    dropped = [x for x in fields if x not in set_fields and x not in ("name", "default_value")]
    informative = list(dict.fromkeys(["type"] + dropped))  # the inferred type replaces the source's: the source must not have had one
    if "default" not in dropped:
        raise AnalysisError(f"infer_method_arg_types now sets {sorted(set_fields)}; the rule's premise (defaults are dropped) no longer holds")
    f = ix.func("mypy.stubgen.ASTStubGenerator._get_func_args")
    guards = [i for i in ast.walk(f.node) if isinstance(i, ast.If) and any(isinstance(c, ast.Call) and call_name(c) == "infer_method_arg_types" for s in i.body for c in ast.walk(s))]
    if not guards:
        raise AnalysisError("_get_func_args: the guard around infer_method_arg_types was not found")
    g = guards[0]
    for fld in informative:
        key = f"_get_func_args: inferred signatures replace the arguments only if no argument has a `{fld}`"
        ok = False
        for c in ast.walk(g.test):
            if isinstance(c, ast.Call) and call_name(c) in ("all", "any") and c.args and isinstance(c.args[0], ast.GeneratorExp):
                if any(isinstance(x, ast.Attribute) and x.attr == fld for x in ast.walk(c.args[0].elt)):
                    ok = True
        if ok:
            r6.ok(key, f.loc(g))
        else:
            r6.violation(key, f.loc(g), f"the guard `{norm(g.test)[:100]}` does not look at `arg.{fld}`: infer_method_arg_types builds ArgSig objects without it, so what the source said is lost (`tb=None` becomes `tb`)")


def run_exported_names_are_not_private(chk: Check, ix) -> None:
    """R19.7: a name listed in __all__ is never hidden as private."""
    r7 = chk.rule("R19.7", "BaseStubGenerator.get_dunder_all() copies the whole runtime `__all__` into the stub, so the stub promises every name in it; is_private_name() decides which definitions are dropped. Every `return` of is_private_name that can be True (other than the one for mypy-generated `__mypy-` symbols, which cannot be in `__all__`) is reached only through the `name in self._all_` test (CFG must-pass-through): otherwise a name the stub's own `__all__` lists (an ignored dunder such as `__author__`, a `_private` name) is missing from the stub and stubtest reports it", floor=2)
    cls = ix.cls("mypy.stubutil.BaseStubGenerator")
    f = cls.methods.get("is_private_name")
    gda = cls.methods.get("get_dunder_all")
    if f is None or gda is None or not any(isinstance(x, ast.Attribute) and x.attr == "_all_" for x in ast.walk(gda.node)):
        raise AnalysisError("BaseStubGenerator.is_private_name / get_dunder_all (emitting self._all_) not found")
    g = CFG(f.node)
    tests = [nd for nd in g.nodes if nd.kind in ("test", "cond", "branch") and any(isinstance(c, ast.Compare) and any(isinstance(o, ast.In) for o in c.ops) and any(norm(k) == "self._all_" for k in c.comparators) for e in nd.exprs for c in ast.walk(e))]
    if not tests:
        tests = [nd for nd in g.nodes if nd.stmt is not None and isinstance(nd.stmt, ast.If) and "in self._all_" in norm(nd.stmt.test)]
    if not tests:
        raise AnalysisError("is_private_name: no `name in self._all_` test found")
    n = 0
    par = f.module.parents()
    for nd in g.nodes:
        if nd.kind != "stmt" or not isinstance(nd.stmt, ast.Return):
            continue
        v = nd.stmt.value
        if isinstance(v, ast.Constant) and v.value is False:
            continue
        conds = [norm(c) for c in guard_chain_simple(par, f.node, nd.stmt)]
        if any("__mypy-" in c for c in conds):
            continue
        n += 1
        key = f"is_private_name: `{norm(nd.stmt)[:50]}` is reached only after the __all__ test"
        if g.must_pass(g.entry, [nd], tests, labels_excluded=("exc",)):
            r7.ok(key, f.loc(nd.stmt))
        else:
            r7.violation(key, f.loc(nd.stmt), "a path from the entry reaches this return without asking whether the name is in `self._all_`: an exported name of that shape is dropped from the stub while the stub's `__all__` still lists it ('Names in __all__ with no definition', stubtest: not present in stub)")
    if n < 2:
        raise AnalysisError(f"is_private_name: only {n} possibly-True returns found")


def guard_chain_simple(par, func, node):
    out = []
    child, p = node, par[node]
    while p is not func:
        if isinstance(p, ast.If) and child in p.body:
            out.append(p.test)
        child, p = p, par[p]
    return out


def run_init_file_test_for_relative_imports(chk: Check, ix) -> None:
    """R19.8: stubgen decides "this file is a package __init__" the way the rest of mypy does."""
    r8 = chk.rule("R19.8", "util.correct_relative_import's last argument says whether the importing file is a package `__init__`: a relative import there is resolved against the package itself, elsewhere against the parent. All callers in mypy/ ask the file's *base name* (MypyFile.is_package_init_file(), an attribute set from it, or os.path.basename(path)); stubgen's call does the same. A suffix test on the whole path (`path.endswith('.__init__.py')`) cannot hold for a file-system path, and then `from .core import X` in pkg/__init__.py is resolved to `core`, the same-package re-export rule of should_reexport() does not fire and the stub lacks `X as X`", floor=1)
    n = 0
    for mn in ("mypy.stubgen", "mypy.stubutil"):
        m = ix.module(mn)
        for f in list(m.functions.values()) + [mm for c in m.classes.values() for mm in c.methods.values()]:
            for c in ast.walk(f.node):
                if not (isinstance(c, ast.Call) and call_name(c) == "correct_relative_import" and len(c.args) >= 4):
                    continue
                n += 1
                a3 = c.args[3]
                if isinstance(a3, ast.Name):
                    defs = [x.value for x in ast.walk(f.node) if isinstance(x, ast.Assign) and len(x.targets) == 1 and isinstance(x.targets[0], ast.Name) and x.targets[0].id == a3.id]
                    if len(defs) == 1:
                        a3 = defs[0]
                t = norm(a3)
                key = f"{mn.removeprefix('mypy.')}.{f.name}: the package-__init__ test of correct_relative_import looks at the file's base name"
                if "is_package_init_file" in t or "basename(" in t:
                    r8.ok(key, f.loc(c))
                else:
                    r8.violation(key, f.loc(c), f"`{t[:80]}` does not ask the base name of the file: for pkg/__init__.py the relative import is resolved one level too high, so names imported from the package's own submodules are not re-exported in the stub")
    if n < 1:
        raise AnalysisError("stubgen: no call of correct_relative_import with an init-file argument found")


def run_replacement_names_are_imported(chk: Check, ix) -> None:
    """R19.9: a name the printers put into the stub in place of a typing alias is imported whenever it needs an import."""
    r9 = chk.rule("R19.9", "the stub printers replace `typing.List` etc. by the builtin (`TYPING_BUILTIN_REPLACEMENTS`) through BaseStubGenerator.add_name(), which returns an alias (`_list`, imported `from builtins import list as _list`) when the module defines the plain name itself. The returned text goes straight into the stub, so every such call leaves `require` at its default or passes True: with require=False the import is registered but never emitted and the stub uses an undefined name", floor=2)
    n = 0
    for mn in ("mypy.stubgen", "mypy.stubutil"):
        m = ix.module(mn)
        for f in list(m.functions.values()) + [mm for c in m.classes.values() for mm in c.methods.values()]:
            for c in ast.walk(f.node):
                if not (isinstance(c, ast.Call) and call_name(c) == "add_name" and c.args and "TYPING_BUILTIN_REPLACEMENTS" in norm(c.args[0])):
                    continue
                n += 1
                req = next((k.value for k in c.keywords if k.arg == "require"), c.args[1] if len(c.args) > 1 else None)
                key = f"{mn.removeprefix('mypy.')}.{f.qualname.split('.')[-2] if '.' in f.qualname else ''}.{f.name}: the builtin replacement is imported when it needs an alias"
                if req is None or (isinstance(req, ast.Constant) and req.value is True):
                    r9.ok(key, f.loc(c))
                else:
                    r9.violation(key, f.loc(c), f"`{norm(c)[:80]}`: with `def list(): ...` in the module the replacement is spelled `_list` and nothing requires `from builtins import list as _list`: the stub line `Alias = _list[int]` refers to an undefined name")
    if n < 2:
        raise AnalysisError(f"stubgen/stubutil: only {n} add_name(TYPING_BUILTIN_REPLACEMENTS[...]) calls found")


def run_literal_strings_kept(chk: Check, ix) -> None:
    """R19.10: the string arguments of Literal[...] do not go through the type-name rewriting."""
    r10 = chk.rule("R19.10", "AnnotationPrinter.visit_unbound_type rewrites type names (typing.List -> list, Optional -> `X | None`, unknown -> Incomplete) and prints the arguments of a generic through itself (args_str -> arg.accept(self)); a quoted argument is an UnboundType carrying `original_str_expr`. For `Literal[...]` such an argument is a value: visit_unbound_type tells args_str that the enclosing type is Literal (a test naming typing.Literal), and args_str emits `original_str_expr` for those arguments on a branch that does not call `accept`", floor=2)
    cls = ix.cls("mypy.stubutil.AnnotationPrinter")
    vu, ar = cls.methods.get("visit_unbound_type"), cls.methods.get("args_str")
    if vu is None or ar is None:
        raise AnalysisError("AnnotationPrinter.visit_unbound_type / args_str not found")
    key = "visit_unbound_type: args_str is told when the enclosing type is Literal"
    calls = [c for c in ast.walk(vu.node) if isinstance(c, ast.Call) and call_name(c) == "args_str"]
    if not calls:
        raise AnalysisError("visit_unbound_type: no call of args_str found")
    defs = {a.targets[0].id: a.value for a in ast.walk(vu.node) if isinstance(a, ast.Assign) and len(a.targets) == 1 and isinstance(a.targets[0], ast.Name)}
    told = False
    for c in calls:
        for k in c.keywords:
            v = defs.get(k.value.id, k.value) if isinstance(k.value, ast.Name) else k.value
            if "typing.Literal" in norm(v):
                told = True
    if told:
        r10.ok(key, vu.loc(calls[0]))
    else:
        r10.violation(key, vu.loc(calls[0]), "args_str is called the same way for Literal[...] as for any generic: `Literal['List']` is printed as `Literal['list']`, `Literal['Optional']` as `Literal['Incomplete']`")
    key = "args_str: quoted arguments of a Literal are emitted as written, without accept()"
    ok = False
    for i in ast.walk(ar.node):
        if isinstance(i, ast.If) and "original_str_expr" in norm(i.test) and any(isinstance(x, ast.Continue) for st in i.body for x in ast.walk(st)) and not any(isinstance(c, ast.Call) and call_name(c) == "accept" for st in i.body for c in ast.walk(st)):
            params = {a.arg for a in ar.node.args.args + ar.node.args.kwonlyargs}
            if any(isinstance(x, ast.Name) and x.id in params - {"self", "args"} for x in ast.walk(i.test)):
                ok = True
    if ok:
        r10.ok(key, ar.loc())
    else:
        r10.violation(key, ar.loc(), "every argument is printed with arg.accept(self): a quoted Literal value that happens to be a typing name is rewritten like a type")


TYPING_FORMS = {"TypeAlias", "Final", "ClassVar", "Literal", "Annotated"}


def _written_name_compares(node: ast.AST):
    """Comparisons of a written (unresolved) `.name` with the bare name of a typing special form."""
    out = []
    for c in ast.walk(node):
        if isinstance(c, ast.Compare) and len(c.ops) == 1 and isinstance(c.ops[0], (ast.Eq, ast.In)):
            sides = [c.left, c.comparators[0]]
            lits = [x for x in sides if isinstance(x, ast.Constant) and x.value in TYPING_FORMS]
            names = [x for x in sides if (isinstance(x, ast.Attribute) and x.attr == "name") or (isinstance(x, ast.Call) and call_name(x) == "getattr" and len(x.args) >= 2 and isinstance(x.args[1], ast.Constant) and x.args[1].value == "name")]
            if lits and names:
                out.append(c)
    return out


def run_typing_forms_by_resolved_name(chk: Check, ix) -> None:
    """R19.11: stubgen recognises TypeAlias / Final by what the written name resolves to."""
    r11 = chk.rule("R19.11", "an annotation can spell a typing special form as `Final`, `typing.Final` or `t.Final`; the stub text for `X: TypeAlias = int` and for a bare `Final` is special (the value is kept; `Final` gets its argument), and both are invalid in a stub when treated as an ordinary annotation. mypy/stubgen.py decides these cases through the module's import table (resolve_name / is_typing_name); it contains no comparison of a written `.name` with the bare string 'TypeAlias' / 'Final' / ... (the detector is run on a built-in positive example first)", floor=2)
    pos = ast.parse("def f(self, o):\n    return o.unanalyzed_type and getattr(o.type, 'name', None) == 'TypeAlias'\n")
    neg = ast.parse("def f(self, a):\n    return self.is_typing_name(a.name, 'Final')\n")
    if len(_written_name_compares(pos)) != 1 or _written_name_compares(neg):
        raise AnalysisError("R19.11 detector self-check failed")
    m = ix.module("mypy.stubgen")
    uses = 0
    for f in list(m.functions.values()) + [mm for c in m.classes.values() for mm in c.methods.values()]:
        if f.parent is not None:
            continue
        for c in _written_name_compares(f.node):
            r11.violation(f"stubgen.{f.name}: `{norm(c)[:60]}` compares a written name with a typing form", f.loc(c), "a name written with a module prefix (`typing.TypeAlias`, `t.Final`) does not compare equal: the alias loses its value (`X: typing.TypeAlias`) or `Final` its argument, and mypy rejects the stub")
        for c in ast.walk(f.node):
            if isinstance(c, ast.Call) and call_name(c) == "is_typing_name" and len(c.args) == 2 and isinstance(c.args[1], ast.Constant) and c.args[1].value in TYPING_FORMS:
                uses += 1
                r11.ok(f"stubgen.{f.name}: `{c.args[1].value}` is recognised through is_typing_name", f.loc(c))
    if uses < 2 and not r11.count(("VIOLATION",)):
        raise AnalysisError(f"stubgen: only {uses} is_typing_name(<name>, 'TypeAlias'|'Final') decisions found")


def run_bytes_literals_not_reescaped(chk: Check, ix) -> None:
    """R19.12: the stored text of a bytes literal is not escaped a second time."""
    r12 = chk.rule("R19.12", "BytesExpr.value is the text between the quotes of repr(<the bytes>): escapes are already spelled out (`\\n`, `\\'`). stubgen writes a bytes literal by putting that text between quotes; it never applies repr() to it (which doubles every backslash and, with both quote characters present, leaves an unterminated literal even after un-doubling). Every expression in mypy/stubgen.py that renders a BytesExpr (a function taking `.value` of a node tested `isinstance(..., BytesExpr)`, or a visit_bytes_expr) is free of `repr(<...>.value)`", floor=2)
    m = ix.module("mypy.stubgen")
    n = 0
    for f in list(m.functions.values()) + [mm for c in m.classes.values() for mm in c.methods.values()]:
        sites = []
        if f.name == "visit_bytes_expr":
            sites = [f.node]
        else:
            for i in ast.walk(f.node):
                if isinstance(i, ast.If) and "BytesExpr" in norm(i.test) and "isinstance" in norm(i.test):
                    rets = [st for st in i.body if isinstance(st, ast.Return) and st.value is not None and ".value" in norm(st.value)]
                    sites += rets
        for site in sites:
            n += 1
            key = f"stubgen.{f.name}: a bytes literal is written from its stored text"
            calls = [c for c in ast.walk(site) if isinstance(c, ast.Call) and ((isinstance(c.func, ast.Name) and c.func.id == "repr") or call_name(c) == "_visit_literal_node")]
            if not calls:
                r12.ok(key, f.loc(site) if site is not f.node else f.loc())
            else:
                r12.violation(key, f.loc(calls[0]), f"`{norm(calls[0])[:60]}` re-escapes text that is already escaped: `def q(a=b'\\'\"')` is written as `b'\\\\'\"'` (a syntax error in the stub), and a bytes value printed through the alias printer gets doubled backslashes")
    if n < 2:
        raise AnalysisError(f"stubgen: only {n} places that render a BytesExpr found")
