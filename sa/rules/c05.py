"""C05 — compiled code behaves like the source: interface clauses only.

R05.1  primitive table <-> C runtime signatures: every primitive bound to a literal
       c_function_name has a C declaration of that name in mypyc/lib-rt (or is a function-like
       macro of matching arity); argument count = len(arg_types) + len(extra_int_constants); every
       argument/return RPrimitive's C type is ABI-compatible with the C parameter/return type.
R05.2  error kind <-> can-fail: a primitive declared ERR_NEVER is not bound to a C body that
       returns NULL (pointer result) unless returns_null=True; ERR_FALSE needs a truth-typed C
       result; ERR_NEG_INT an int result.
R05.3  pass order of compile_scc_to_ir.
"""

from __future__ import annotations

import ast
import re

from ..cfront import lib_rt_functions
from ..index import AnalysisError, get_index, norm
from ..report import Check
from .c06 import pass_order

INT64ISH = {"int64_t", "Py_ssize_t", "long", "longlong", "CPyPtr", "Py_hash_t", "ssize_t", "intptr_t"}
UINT64ISH = {"uint64_t", "size_t", "CPyTagged", "unsignedlong", "uintptr_t"}
TRUTH = {"char", "bool", "int", "_Bool"}


def cnorm(t: str) -> str:
    t = re.sub(r"\b(const|volatile|restrict|struct)\b", "", t)
    return re.sub(r"\s+", "", t)


def compatible(ctype: str, cparam: str, truth_ok: bool = False) -> bool:
    a, b = cnorm(ctype), cnorm(cparam)
    if a == b:
        return True
    ptr = lambda t: t.endswith("*") or "(*)" in t  # noqa: E731
    if ptr(a) and ptr(b):
        return True  # object / data / function pointers: PyObject * vs PyXxxObject * / void *
    if a in INT64ISH and b in INT64ISH:
        return True
    if a in UINT64ISH and b in UINT64ISH:
        return True
    if (a in INT64ISH and b in UINT64ISH) or (a in UINT64ISH and b in INT64ISH):
        return a in ("CPyPtr", "Py_ssize_t", "size_t", "CPyTagged") and b in ("CPyPtr", "Py_ssize_t", "size_t", "CPyTagged", "uint64_t", "int64_t") and {a, b} <= {"CPyPtr", "Py_ssize_t", "size_t"}
    if a in TRUTH and b in TRUTH:
        return True
    if {a, b} <= {"int32_t", "int", "Py_UCS4", "uint32_t"} and a in ("int32_t", "int") and b in ("int32_t", "int"):
        return True
    if {a, b} <= {"double", "float"}:
        return a == b
    if a.endswith("*") and b in ("CPyPtr", "void*"):
        return True
    if b.endswith("*") and a in ("CPyPtr",):
        return True
    return False


def rtype_table(ix) -> dict[str, str]:
    m = ix.module("mypyc.ir.rtypes")
    out = {}
    for nm, v in m.assigns.items():
        if isinstance(v, ast.Call) and isinstance(v.func, ast.Name) and v.func.id == "RPrimitive":
            kw = {k.arg: k.value for k in v.keywords}
            ct = kw.get("ctype")
            out[nm] = ct.value if isinstance(ct, ast.Constant) else "PyObject *"
    if len(out) < 25:
        raise AnalysisError(f"only {len(out)} RPrimitive definitions found")
    return out


def primitive_sites(ix, modules_prefix=("mypyc.primitives", "mypyc.irbuild", "mypyc.lower", "mypyc.codegen")):
    sites = []
    for mname, m in sorted(ix.modules.items()):
        if not mname.startswith(modules_prefix):
            continue
        for n in ast.walk(m.tree):
            if isinstance(n, ast.Call):
                kw = {k.arg: k.value for k in n.keywords if k.arg}
                c = kw.get("c_function_name")
                if isinstance(c, ast.Constant) and isinstance(c.value, str):
                    sites.append((m, n, kw, c.value))
    if len(sites) < 300:
        raise AnalysisError(f"only {len(sites)} primitive bindings with a literal c_function_name found")
    return sites


def run(chk: Check, only_numeric: bool = False) -> None:
    ix = get_index()
    funcs, macros = lib_rt_functions(ix.root)
    ctype = rtype_table(ix)
    sites = primitive_sites(ix)
    chk.trusted.append("clang's AST of mypyc/lib-rt (default defines, interpreter include directory) equals what the real build compiles")
    chk.extra.update(c_functions=len(funcs), c_macros=len(macros), primitive_bindings=len(sites), rprimitives=len(ctype))
    numeric_mods = ("mypyc.primitives.int_ops", "mypyc.primitives.float_ops")

    r1 = chk.rule("R05.1" if not only_numeric else "R15.0", "each primitive's declared arity and RPrimitive C types agree with the C declaration it is bound to", floor=250 if not only_numeric else 40)
    r2 = chk.rule("R05.2" if not only_numeric else "R15.0e", "declared error kinds agree with what the bound C body can return", floor=100 if not only_numeric else 20)
    n_macro = 0
    for m, n, kw, cname in sites:
        if only_numeric and m.name not in numeric_mods and not re.search(r"Tagged|Float|Int64|Int32|Int16|UInt8|Long", cname):
            continue
        where = f"{m.relpath}:{n.lineno}"
        decl = funcs.get(cname)
        at = kw.get("arg_types")
        n_args = len(at.elts) if isinstance(at, ast.List) else None
        extra = kw.get("extra_int_constants")
        n_extra = len(extra.elts) if isinstance(extra, ast.List) else 0
        var = kw.get("var_arg_type")
        has_var = var is not None and not (isinstance(var, ast.Constant) and var.value is None)
        key = f"{m.name}: {cname} [{norm(n.func)} @{call_label(kw)}]"
        if decl is None:
            if cname in macros:
                n_macro += 1
                if macros[cname] < 0:
                    r1.ok(key + (" (capsule API slot)" if macros[cname] == -1 else " (conditionally compiled)"), where, "declared in lib-rt; signature not available to this analysis")
                elif n_args is not None and not has_var and macros[cname] != n_args + n_extra:
                    r1.violation(key + " macro arity", where, f"macro {cname} takes {macros[cname]} parameters, the primitive passes {n_args}+{n_extra}")
                else:
                    r1.ok(key + " (macro)", where)
            else:
                r1.violation(key + " declared in lib-rt", where, f"no C function or macro named {cname} in mypyc/lib-rt or the Python headers: the generated C would not link")
            continue
        params = decl["params"]
        if n_args is not None:
            if has_var:
                if len(params) < n_args and not decl["variadic"]:
                    r1.violation(key + " arity", where, f"C function takes {len(params)} parameters, fewer than the {n_args} fixed arguments")
                    continue
            elif n_args + n_extra != len(params) and not decl["variadic"]:
                r1.violation(key + " arity", where, f"primitive passes {n_args} args + {n_extra} int constants, C function `{decl['ret']} {cname}({', '.join(params)})` takes {len(params)}")
                continue
            bad = []
            elts = list(at.elts)
            order = kw.get("ordering")
            if isinstance(order, ast.List) and all(isinstance(x, ast.Constant) for x in order.elts) and len(order.elts) == len(elts):
                elts = [elts[x.value] for x in order.elts]  # the call passes the operands in this order
            for i, e in enumerate(elts):
                tn = e.id if isinstance(e, ast.Name) else (e.attr if isinstance(e, ast.Attribute) else None)
                if tn in ctype and i < len(params) and not compatible(ctype[tn], params[i]):
                    bad.append(f"arg {i}: {tn} is `{ctype[tn]}` but C parameter is `{params[i]}`")
            rt = kw.get("return_type")
            rn = rt.id if isinstance(rt, ast.Name) else (rt.attr if isinstance(rt, ast.Attribute) else None)
            trunc = kw.get("truncated_type")
            if rn in ctype and not compatible(ctype[rn], decl["ret"], truth_ok=True) and not (trunc is not None and not (isinstance(trunc, ast.Constant) and trunc.value is None)):
                bad.append(f"result: {rn} is `{ctype[rn]}` but C returns `{decl['ret']}`")
            if bad:
                r1.violation(key + " types", where, "; ".join(bad) + ": the generated call passes/receives a value of a different C type")
            else:
                r1.ok(key, where)
        else:
            r1.ok(key + " (arg list not literal)", where)
        # ---- error kind
        ek = kw.get("error_kind")
        if ek is None or not decl["has_body"]:
            continue
        ekn = norm(ek)
        rets = set(decl["returns"])
        returns_null = kw.get("returns_null")
        rnull = isinstance(returns_null, ast.Constant) and returns_null.value is True
        key2 = f"{m.name}: {cname} error_kind {ekn} [{call_label(kw)}]"
        cret = cnorm(decl["ret"])
        if ekn == "ERR_NEVER" and "NULL" in rets and not rnull and cret.endswith("*"):
            r2.violation(key2, where, f"declared ERR_NEVER but the C body of {cname} contains `return NULL`: a failure leaves an exception pending and the NULL is used as a value")
        elif ekn == "ERR_FALSE" and cret not in TRUTH:
            r2.violation(key2, where, f"declared ERR_FALSE but {cname} returns `{decl['ret']}`, not a truth value")
        elif ekn == "ERR_NEG_INT" and cret not in ("int", "int32_t", "Py_ssize_t", "int64_t", "long", "ssize_t"):
            r2.violation(key2, where, f"declared ERR_NEG_INT but {cname} returns `{decl['ret']}`")
        elif ekn == "ERR_MAGIC" and cret in ("void",):
            r2.violation(key2, where, f"declared ERR_MAGIC but {cname} returns void")
        else:
            r2.ok(key2, where, f"C returns {sorted(rets)[:4]}")
    chk.extra["macro_bound"] = n_macro
    if not only_numeric:
        pass_order(chk, ix)


def call_label(kw) -> str:
    nm = kw.get("name")
    if isinstance(nm, ast.Constant):
        return str(nm.value)
    return ""
