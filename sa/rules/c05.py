"""C05 — compiled code behaves like the source: interface clauses only.

R05.1  primitive table <-> C runtime signatures: every primitive bound to a literal
       c_function_name has a C declaration of that name in mypyc/lib-rt (or is a function-like
       macro of matching arity); argument count = len(arg_types) + len(extra_int_constants); every
       argument/return RPrimitive's C type is ABI-compatible with the C parameter/return type.
R05.2  error kind <-> can-fail: a primitive declared ERR_NEVER is not bound to a C body that
       returns NULL (pointer result) unless returns_null=True; ERR_FALSE needs a truth-typed C
       result; ERR_NEG_INT an int result.
R05.3  pass order of compile_scc_to_ir.
"""

from __future__ import annotations

import ast
import re

from ..cfront import lib_rt_functions
from ..index import AnalysisError, get_index, norm
from ..cfg import call_name
from ..report import Check
from .c06 import pass_order

INT64ISH = {"int64_t", "Py_ssize_t", "long", "longlong", "CPyPtr", "Py_hash_t", "ssize_t", "intptr_t"}
UINT64ISH = {"uint64_t", "size_t", "CPyTagged", "unsignedlong", "uintptr_t"}
TRUTH = {"char", "bool", "int", "_Bool"}


def cnorm(t: str) -> str:
    t = re.sub(r"\b(const|volatile|restrict|struct)\b", "", t)
    return re.sub(r"\s+", "", t)


def compatible(ctype: str, cparam: str, truth_ok: bool = False) -> bool:
    a, b = cnorm(ctype), cnorm(cparam)
    if a == b:
        return True
    ptr = lambda t: t.endswith("*") or "(*)" in t  # noqa: E731
    if ptr(a) and ptr(b):
        return True  # object / data / function pointers: PyObject * vs PyXxxObject * / void *
    if a in INT64ISH and b in INT64ISH:
        return True
    if a in UINT64ISH and b in UINT64ISH:
        return True
    if (a in INT64ISH and b in UINT64ISH) or (a in UINT64ISH and b in INT64ISH):
        return a in ("CPyPtr", "Py_ssize_t", "size_t", "CPyTagged") and b in ("CPyPtr", "Py_ssize_t", "size_t", "CPyTagged", "uint64_t", "int64_t") and {a, b} <= {"CPyPtr", "Py_ssize_t", "size_t"}
    if a in TRUTH and b in TRUTH:
        return True
    if {a, b} <= {"int32_t", "int", "Py_UCS4", "uint32_t"} and a in ("int32_t", "int") and b in ("int32_t", "int"):
        return True
    if {a, b} <= {"double", "float"}:
        return a == b
    if a.endswith("*") and b in ("CPyPtr", "void*"):
        return True
    if b.endswith("*") and a in ("CPyPtr",):
        return True
    return False


def rtype_table(ix) -> dict[str, str]:
    m = ix.module("mypyc.ir.rtypes")
    out = {}
    for nm, v in m.assigns.items():
        if isinstance(v, ast.Call) and isinstance(v.func, ast.Name) and v.func.id == "RPrimitive":
            kw = {k.arg: k.value for k in v.keywords}
            ct = kw.get("ctype")
            out[nm] = ct.value if isinstance(ct, ast.Constant) else "PyObject *"
    if len(out) < 25:
        raise AnalysisError(f"only {len(out)} RPrimitive definitions found")
    return out


def primitive_sites(ix, modules_prefix=("mypyc.primitives", "mypyc.irbuild", "mypyc.lower", "mypyc.codegen")):
    sites = []
    for mname, m in sorted(ix.modules.items()):
        if not mname.startswith(modules_prefix):
            continue
        for n in ast.walk(m.tree):
            if isinstance(n, ast.Call):
                kw = {k.arg: k.value for k in n.keywords if k.arg}
                c = kw.get("c_function_name")
                if isinstance(c, ast.Constant) and isinstance(c.value, str):
                    sites.append((m, n, kw, c.value))
    # bindings made through a helper (`int_binary_op("+", "CPyTagged_Add")`) or a literal loop
    # (`for op, funcname in [("+", "PyNumber_Add"), ...]: binary_op(..., c_function_name=funcname)`)
    import copy

    class Subst(ast.NodeTransformer):
        def __init__(self, env):
            self.env = env

        def visit_Name(self, n):
            return copy.deepcopy(self.env[n.id]) if n.id in self.env and isinstance(n.ctx, ast.Load) else n

    def inner_binding(body_nodes):
        for st in body_nodes:
            for c in ast.walk(st):
                if isinstance(c, ast.Call):
                    kw = {k.arg: k.value for k in c.keywords if k.arg}
                    v = kw.get("c_function_name")
                    if isinstance(v, ast.Name):
                        return c, v.id
        return None

    n_indirect = 0
    for mname, m in sorted(ix.modules.items()):
        if not mname.startswith("mypyc.primitives") or mname == "mypyc.primitives.registry":
            continue
        helpers = {}
        for st in m.tree.body:
            if isinstance(st, ast.FunctionDef):
                ib = inner_binding(st.body)
                if ib and ib[1] in [a.arg for a in st.args.args]:
                    helpers[st.name] = (st, ib[0])
        for st in m.tree.body:
            if isinstance(st, ast.For) and isinstance(st.iter, (ast.List, ast.Tuple)):
                ib = inner_binding(st.body)
                if not ib:
                    continue
                names = [t.id for t in (st.target.elts if isinstance(st.target, ast.Tuple) else [st.target]) if isinstance(t, ast.Name)]
                for item in st.iter.elts:
                    vals = item.elts if isinstance(item, ast.Tuple) else [item]
                    if len(vals) != len(names):
                        continue
                    call = Subst(dict(zip(names, vals))).visit(copy.deepcopy(ib[0]))
                    ast.copy_location(call, item)
                    call.lineno = item.lineno
                    kw = {k.arg: k.value for k in call.keywords if k.arg}
                    c = kw.get("c_function_name")
                    if isinstance(c, ast.Constant) and isinstance(c.value, str):
                        sites.append((m, call, kw, c.value))
                        n_indirect += 1
        for c0 in ast.walk(m.tree):
            if isinstance(c0, ast.Call) and isinstance(c0.func, ast.Name) and c0.func.id in helpers:
                hdef, inner = helpers[c0.func.id]
                params = [a.arg for a in hdef.args.args]
                env = {}
                defaults = hdef.args.defaults
                for pn, dv in zip(params[len(params) - len(defaults):], defaults):
                    env[pn] = dv
                for pn, av in zip(params, c0.args):
                    env[pn] = av
                for k in c0.keywords:
                    if k.arg:
                        env[k.arg] = k.value
                call = Subst(env).visit(copy.deepcopy(inner))
                call.lineno = c0.lineno
                kw = {k.arg: k.value for k in call.keywords if k.arg}
                c = kw.get("c_function_name")
                if isinstance(c, ast.Constant) and isinstance(c.value, str):
                    sites.append((m, call, kw, c.value))
                    n_indirect += 1
    if len(sites) < 300:
        raise AnalysisError(f"only {len(sites)} primitive bindings with a literal c_function_name found")
    if n_indirect < 40:
        raise AnalysisError(f"only {n_indirect} helper/loop-made primitive bindings resolved")
    return sites


def run(chk: Check, only_numeric: bool = False) -> None:
    ix = get_index()
    funcs, macros = lib_rt_functions(ix.root)
    ctype = rtype_table(ix)
    sites = primitive_sites(ix)
    chk.trusted.append("clang's AST of mypyc/lib-rt (default defines, interpreter include directory) equals what the real build compiles")
    chk.extra.update(c_functions=len(funcs), c_macros=len(macros), primitive_bindings=len(sites), rprimitives=len(ctype))
    numeric_mods = ("mypyc.primitives.int_ops", "mypyc.primitives.float_ops")

    r1 = chk.rule("R05.1" if not only_numeric else "R15.0", "each primitive's declared arity and RPrimitive C types agree with the C declaration it is bound to", floor=250 if not only_numeric else 40)
    r2 = chk.rule("R05.2" if not only_numeric else "R15.0e", "declared error kinds agree with what the bound C body can return", floor=100 if not only_numeric else 20)
    n_macro = 0
    for m, n, kw, cname in sites:
        if only_numeric and m.name not in numeric_mods and not re.search(r"Tagged|Float|Int64|Int32|Int16|UInt8|Long", cname):
            continue
        where = f"{m.relpath}:{n.lineno}"
        decl = funcs.get(cname)
        at = kw.get("arg_types")
        if at is None and kw.get("arg_type") is not None:
            at = ast.List(elts=[kw["arg_type"]], ctx=ast.Load())
        if isinstance(at, ast.BinOp) and isinstance(at.op, ast.Mult) and isinstance(at.left, ast.List) and isinstance(at.right, ast.Constant) and isinstance(at.right.value, int):
            at = ast.List(elts=list(at.left.elts) * at.right.value, ctx=ast.Load())
        n_args = len(at.elts) if isinstance(at, ast.List) else None
        extra = kw.get("extra_int_constants")
        n_extra = len(extra.elts) if isinstance(extra, ast.List) else 0
        var = kw.get("var_arg_type")
        has_var = var is not None and not (isinstance(var, ast.Constant) and var.value is None)
        key = f"{m.name}: {cname} [{norm(n.func)} @{call_label(kw)}]"
        if decl is None:
            if cname in macros:
                n_macro += 1
                if macros[cname] < 0:
                    r1.ok(key + (" (capsule API slot)" if macros[cname] == -1 else " (conditionally compiled)"), where, "declared in lib-rt; signature not available to this analysis")
                elif n_args is not None and not has_var and macros[cname] != n_args + n_extra:
                    r1.violation(key + " macro arity", where, f"macro {cname} takes {macros[cname]} parameters, the primitive passes {n_args}+{n_extra}")
                else:
                    r1.ok(key + " (macro)", where)
            else:
                r1.violation(key + " declared in lib-rt", where, f"no C function or macro named {cname} in mypyc/lib-rt or the Python headers: the generated C would not link")
            continue
        params = decl["params"]
        if n_args is not None:
            if has_var:
                if len(params) < n_args and not decl["variadic"]:
                    r1.violation(key + " arity", where, f"C function takes {len(params)} parameters, fewer than the {n_args} fixed arguments")
                    continue
            elif n_args + n_extra != len(params) and not decl["variadic"]:
                r1.violation(key + " arity", where, f"primitive passes {n_args} args + {n_extra} int constants, C function `{decl['ret']} {cname}({', '.join(params)})` takes {len(params)}")
                continue
            bad = []
            elts = list(at.elts)
            order = kw.get("ordering")
            if isinstance(order, ast.List) and all(isinstance(x, ast.Constant) for x in order.elts) and len(order.elts) == len(elts):
                elts = [elts[x.value] for x in order.elts]  # the call passes the operands in this order
            for i, e in enumerate(elts):
                tn = e.id if isinstance(e, ast.Name) else (e.attr if isinstance(e, ast.Attribute) else None)
                if tn in ctype and i < len(params) and not compatible(ctype[tn], params[i]):
                    bad.append(f"arg {i}: {tn} is `{ctype[tn]}` but C parameter is `{params[i]}`")
            rt = kw.get("return_type")
            rn = rt.id if isinstance(rt, ast.Name) else (rt.attr if isinstance(rt, ast.Attribute) else None)
            trunc = kw.get("truncated_type")
            if rn in ctype and not compatible(ctype[rn], decl["ret"], truth_ok=True) and not (trunc is not None and not (isinstance(trunc, ast.Constant) and trunc.value is None)):
                bad.append(f"result: {rn} is `{ctype[rn]}` but C returns `{decl['ret']}`")
            if bad:
                r1.violation(key + " types", where, "; ".join(bad) + ": the generated call passes/receives a value of a different C type")
            else:
                r1.ok(key, where)
        else:
            r1.ok(key + " (arg list not literal)", where)
        # ---- error kind
        ek = kw.get("error_kind")
        if ek is None or not decl["has_body"]:
            continue
        ekn = norm(ek)
        rets = set(decl["returns"])
        returns_null = kw.get("returns_null")
        rnull = isinstance(returns_null, ast.Constant) and returns_null.value is True
        key2 = f"{m.name}: {cname} error_kind {ekn} [{call_label(kw)}]"
        cret = cnorm(decl["ret"])
        if ekn == "ERR_NEVER" and "NULL" in rets and not rnull and cret.endswith("*"):
            r2.violation(key2, where, f"declared ERR_NEVER but the C body of {cname} contains `return NULL`: a failure leaves an exception pending and the NULL is used as a value")
        elif ekn == "ERR_NEVER" and not rnull and cret.endswith("*") and fallible_calls(cname, funcs):
            r2.violation(key2, where, f"declared ERR_NEVER but {cname} returns the result of {sorted(fallible_calls(cname, funcs))}, which is NULL with an exception set on failure: the NULL is then used as a value")
        elif ekn == "ERR_FALSE" and cret not in TRUTH:
            r2.violation(key2, where, f"declared ERR_FALSE but {cname} returns `{decl['ret']}`, not a truth value")
        elif ekn == "ERR_NEG_INT" and cret not in ("int", "int32_t", "Py_ssize_t", "int64_t", "long", "ssize_t"):
            r2.violation(key2, where, f"declared ERR_NEG_INT but {cname} returns `{decl['ret']}`")
        elif ekn == "ERR_MAGIC" and cret in ("void",):
            r2.violation(key2, where, f"declared ERR_MAGIC but {cname} returns void")
        else:
            r2.ok(key2, where, f"C returns {sorted(rets)[:4]}")
    chk.extra["macro_bound"] = n_macro
    run_operator_names(chk, sites, only_numeric)
    if only_numeric:
        run_heap_tag_construction(chk, ix, funcs)
    # ---- error value overlap
    r7 = chk.rule("R05.7" if not only_numeric else "R15.5", "a primitive whose result type has no spare value to signal an error (RPrimitive(..., error_overlap=True): fixed-width native ints, float) never declares ERR_MAGIC: the error value of such a type (-113, -113.0) is also a legal result, so the generated code must confirm with PyErr_Occurred() (ERR_MAGIC_OVERLAPPING) or the C function must not fail (ERR_NEVER); with plain ERR_MAGIC `x % y == -113` branches to the error handler with no exception set", floor=45 if not only_numeric else 45)
    rt = ix.module("mypyc.ir.rtypes")
    overlap = {nm for nm, v in rt.assigns.items() if isinstance(v, ast.Call) and isinstance(v.func, ast.Name) and v.func.id == "RPrimitive" and any(k.arg == "error_overlap" and isinstance(k.value, ast.Constant) and k.value.value is True for k in v.keywords)}
    if len(overlap) < 6:
        raise AnalysisError(f"only {sorted(overlap)} RPrimitives with error_overlap=True found")
    for m, n, kw, cname in sites:
        ret, ek = kw.get("return_type"), kw.get("error_kind")
        if not isinstance(ret, ast.Name) or ret.id not in overlap or ek is None:
            continue
        key = f"{m.name}: {cname} -> {ret.id} error_kind {norm(ek)} [{call_label(kw)}]"
        where = f"{m.relpath}:{n.lineno}"
        if norm(ek) == "ERR_MAGIC":
            r7.violation(key, where, f"{ret.id} has error_overlap=True (its error value is a legal result) but the primitive declares ERR_MAGIC: a result equal to the error value is treated as a failure without an exception being set (crash in CPy_AddTraceback / wrong exception)")
        elif norm(ek) in ("ERR_MAGIC_OVERLAPPING", "ERR_NEVER"):
            r7.ok(key, where)
        else:
            r7.violation(key, where, f"error kind {norm(ek)} is not meaningful for a result of type {ret.id}")
    if not only_numeric:
        run_inplace(chk, ix, funcs, sites)
        run_coerce(chk, ix)
        run_env_link(chk, ix)
        run_defaults_chain(chk, ix)
        run_silent_errors(chk, ix, funcs, sites)
        run_specializer_arg_order(chk, ix)
        run_finally_return_register(chk, ix)
        run_lib_rt_sizes_and_signs(chk, ix, funcs)
        run_codec_fast_paths(chk, ix)
        run_pending_return_test(chk, ix)
        run_static_lengths_are_exact(chk, ix)
        run_inherited_class_attributes(chk, ix)
        run_dict_helpers_dispatch_to_same_method(chk, ix, funcs)
        run_loop_carried_registers_created_once(chk, ix)
        run_suspension_values_are_op_values(chk, ix)
        run_loop_operands_are_snapshots(chk, ix)
        pass_order(chk, ix)


def fallible_calls(cname: str, funcs: dict, _seen=None) -> set[str]:
    """Callees whose result `cname` returns directly and that can be NULL: CPython API functions
    returning a pointer (any `Py*`/`_Py*` object-returning call can fail), indirect calls, and
    lib-rt functions that themselves return NULL or such a result."""
    _seen = set() if _seen is None else _seen
    if cname in _seen:
        return set()
    _seen.add(cname)
    out = set()
    d = funcs.get(cname)
    if not d:
        return out
    for r in d["returns"]:
        if not r.startswith("call:"):
            continue
        callee = r[5:]
        if callee in ("_Py_NewRef", "Py_NewRef", "_Py_XNewRef", "Py_XNewRef"):
            continue  # a new reference to an existing object: cannot fail
        cd = funcs.get(callee)
        if cd is not None and cd["has_body"]:
            if "NULL" in cd["returns"] or fallible_calls(callee, funcs, _seen):
                out.add(callee)
        elif callee == "?" or callee.startswith(("Py", "_Py")):
            out.add(callee)
    return out


def call_label(kw) -> str:
    nm = kw.get("name")
    if isinstance(nm, ast.Constant):
        return str(nm.value)
    return ""


MUTABLE_FIRST = {"list_rprimitive", "dict_rprimitive", "set_rprimitive", "object_rprimitive", "bytearray_rprimitive"}


def run_inplace(chk: Check, ix, funcs: dict, sites) -> None:
    """R05.4: augmented assignment on a mutable operand mutates it."""
    r4 = chk.rule("R05.4", "a primitive registered for an augmented-assignment operator (`+=`, `*=`, ...) whose left operand is a mutable object is bound to a CPython in-place API (PySequence_InPlace*/PyNumber_InPlace*) or to a lib-rt function whose every non-NULL result is the result of such an API (transitively) or the operand itself: the compiled `xs *= n` must grow the object other references see, not build a new one", floor=12)

    def inplace(cname: str, seen=()) -> bool:
        if "InPlace" in cname and cname.startswith(("Py", "_Py")):
            return True
        d = funcs.get(cname)
        if d is None or not d.get("has_body") or cname in seen:
            return False
        rets = [r for r in d["returns"] if r != "NULL"]
        if not rets:
            return False
        for r in rets:
            if r.startswith("call:"):
                if not inplace(r[5:], seen + (cname,)):
                    return False
            elif r.startswith("ref:"):
                continue  # a parameter / local holding the operand (identity preserved)
            else:
                return False
        return True

    for m, n, kw, cname in sites:
        nm = kw.get("name")
        if not (isinstance(nm, ast.Constant) and isinstance(nm.value, str) and nm.value.endswith("=") and nm.value not in ("==", "!=", "<=", ">=")):
            continue
        at = kw.get("arg_types")
        first = norm(at.elts[0]) if isinstance(at, ast.List) and at.elts else None
        if first not in MUTABLE_FIRST:
            continue
        key = f"{m.name}: `{nm.value}` on {first} -> {cname} works in place"
        where = f"{m.relpath}:{n.lineno}"
        if inplace(cname):
            r4.ok(key, where)
        else:
            d = funcs.get(cname, {})
            r4.violation(key, where, f"{cname} returns {d.get('returns')}: no in-place CPython API on the way, so the compiled `{nm.value}` creates a new object and only rebinds the target; an alias, an attribute or the caller still sees the old contents (interpreted code mutates the object)")


def run_coerce(chk: Check, ix) -> None:
    """R05.5: coerce() is a no-op only inside one representation and along a subtype edge."""
    import itertools
    r5 = chk.rule("R05.5", "LowLevelIRBuilder.coerce, evaluated over (source unboxed, target unboxed, is_runtime_subtype, is_subtype): the value is passed through unchanged only when both sides have the same boxedness, the source type is a subtype of the target and, for two unboxed types, a runtime subtype; unboxed->boxed always boxes; every other combination reaches a conversion or unbox_or_cast (the runtime type check)", floor=16)
    f = ix.func("mypyc.irbuild.ll_builder.LowLevelIRBuilder.coerce")
    ATOMS = {"src_type.is_unboxed": "SU", "target_type.is_unboxed": "TU", "is_runtime_subtype(src_type, target_type)": "RS", "is_subtype(src_type, target_type)": "S"}

    def ev(e, env):
        if isinstance(e, ast.BoolOp):
            vals = [ev(v, env) for v in e.values]
            return all(vals) if isinstance(e.op, ast.And) else any(vals)
        if isinstance(e, ast.UnaryOp) and isinstance(e.op, ast.Not):
            return not ev(e.operand, env)
        t = norm(e)
        if t in ATOMS:
            return env[ATOMS[t]]
        if t == "force":
            return False
        raise AnalysisError(f"coerce: unrecognised condition `{t[:60]}` in the top-level case analysis")

    def outcome(env):
        """Which top-level arm is taken: ('box'|'convert'|'unbox_or_cast'|'noop')."""
        for st in f.node.body:
            if isinstance(st, ast.If):
                cur = st
                while cur is not None:
                    if ev(cur.test, env):
                        calls = {call_name(c) for x in cur.body for c in ast.walk(x) if isinstance(c, ast.Call)}
                        rets = [x for x in cur.body if isinstance(x, ast.Return)]
                        if rets and isinstance(rets[0].value, ast.Call) and call_name(rets[0].value) == "box" and len(cur.body) == 1:
                            return "box"
                        if any(isinstance(x, ast.Return) for x in ast.walk(cur)) and "unbox_or_cast" in calls and len(cur.body) == 1:
                            return "unbox_or_cast"
                        if all_paths_return(cur.body):
                            return "convert"
                        return "fallthrough"
                    nxt = cur.orelse
                    if len(nxt) == 1 and isinstance(nxt[0], ast.If):
                        cur = nxt[0]
                    else:
                        if nxt and all_paths_return(nxt):
                            return "noop" if any(isinstance(x, ast.Return) and norm(x.value) == "src" for x in nxt) else "convert"
                        cur = None
            elif isinstance(st, ast.Return):
                return "noop" if norm(st.value) == "src" else "convert"
        return "fallthrough"

    def all_paths_return(stmts):
        if not stmts:
            return False
        last = stmts[-1]
        if isinstance(last, ast.Return):
            return True
        if isinstance(last, ast.If):
            return all_paths_return(last.body) and bool(last.orelse) and all_paths_return(last.orelse)
        return False

    from ..cfg import call_name
    for SU, TU, RS, S in itertools.product([False, True], repeat=4):
        env = {"SU": SU, "TU": TU, "RS": RS, "S": S}
        if RS and not S and False:
            continue
        got = outcome(env)
        if SU and not TU:
            want = {"box"}
        elif SU == TU and S and (not (SU and TU) or RS):
            want = {"noop"}
        else:
            want = {"convert", "unbox_or_cast"}
        key = f"coerce(src unboxed={SU}, target unboxed={TU}, runtime subtype={RS}, subtype={S}) -> {'/'.join(sorted(want))}"
        if got in want:
            r5.ok(key, f.loc())
        else:
            r5.violation(key, f.loc(), f"this combination takes the `{got}` arm: " + ("a value is passed on unchanged across a representation boundary or to a type it is not known to have, without the runtime check (a wrong-typed object reaches native code)" if got == "noop" else "the conversion for this combination changed"))


def _attrs(e: ast.AST) -> set[str]:
    return {n.attr for n in ast.walk(e) if isinstance(n, ast.Attribute)}


def run_env_link(chk: Check, ix) -> None:
    """R05.6: the link from a nested function's environment to the enclosing one survives completion whenever it can still be followed."""
    from ..cfg import branch_conditions
    r6 = chk.rule("R05.6", "setup_env_class exempts the __mypyc_env__ link of a nested function's environment from clear_on_completion on a condition that consults only what decides whether a function nested deeper will follow that link (load_outer_envs follows it for every enclosing level that has an environment class; FuncInfo.contains_nested as gen_func_item defines it), positively and as a conjunction: a stricter test (say, only when a local of this function is captured) drops the link when a generator finishes while an inner closure that reads a variable two levels up is still callable, and CPython's closure cell would still be alive", floor=4)
    f = ix.func("mypyc.irbuild.env_class.setup_env_class")
    par = f.module.parents()

    def stmt_of(n):
        while not isinstance(n, ast.stmt):
            n = par[n]
        return n
    adds = [c for c in ast.walk(f.node) if isinstance(c, ast.Call) and isinstance(c.func, ast.Attribute) and c.func.attr == "add" and isinstance(c.func.value, ast.Attribute) and c.func.value.attr == "attrs_to_keep_alive_on_completion" and c.args and norm(c.args[0]) == "ENV_ATTR_NAME"]
    stores = [s for s in ast.walk(f.node) if isinstance(s, ast.Assign) and isinstance(s.targets[0], ast.Subscript) and norm(s.targets[0].slice) == "ENV_ATTR_NAME" and isinstance(s.targets[0].value, ast.Attribute) and s.targets[0].value.attr == "attributes"]
    if len(stores) != 1:
        raise AnalysisError(f"setup_env_class: expected one store of attributes[ENV_ATTR_NAME], found {len(stores)}")
    key = "the environment link is exempted from clearing on completion"
    if not adds:
        r6.violation(key, f.loc(stores[0]), "attrs_to_keep_alive_on_completion never receives ENV_ATTR_NAME: the link is cleared when a nested generator finishes although closures created in it still follow it")
        return
    r6.ok(key, f.loc(adds[0]))
    # what the traversal and the definition of contains_nested consult
    trav = ix.func("mypyc.irbuild.env_class.load_outer_envs")
    trav_attrs: set[str] = set()
    for n in ast.walk(trav.node):
        if isinstance(n, (ast.If, ast.While)):
            trav_attrs |= _attrs(n.test)
        elif isinstance(n, ast.Assign) and any(isinstance(t, ast.Name) for t in n.targets):
            trav_attrs |= _attrs(n.value) & {"contains_nested", "_env_class", "fn_infos", "builders", "is_nested"}
    gfi = ix.func("mypyc.irbuild.function.gen_func_item")
    defs = [n for n in ast.walk(gfi.node) if isinstance(n, ast.Assign) and len(n.targets) == 1 and norm(n.targets[0]) == "contains_nested"]
    if len(defs) != 1 or "contains_nested" not in trav_attrs:
        raise AnalysisError("the definition of contains_nested in gen_func_item / its use in load_outer_envs was not found")
    allowed = trav_attrs | _attrs(defs[0].value) | {"fn_info", "fitem", "keys"}
    r6.ok(f"load_outer_envs decides whether to follow a link from {sorted(trav_attrs)} only", trav.loc())
    r6.ok(f"contains_nested := {norm(defs[0].value)}", gfi.loc(defs[0]))
    base_pos, base_neg = branch_conditions(par, f.node, stores[0])
    bp, bn = {norm(t) for t in base_pos}, {norm(t) for t in base_neg}
    for c in adds:
        pos, neg = branch_conditions(par, f.node, stmt_of(c))
        extra_pos = [t for t in pos if norm(t) not in bp]
        extra_neg = [t for t in neg if norm(t) not in bn]
        key = "the exemption is conditional only on the function containing a nested function"
        bad = []
        for t in extra_neg:
            bad.append(f"taken when `{norm(t)}` is false")
        for t in extra_pos:
            atoms = t.values if isinstance(t, ast.BoolOp) and isinstance(t.op, ast.And) else [t]
            for a in atoms:
                if isinstance(a, (ast.BoolOp, ast.UnaryOp)):
                    bad.append(f"`{norm(a)}` is not a positive atom")
                elif not _attrs(a) <= allowed:
                    bad.append(f"`{norm(a)}` consults {sorted(_attrs(a) - allowed)}, which the code that follows the link does not: a nested function follows the link whether or not that holds")
        if bad:
            r6.violation(key, f.loc(c), "; ".join(bad))
        else:
            r6.ok(key, f.loc(c), "guard: " + (" and ".join(norm(t) for t in extra_pos) or "none"))


def run_defaults_chain(chk: Check, ix) -> None:
    """R05.8: the defaults-setup chain finds the nearest ancestor that has one, however far up."""
    from ..cfg import branch_conditions, call_name
    r8 = chk.rule("R05.8", "under separate compilation __mypyc_defaults_setup is registered (prepare.py) only on classes whose own body assigns defaults, so an intermediate class may have none; generate_attr_defaults_init therefore looks for the method to chain to among all ancestors (a loop over cls.mro[1:] / base_mro[1:], first hit wins), not only at the direct base: otherwise the defaults of a grandparent are never set on instances of a class whose parent has no defaults of its own (reading the attribute raises AttributeError where CPython finds the class attribute)", floor=3)
    prep = ix.module("mypyc.irbuild.prepare")
    reg_calls = []
    for f in ix.functions.values():
        if f.module is prep:
            for c in ast.walk(f.node):
                if isinstance(c, ast.Call) and call_name(c) == "_register_defaults_setup_decl":
                    reg_calls.append((f, c))
    if not reg_calls:
        raise AnalysisError("prepare.py: _register_defaults_setup_decl is never called")
    own_only = True
    for f, c in reg_calls:
        par = f.module.parents()
        st = c
        while not isinstance(st, ast.stmt):
            st = par[st]
        pos, _ = branch_conditions(par, f.node, st)
        if any(isinstance(x, ast.Call) and call_name(x) == "_has_own_default_attrs" for t in pos for x in ast.walk(t)):
            r8.ok("the setup declaration is registered per class, on a test of the class's own body", f.loc(c))
        else:
            own_only = False
            r8.info("the setup declaration is no longer registered on an own-body test", f.loc(c), "the chain lookup requirement below may not apply")
    hf = prep.functions.get("_has_own_default_attrs")
    if hf is None:
        raise AnalysisError("prepare._has_own_default_attrs vanished")
    if any(isinstance(a, ast.Attribute) and a.attr in ("mro", "base_mro", "base") for a in ast.walk(hf.node)):
        own_only = False
        r8.info("_has_own_default_attrs consults the ancestors", hf.loc(), "the chain lookup requirement below may not apply")
    else:
        r8.ok("_has_own_default_attrs looks at the class's own statements only (no mro / base)", hf.loc())
    g = ix.func("mypyc.irbuild.classdef.generate_attr_defaults_init")
    asg = [a for a in ast.walk(g.node) if isinstance(a, ast.Assign) and len(a.targets) == 1 and norm(a.targets[0]) == "parent_with_defaults" and not (isinstance(a.value, ast.Constant) and a.value.value is None)]
    if not asg:
        raise AnalysisError("generate_attr_defaults_init: the ancestor to chain to is never assigned")
    par = g.module.parents()
    key = "the ancestor to chain to is searched in the whole mro"
    for a in asg:
        lp = par.get(a)
        while lp is not None and not isinstance(lp, (ast.For, ast.FunctionDef)):
            lp = par.get(lp)
        it = norm(lp.iter) if isinstance(lp, ast.For) else None
        if it is not None and (".mro[1:]" in it or ".base_mro[1:]" in it) and any(isinstance(b, ast.Break) for b in ast.walk(lp)):
            r8.ok(key, g.loc(a), f"for ... in {it}: first ancestor with the declaration, then break")
        elif not own_only:
            r8.ok(key, g.loc(a), "registration is not own-body only any more; lookup shape not required")
        else:
            r8.violation(key, g.loc(a), f"`{norm(a)}` is not inside a loop over cls.mro[1:] that stops at the first hit ({'loop over ' + it if it else 'no loop'}): with `class A: x = 1`, `class B(A): pass`, `class C(B): y = 2` compiled separately, C's setup finds no declaration on B and never runs A's, so C().x is unset")


def run_silent_errors(chk: Check, ix, funcs, sites) -> None:
    """R05.9: an error value is returned only after something that can have set the exception."""
    r9 = chk.rule("R05.9", "a lib-rt function bound to a primitive with a failing error kind (ERR_MAGIC / ERR_FALSE / ERR_NEG_INT) returns its error value (NULL / false / -1) only on paths where a call that can set an exception precedes the return (structured walk over clang's statement tree; a fixed list of pure accessors does not count): generated code branches to the error handler on that value, and with no exception set CPython raises SystemError or the traceback code dereferences NULL", floor=100)
    seen = set()
    for m, call, kw, cname in sites:
        e = funcs.get(cname)
        ek = kw.get("error_kind")
        if e is None or ek is None or "silent_error_returns" not in e or cname in seen:
            continue
        ekn = norm(ek)
        if ekn not in ("ERR_MAGIC", "ERR_FALSE", "ERR_NEG_INT", "ERR_MAGIC_OVERLAPPING"):
            continue
        seen.add(cname)
        key = f"{m.name}: {cname} ({ekn}) sets an exception before returning its error value"
        where = f"{m.relpath}:{call.lineno}"
        lines = [l for l in e["silent_error_returns"] if l and l > 0]
        if lines:
            r9.violation(key, where, f"{cname} returns its error value at line {', '.join(map(str, lines))} of its C body on a path with no call that could have set an exception")
        else:
            r9.ok(key, where)


OPERATOR_WORDS = {
    "+": {"Add", "Concat", "Positive", "Append"}, "-": {"Subtract", "Negate", "Negative"}, "*": {"Multiply", "RMultiply"},
    "/": {"TrueDivide"}, "//": {"FloorDivide"}, "%": {"Remainder"}, "**": {"Power"}, "@": {"MatrixMultiply"},
    "&": {"And"}, "|": {"Or"}, "^": {"Xor"}, "<<": {"Lshift"}, ">>": {"Rshift"}, "~": {"Invert"}, "in": {"Contains"},
}
COMPARISONS = {"==", "!=", "<", "<=", ">", ">="}


def run_operator_names(chk: Check, sites, only_numeric: bool) -> None:
    """R05.10 / R15.6: the C function bound to an operator is the one for that operator."""
    r = chk.rule("R05.10" if not only_numeric else "R15.6", "a primitive registered under an operator spelling (`<<`, `//=`, ...) is bound to the C function whose name carries that operator's word (CPyTagged_Lshift, PyNumber_InPlaceFloorDivide, ...; table of words in sa/rules/c05.py, from the CPython number/sequence protocol names): a plain operator is not bound to an InPlace function, and no operator is bound to another operator's function (`>>` to CPyTagged_Lshift)", floor=60 if not only_numeric else 20)
    seen = set()
    for m, call, kw, cname in sites:
        nm = kw.get("name")
        if not (isinstance(nm, ast.Constant) and isinstance(nm.value, str)):
            continue
        op = nm.value
        inplace = op.endswith("=") and op not in COMPARISONS
        base = op[:-1] if inplace else op
        if base not in OPERATOR_WORDS:
            continue
        if only_numeric and m.name not in ("mypyc.primitives.int_ops", "mypyc.primitives.float_ops"):
            continue
        word = cname.split("_", 1)[1] if "_" in cname else cname
        key = f"{m.name}: `{op}` -> {cname}"
        if key in seen:
            continue
        seen.add(key)
        where = f"{m.relpath}:{call.lineno}"
        has_inplace = word.startswith("InPlace")
        core = word[len("InPlace"):] if has_inplace else word
        if core not in OPERATOR_WORDS[base]:
            other = sorted(o for o, ws in OPERATOR_WORDS.items() if core in ws)
            r.violation(key, where, f"operator `{op}` is bound to {cname}" + (f", the function for `{other[0]}`" if other else f" (`{core}` is not a word for `{base}`)"))
        elif has_inplace and not inplace:
            r.violation(key, where, f"the plain operator `{op}` is bound to the in-place function {cname}: `a {op} b` would modify `a`")
        else:
            r.ok(key, where)


def run_specializer_arg_order(chk: Check, ix) -> None:
    """R05.11: a specialiser that inlines a loop translates the call's other arguments before the loop."""
    from ..cfg import CFG, call_name
    r = chk.rule("R05.11", "Python evaluates every argument of a call before the callee does anything; a specialiser in mypyc/irbuild/specialize.py that replaces a builtin call by an inlined loop (comprehension_helper) therefore translates the call's remaining arguments (`expr.args[k]`, k >= 1: the start value of sum(), the default of next()) before it emits the loop, never after it or inside it: otherwise the argument's side effects and exceptions happen late, conditionally, or not at all", floor=2)
    mod = ix.module("mypyc.irbuild.specialize")
    n = 0
    for f in sorted(mod.functions.values(), key=lambda f: f.node.lineno):
        own = [x for x in walk_own(f.node)]
        helpers = [c for c in own if isinstance(c, ast.Call) and call_name(c) == "comprehension_helper"]
        if not helpers:
            continue
        # locals standing for a later argument of the specialised call
        later: dict[str, int] = {}

        def arg_index(e: ast.expr) -> int | None:
            if isinstance(e, ast.Subscript) and isinstance(e.value, ast.Attribute) and e.value.attr == "args" and isinstance(e.slice, ast.Constant) and isinstance(e.slice.value, int):
                return e.slice.value
            if isinstance(e, ast.Name):
                return later.get(e.id)
            if isinstance(e, ast.IfExp):
                a, b = arg_index(e.body), arg_index(e.orelse)
                return a if a is not None else b
            return None
        grow = True
        while grow:
            grow = False
            for a in own:
                if isinstance(a, ast.Assign) and len(a.targets) == 1 and isinstance(a.targets[0], ast.Name) and a.targets[0].id not in later:
                    k = arg_index(a.value)
                    if k is not None and k >= 1:
                        later[a.targets[0].id] = k
                        grow = True
        g = CFG(f.node)
        hn = [nd for nd in g.nodes if any(c is helpers[0] for c in nd.calls())]
        # translations of later arguments anywhere in the function, including nested loop bodies
        for c in ast.walk(f.node):
            if not (isinstance(c, ast.Call) and call_name(c) == "accept" and c.args):
                continue
            k = arg_index(c.args[0])
            if k is None or k < 1:
                continue
            n += 1
            key = f"{f.qualname}: argument {k} of the specialised call is translated before the inlined loop"
            nested = not any(c is x for x in own)
            cn = [nd for nd in g.nodes if any(x is c for x in nd.calls())]
            if nested:
                r.violation(key, f.loc(c), f"`{norm(c)}` sits in a nested function that the loop helper calls: the argument is evaluated once per iteration (or never)")
            elif hn and cn and cn[0] in g.reachable(hn, labels_excluded=("exc",)):
                r.violation(key, f.loc(c), f"`{norm(c)}` comes after comprehension_helper(...) (line {helpers[0].lineno}): CPython evaluates the argument before the iteration starts, the compiled code after it (and only on the path that needs the value)")
            else:
                r.ok(key, f.loc(c))
    if n < 2:
        raise AnalysisError(f"only {n} later-argument translations found in loop-inlining specialisers")


def walk_own(fn: ast.AST):
    """Nodes of a function body without descending into nested function definitions."""
    stack = list(ast.iter_child_nodes(fn))
    while stack:
        n = stack.pop()
        yield n
        if isinstance(n, (ast.FunctionDef, ast.AsyncFunctionDef, ast.Lambda)):
            continue
        stack.extend(ast.iter_child_nodes(n))


def run_heap_tag_construction(chk: Check, ix, funcs) -> None:
    """R15.7: a heap-tagged int is built only for a value that does not fit a short int."""
    r = chk.rule("R15.7", "mypyc's `int` is a tagged word: small values live in the word itself, and only values that do not fit are boxed, which the fast paths rely on (equality compares words, truth tests the word against 0, indexing and narrowing conversions treat a boxed value as out of range). lib-rt therefore builds a boxed int (`((CPyTagged)obj) | CPY_INT_TAG`) only in the then-branch of a size test: a condition on the `overflow` flag of CPyLong_AsSsize_tAndOverflow, a call of CPyTagged_TooBig / CPyTagged_TooBigInt64, or a magnitude comparison of the source value (clang's statement trees; 6 sites). An unconditional boxing of an arithmetic result (`x ^ x` is 0) puts a small value into a boxed int", floor=5)
    n = 0
    for name, e in sorted(funcs.items()):
        for site in e.get("heap_tag_sites", []):
            n += 1
            key = f"{name}: a boxed int is built only under a does-not-fit test"
            gn = set(site["guard_names"])
            ok = bool(gn & {"overflow"}) or any(g.startswith("CPyTagged_TooBig") for g in gn) or (site["n_guards"] >= 1 and site.get("guard_relops"))
            if ok:
                r.ok(key, f"mypyc/lib-rt ({name})", f"guard mentions {sorted(gn - {'__builtin_expect'})} {site.get('guard_relops') or ''}")
            else:
                r.violation(key, f"mypyc/lib-rt ({name})", f"`((CPyTagged)obj) | CPY_INT_TAG` is evaluated {'under ' + str(sorted(gn)) if site['n_guards'] else 'unconditionally'} without a test that the value is too big for a short int: a result that happens to be small is boxed, and compiled `==`, `if x:`, indexing and conversions to native ints then answer wrongly")
    if n < 5:
        raise AnalysisError(f"only {n} boxed-int construction sites found in lib-rt (pattern `(CPyTagged)ptr | 1` no longer recognised?)")


def run_finally_return_register(chk: Check, ix) -> None:
    """R05.12: the register that carries a pending `return` through a finally block is reset on the other entries."""
    r = chk.rule("R05.12", "mypyc/irbuild/statement.py lowers try/finally (and `with`) by routing three entries into the finally block: normal completion (`main_entry`), an exception (`err_handler`) and a `return` in the body (`return_entry`, the value parked in `ret_reg`). After the finally body `ret_reg` not being the error value means `return it`. The register is per function (an environment attribute in generators), so the first two entries assign the error value to it — otherwise a `return` that was abandoned because the finally body raised is replayed by a later pass through the same statement — and the return entry does not. Both lowerings (try_finally_entry_blocks and the await-in-finally variant) are siblings and must agree", floor=4)
    m = ix.module("mypyc.irbuild.statement")
    found = 0
    for f in m.functions.values():
        names = {n.id for n in ast.walk(f.node) if isinstance(n, ast.Name)} | {a.arg for a in f.node.args.args}
        if not {"ret_reg", "main_entry", "err_handler", "return_entry"} <= names:
            continue
        # linear segments of the function body: activate_block(X) ... next activate_block
        segs: dict[str, list[ast.stmt]] = {}
        cur = None
        has_act = False
        for st in f.node.body:
            act = None
            if isinstance(st, ast.Expr) and isinstance(st.value, ast.Call) and call_name(st.value) == "activate_block" and st.value.args and isinstance(st.value.args[0], ast.Name):
                act = st.value.args[0].id
            if act is not None:
                cur = act
                has_act = True
                segs.setdefault(cur, [])
            elif cur is not None:
                segs[cur].append(st)
        if not has_act or "main_entry" not in segs:
            continue
        found += 1

        def resets(stmts) -> bool:
            for s in stmts:
                for c in ast.walk(s):
                    if isinstance(c, ast.Call) and call_name(c) == "assign" and c.args and isinstance(c.args[0], ast.Name) and c.args[0].id == "ret_reg" and any(isinstance(x, ast.Name) and x.id == "LoadErrorValue" for x in ast.walk(c)):
                        return True
            return False
        for entry, want in (("main_entry", True), ("err_handler", True), ("return_entry", False)):
            if entry not in segs:
                r.violation(f"{f.name}: the `{entry}` block is built here", f.loc(), f"no builder.activate_block({entry}) at the top level of the function")
                continue
            key = f"{f.name}: `{entry}` {'resets' if want else 'keeps'} the pending return value"
            if resets(segs[entry]) == want:
                r.ok(key, f.loc(segs[entry][0]) if segs[entry] else f.loc())
            elif want:
                r.violation(key, f.loc(segs[entry][0]) if segs[entry] else f.loc(), f"the {entry} block goes on to the finally body without `builder.assign(ret_reg, LoadErrorValue(...))`: in a loop, after a `return` whose finally body (or __exit__) raised and was caught, the next pass that leaves the try body {'normally' if entry == 'main_entry' else 'by an exception'} still finds the old value in ret_reg and returns it (CPython carries on / propagates the exception)")
            else:
                r.violation(key, f.loc(segs[entry][0]) if segs[entry] else f.loc(), "the return entry overwrites ret_reg with the error value: `return x` inside try/finally falls through after the finally body")
    if found < 2:
        raise AnalysisError(f"statement.py: {found} try/finally lowerings with main_entry/err_handler/return_entry found (expected 2)")


def run_lib_rt_sizes_and_signs(chk: Check, ix, funcs) -> None:
    """R05.13 / R05.14: lib-rt never hands a possibly negative size to a bytes constructor; sign tests on indexes include 0 on the right side."""
    r13 = chk.rule("R05.13", "lib-rt (clang AST), functions CPy*: the size passed to PyBytes_FromStringAndSize / PyByteArray_FromStringAndSize is not a local computed as a difference (`end - start`) nor an integer parameter unless the function compares that value with 0: CPython answers `b[2:1]` with b'' and `(1).to_bytes(-1, 'big')` with ValueError, the constructors answer a negative size with SystemError", floor=6)
    n = 0
    for name, e in sorted(funcs.items()):
        if not name.startswith("CPy"):
            continue
        ptypes = dict(zip(e.get("param_names") or [], e.get("params") or []))
        for i, site in enumerate(e.get("alloc_size_sites") or []):
            n += 1
            key = f"{name}: size of {site['fn']} call #{i + 1} cannot be negative"
            bad = []
            for nm, d in site["names"].items():
                risky = d["origin"] == "sub" or (d["origin"] == "param" and ptypes.get(nm) in ("Py_ssize_t", "int64_t", "int32_t", "int", "long", "long long", "size_t", "CPyTagged"))
                if risky and not d["zero_compared"]:
                    bad.append((nm, d["origin"]))
            if site.get("has_sub") and not site["names"]:
                bad.append(("<expression>", "sub"))
            if not bad:
                r13.ok(key, f"mypyc/lib-rt:{name}")
            else:
                nm, org = bad[0]
                r13.violation(key, f"mypyc/lib-rt:{name}", f"the size `{nm}` is {'a difference of two bounds' if org == 'sub' else 'an integer parameter'} and the function never compares it with 0: a slice with start > end / a negative length reaches the constructor (SystemError: Negative size passed to ...) where CPython returns an empty object / raises ValueError")
    if n < 6:
        raise AnalysisError(f"only {n} sized bytes constructor calls found in CPy* functions")
    r14 = chk.rule("R05.14", "lib-rt (clang AST): a sign test on an integer parameter named `index` is `index >= 0` or `index < 0` (0 is a valid, non-negative index); `index > 0` / `index <= 0` puts index 0 on the side of the negative indexes (`lst[i] = v` with i == 0 on an empty list was adjusted by the size and stored out of bounds). Sibling functions (CPyList_GetItemInt64 / CPyList_SetItemInt64 / ...Borrow, the *_AdjustIndex / *_RangeCheck helpers, the byte readers and vec pops) agree", floor=25)
    for name, e in sorted(funcs.items()):
        zc = [z for z in e.get("zero_compares") or [] if z["param"] in ("index", "idx")]
        if not zc:
            continue
        ops = sorted({z["op"] for z in zc})
        key = f"{name}: sign tests on `index` are >= 0 / < 0"
        if set(ops) <= {">=", "<"}:
            r14.ok(key, f"mypyc/lib-rt:{name}")
        else:
            z = [z for z in zc if z["op"] not in (">=", "<")][0]
            r14.violation(key, f"mypyc/lib-rt:{name}:{z['line']}", f"`index {z['op']} 0` at line {z['line']}: index 0 is treated like a negative index (or excluded from the non-negative ones); the sibling helpers test `index >= 0` / `index < 0`")


def run_codec_fast_paths(chk: Check, ix) -> None:
    """R05.15: the compile-time choice of a codec fast path accepts exactly names CPython resolves to that codec."""
    import codecs
    r = chk.rule("R05.15", "irbuild/specialize.py str_encode_fast_path / bytes_decode_fast_path pick a C fast path from a literal encoding name: (a) the name is normalised only by case folding and by renaming separators (`.replace(x, y)` with non-empty y) — CPython never deletes separators (`'ut_f8'` is a LookupError, not UTF-8); (b) every alias listed for a fast path is an alias of that codec in Python's encodings registry (checked against codecs.lookup of the analysing interpreter, a table look-up); (c) the two siblings accept the same aliases", floor=6)
    chk.trusted.append("the alias table of the analysing interpreter's `encodings` package (R05.15b)")
    m = ix.module("mypyc.irbuild.specialize")
    want_codec = {"utf8": "utf-8", "ascii": "ascii", "latin1": "iso8859-1"}
    accepted = {}
    for fname in ("str_encode_fast_path", "bytes_decode_fast_path"):
        f = m.functions.get(fname)
        if f is None:
            raise AnalysisError(f"specialize.{fname} not found")
        # (a) the normalisation
        norm_assign = [a for a in ast.walk(f.node) if isinstance(a, ast.Assign) and len(a.targets) == 1 and norm(a.targets[0]) == "encoding" and isinstance(a.value, ast.Call) and "lower" in norm(a.value)]
        if not norm_assign:
            raise AnalysisError(f"{fname}: normalisation of `encoding` not found")
        deletions = [c for c in ast.walk(norm_assign[0].value) if isinstance(c, ast.Call) and call_name(c) == "replace" and len(c.args) == 2 and isinstance(c.args[1], ast.Constant) and c.args[1].value == ""]
        key = f"{fname}: the encoding name is normalised without deleting characters"
        if deletions:
            r.violation(key, f.loc(norm_assign[0]), f"`{norm(norm_assign[0].value)}` deletes separators: 'ut_f8', 'u-8', 'l_1' select a fast path although CPython raises LookupError for them")
        else:
            r.ok(key, f.loc(norm_assign[0]))
        renames = {c.args[0].value: c.args[1].value for c in ast.walk(norm_assign[0].value) if isinstance(c, ast.Call) and call_name(c) == "replace" and len(c.args) == 2 and all(isinstance(a, ast.Constant) for a in c.args)}
        # (b) the alias lists
        acc = {}
        for i in ast.walk(f.node):
            if isinstance(i, ast.If) and isinstance(i.test, ast.Compare) and norm(i.test.left) == "encoding" and isinstance(i.test.ops[0], ast.In) and isinstance(i.test.comparators[0], (ast.List, ast.Tuple, ast.Set)):
                prim = next((norm(c.args[0]) for c in ast.walk(ast.Module(body=i.body, type_ignores=[])) if isinstance(c, ast.Call) and call_name(c) == "call_c" and c.args), None)
                if prim is None:
                    continue
                codec = next((v for k, v in want_codec.items() if k in prim), None)
                if codec is None:
                    raise AnalysisError(f"{fname}: cannot tell the codec of primitive {prim}")
                names = [e.value for e in i.test.comparators[0].elts if isinstance(e, ast.Constant)]
                acc[codec] = set(names)
                bad = []
                for nm in names:
                    try:
                        got = codecs.lookup(nm).name
                    except LookupError:
                        got = None
                    if got != codec:
                        bad.append((nm, got))
                key = f"{fname}: aliases of the {codec} fast path are {codec} aliases in CPython"
                if bad:
                    r.violation(key, f.loc(i), f"{bad[0][0]!r} selects the {codec} fast path but CPython resolves it to {bad[0][1] or 'LookupError'}")
                else:
                    r.ok(key, f.loc(i))
        accepted[fname] = ({k: {x.replace("-", "_") for x in v} for k, v in acc.items()}, renames)
    a, b = accepted["str_encode_fast_path"][0], accepted["bytes_decode_fast_path"][0]
    key = "str.encode and bytes.decode fast paths accept the same aliases"
    if a == b:
        r.ok(key, m.functions["str_encode_fast_path"].loc())
    else:
        diff = {k: sorted(a.get(k, set()) ^ b.get(k, set())) for k in set(a) | set(b) if a.get(k) != b.get(k)}
        r.violation(key, m.functions["str_encode_fast_path"].loc(), f"the alias sets differ (separators ignored): {diff}")


def run_pending_return_test(chk: Check, ix) -> None:
    """R05.16: `was there a return` is not decided by comparing the return value with an error value it can legitimately equal."""
    r = chk.rule("R05.16", "the try/finally lowerings (irbuild/statement.py) park the value of a `return` in ret_reg, whose type is the function's return type, and after the finally body test it with Branch.IS_ERROR. For a return type whose error value overlaps a real value (i64/i32/i16/u8: -113, float: -113.0 — RType.error_overlap) that test cannot tell `no return` from `return -113`, so a function that tests ret_reg this way also consults error_overlap (a separate flag, as arguments and attributes of such types have)", floor=2)
    m = ix.module("mypyc.irbuild.statement")
    n = 0
    for f in m.functions.values():
        tests = []
        for c in ast.walk(f.node):
            if isinstance(c, ast.Call) and call_name(c) == "Branch" and any(norm(a) == "Branch.IS_ERROR" for a in c.args) and c.args:
                first = c.args[0]
                if any(isinstance(x, ast.Name) and x.id in ("ret_reg", "ret_val") for x in ast.walk(first)):
                    tests.append(c)
        if not tests:
            continue
        n += 1
        key = f"{f.name}: the pending-return test allows for return types with an overlapping error value"
        if any(isinstance(x, ast.Attribute) and x.attr == "error_overlap" for x in ast.walk(f.node)):
            r.ok(key, f.loc(tests[0]))
        else:
            r.violation(key, f.loc(tests[0]), "`Branch(<ret_reg>, ..., Branch.IS_ERROR)` is the only record of whether the try body returned: `def f(x: i64) -> i64: try: return x finally: pass; return 0` gives 0 for f(-113) (and 0.0 for the float twin with -113.0), CPython returns the argument")
    if n < 2:
        raise AnalysisError(f"statement.py: {n} pending-return tests found (expected the two try/finally lowerings)")


def run_static_lengths_are_exact(chk: Check, ix) -> None:
    """R05.17: a length known at compile time is a length, not a bound."""
    from ..cfg import branch_conditions
    r = chk.rule("R05.17", "for_helpers.get_expr_length returns the number of items an expression will produce when that is known statically; its result is folded into `len(...)` and used to preallocate comprehension results that are then filled with unchecked stores. Where it combines the lengths of several inputs (`zip(a, b)`: min of the lengths) the combination is returned only if *every* input length is known (`all(x is not None ...)` over the unfiltered list): the minimum over the known ones is only an upper bound, and a shorter dynamic input then gives a wrong `len` and a result list with NULL items", floor=1)
    f = ix.func("mypyc.irbuild.for_helpers.get_expr_length")
    par = f.module.parents()
    n = 0
    for ret in ast.walk(f.node):
        if not (isinstance(ret, ast.Return) and isinstance(ret.value, ast.Call) and call_name(ret.value) in ("min", "max", "sum") and ret.value.args and isinstance(ret.value.args[0], ast.Name)):
            continue
        n += 1
        lst = ret.value.args[0].id
        key = f"get_expr_length: `{norm(ret.value)}` combines the lengths of all inputs, each of them known"
        defs = [a for a in ast.walk(f.node) if isinstance(a, ast.Assign) and len(a.targets) == 1 and norm(a.targets[0]) == lst]
        filtered = any(isinstance(a.value, (ast.ListComp, ast.GeneratorExp)) and any("is not None" in norm(c) or "is None" in norm(c) for g in a.value.generators for c in g.ifs) for a in defs)
        pos, neg = branch_conditions(par, f.node, ret)
        all_known = any(isinstance(c, ast.Call) and call_name(c) == "all" and lst in norm(c) and "is not None" in norm(c) for t in pos for c in ast.walk(t))
        if filtered:
            r.violation(key, f.loc(ret), f"`{lst}` keeps only the lengths that are known (`{norm(defs[0].value)[:70]}`): the combination is a bound, not the length; `len(list(zip('abc', xs)))` is folded to 3 whatever xs holds, and a comprehension over it preallocates 3 slots")
        elif all_known:
            r.ok(key, f.loc(ret))
        else:
            r.violation(key, f.loc(ret), f"`{norm(ret.value)}` is returned without an `all(x is not None for x in {lst})` test: an unknown input length (None) either crashes the comparison or is ignored")
    if n < 1:
        raise AnalysisError("get_expr_length: no combined length (min/max/sum over argument lengths) found; zip() had one")


def run_inherited_class_attributes(chk: Check, ix) -> None:
    """R05.18: the compiler finds the special class attributes the checker finds."""
    r = chk.rule("R05.18", "the type checker reads `__match_args__` of the class in a class pattern through TypeInfo.get (the MRO), so a program whose pattern class inherits it is accepted; mypyc/irbuild/match.py reads the same attribute to order positional sub-patterns and must look it up the same way (`info.get(...)`), not in the class's own symbol table (`info.names.get(...)` / `info.names[...]` followed by an assertion: the compiler crashes on a program the checker accepts)", floor=1)
    m = ix.module("mypyc.irbuild.match")
    n = 0
    for f in list(m.functions.values()) + [mm for c in m.classes.values() for mm in c.methods.values()]:
        for c in ast.walk(f.node):
            lit = None
            own = False
            if isinstance(c, ast.Call) and isinstance(c.func, ast.Attribute) and c.func.attr == "get" and c.args and isinstance(c.args[0], ast.Constant) and isinstance(c.args[0].value, str) and c.args[0].value.startswith("__"):
                lit = c.args[0].value
                own = isinstance(c.func.value, ast.Attribute) and c.func.value.attr == "names"
            elif isinstance(c, ast.Subscript) and isinstance(c.value, ast.Attribute) and c.value.attr == "names" and isinstance(c.slice, ast.Constant) and isinstance(c.slice.value, str) and c.slice.value.startswith("__"):
                lit = c.slice.value
                own = True
            if lit is None:
                continue
            n += 1
            key = f"{f.qualname}: `{lit}` is looked up through the MRO"
            if own:
                r.violation(key, f.loc(c), f"`{norm(c)[:60]}` looks only at the class's own names: for `class Q(P): pass` with P defining {lit}, `case Q(a, b)` is accepted by the checker and crashes the compiler (AssertionError)")
            else:
                r.ok(key, f.loc(c))
    if n < 1:
        raise AnalysisError("irbuild/match.py: no look-up of a special class attribute found")


def run_dict_helpers_dispatch_to_same_method(chk: Check, ix, funcs) -> None:
    """R05.19: a dict helper's slow path is the operation's own method, not a reconstruction from other operations."""
    r = chk.rule("R05.19", "lib-rt's CPyDict_SetDefault* helpers implement `d.setdefault(k, v)`; for an exact dict they may use the C API directly, for a subclass (defaultdict, a dict that overrides setdefault or __missing__) only the object's own `setdefault` has the right meaning. Each of these helpers either has a PyDict_CheckExact test and reaches a call of the interned `setdefault` method (directly or through CPyDict_SetDefault) or delegates to one that does; a helper that rebuilds the operation from get-item + set-item runs __missing__ for a defaultdict", floor=3)
    from ..cfront import function_bodies
    names = sorted(n for n in funcs if n.startswith("CPyDict_SetDefault"))
    if len(names) < 3:
        raise AnalysisError(f"lib-rt: CPyDict_SetDefault* helpers found: {names}")
    bodies = function_bodies(ix.root, "dict_ops.c", names)

    def calls_in(node, out):
        if node.get("kind") == "CallExpr" and node.get("inner"):
            first = node["inner"][0]
            while first.get("kind") in ("ImplicitCastExpr", "ParenExpr") and first.get("inner"):
                first = first["inner"][0]
            if first.get("ref"):
                out.add(first["ref"])
        if node.get("kind") == "MemberExpr" and node.get("name"):
            out.add("member:" + node["name"])
        for c in node.get("inner", []) or []:
            calls_in(c, out)
    info = {}
    for nm in names:
        b = bodies.get(nm)
        if b is None:
            raise AnalysisError(f"lib-rt: body of {nm} not found by clang")
        s_: set = set()
        calls_in(b, s_)
        info[nm] = s_

    def reaches_method(nm, seen=()):
        s_ = info.get(nm, set())
        if "member:setdefault" in s_ and any(x in s_ for x in ("PyObject_CallMethodObjArgs", "PyObject_CallMethodOneArg", "PyObject_CallMethod", "PyObject_VectorcallMethod")):
            return True
        return any(reaches_method(x, seen + (nm,)) for x in s_ if x in info and x not in seen and x != nm)
    for nm in names:
        key = f"{nm}: a dict subclass is served by its own setdefault()"
        if reaches_method(nm):
            r.ok(key, f"mypyc/lib-rt:{nm}")
        else:
            r.violation(key, f"mypyc/lib-rt:{nm}", f"{nm} never reaches a call of the object's `setdefault` method (it calls {sorted(x for x in info[nm] if not x.startswith('member:'))[:6]}): for a defaultdict the look-up runs __missing__, so `d.setdefault(k, [])` stores and returns the factory's value")


def run_loop_carried_registers_created_once(chk: Check, ix) -> None:
    """R05.20: a register that accumulates a fact over the iterations of a builder loop is created once."""
    from ..cfg import branch_conditions
    r20 = chk.rule("R05.20", "irbuild loops that emit code per argument carry facts from one argument to the next in an IR register created lazily: a local `V` is None before the loop, every iteration works on a copy `W = V` and ends with `V = W` (LowLevelIRBuilder._construct_varargs: 'an earlier optional positional argument was missing', which decides whether later arguments go by position or by name). A `W = Register(...)` inside the loop is therefore guarded by a test that V is still unset (`not V` / `V is None`); an unguarded creation starts a fresh register for every argument, so an argument only knows about its immediate predecessor and `f(b=20, c=30)` reaches a glue callee as f(30, b=20)", floor=1)
    n = 0
    for mn, m in sorted(ix.modules.items()):
        if not mn.startswith("mypyc.irbuild."):
            continue
        for f in list(m.functions.values()) + [mm for c in m.classes.values() for mm in c.methods.values()]:
            par = None
            for loop in ast.walk(f.node):
                if not isinstance(loop, (ast.For, ast.While)):
                    continue
                body_nodes = [x for st in loop.body for x in ast.walk(st)]
                copies = {(a.targets[0].id, a.value.id) for a in body_nodes if isinstance(a, ast.Assign) and len(a.targets) == 1 and isinstance(a.targets[0], ast.Name) and isinstance(a.value, ast.Name)}
                for w, v in sorted(copies):
                    if (v, w) not in copies or w == v:
                        continue
                    # v is the carried name if it is None-initialised outside the loop
                    inits = [a for a in ast.walk(f.node) if a not in body_nodes and isinstance(a, (ast.Assign, ast.AnnAssign)) and isinstance((a.targets[0] if isinstance(a, ast.Assign) else a.target), ast.Name) and (a.targets[0] if isinstance(a, ast.Assign) else a.target).id == v and isinstance(a.value, ast.Constant) and a.value.value is None]
                    if not inits:
                        continue
                    creations = [a for a in body_nodes if isinstance(a, ast.Assign) and len(a.targets) == 1 and isinstance(a.targets[0], ast.Name) and a.targets[0].id == w and isinstance(a.value, ast.Call) and call_name(a.value) == "Register"]
                    if not creations:
                        continue
                    par = par or f.module.parents()
                    for cr in creations:
                        n += 1
                        key = f"{f.name}: the loop-carried register `{v}` is created only while it is unset"
                        pos, neg = branch_conditions(par, f.node, cr)
                        atoms = []
                        for t in pos:
                            atoms += t.values if isinstance(t, ast.BoolOp) and isinstance(t.op, ast.And) else [t]
                        ok = any(norm(t) in (f"not {v}", f"{v} is None") for t in atoms) or any(norm(t) in (v, f"{v} is not None") for t in neg)
                        if ok:
                            r20.ok(key, f.loc(cr))
                        else:
                            r20.violation(key, f.loc(cr), f"`{norm(cr)}` is reached under {[norm(t)[:40] for t in pos]} with no test that `{v}` is still None: every iteration replaces the register, and the fact recorded for earlier arguments ('one of them was missing') is lost for all but the next argument")
    if n < 1:
        raise AnalysisError("irbuild: no lazily created loop-carried register found (expected seen_empty_reg in _construct_varargs)")


def run_suspension_values_are_op_values(chk: Check, ix) -> None:
    """R05.21: the value of a yield / await / yield-from expression is an op result, not the register that receives it."""
    r21 = chk.rule("R05.21", "irbuild/statement.py: emit_yield returns the generator's send-argument register and emit_yield_from_or_await a local result Register. Registers are not spilled by transform/spill.py ('no Registers at all') and the send-argument register is overwritten by the next send(), so a value that is still needed after another suspension of the same expression (`[(yield 1), (yield 2)]`, `[await a, await b]`) must be an op value. Each expression transformer (transform_yield_expr / transform_yield_from_expr / transform_await_expr) therefore returns the result of `builder.add(<Op>(...))` (directly or through a helper whose returns are all of that form), never the direct result of a function that returns a Register", floor=3)
    m = ix.module("mypyc.irbuild.statement")

    def returns_register(fn) -> bool:
        regs = {a.targets[0].id for a in ast.walk(fn.node) if isinstance(a, ast.Assign) and len(a.targets) == 1 and isinstance(a.targets[0], ast.Name) and isinstance(a.value, ast.Call) and call_name(a.value) == "Register"}
        for r in ast.walk(fn.node):
            if isinstance(r, ast.Return) and r.value is not None:
                v = r.value
                if isinstance(v, ast.Call) and isinstance(v.func, ast.Attribute) and v.func.attr == "read" and v.args:
                    v = v.args[0]  # builder.read(reg) is the register itself
                if isinstance(v, ast.Name) and v.id in regs:
                    return True
                if isinstance(r.value, ast.Attribute) and r.value.attr.endswith("_reg"):
                    return True
        return False

    def is_op_value(e: ast.expr, fn, depth=0) -> bool:
        if isinstance(e, ast.Call) and isinstance(e.func, ast.Attribute) and e.func.attr == "add" and e.args and isinstance(e.args[0], ast.Call):
            return True
        if isinstance(e, ast.Call) and isinstance(e.func, ast.Name) and e.func.id in m.functions and depth < 2:
            h = m.functions[e.func.id]
            if returns_register(h):
                return False
            rets = [r.value for r in ast.walk(h.node) if isinstance(r, ast.Return) and r.value is not None]
            return bool(rets) and all(is_op_value(v, h, depth + 1) for v in rets)
        if isinstance(e, ast.Name):
            defs = [a.value for a in ast.walk(fn.node) if isinstance(a, ast.Assign) and len(a.targets) == 1 and isinstance(a.targets[0], ast.Name) and a.targets[0].id == e.id]
            return len(defs) == 1 and is_op_value(defs[0], fn, depth)
        return False

    producers = [n for n in ("emit_yield", "emit_yield_from_or_await") if n in m.functions and returns_register(m.functions[n])]
    if len(producers) < 2:
        raise AnalysisError(f"statement.py: emit_yield / emit_yield_from_or_await no longer return registers ({producers}): R05.21 needs re-reading")
    n = 0
    for name in ("transform_yield_expr", "transform_yield_from_expr", "transform_await_expr"):
        f = m.functions.get(name)
        if f is None:
            raise AnalysisError(f"statement.py: {name} not found")
        for r in ast.walk(f.node):
            if not (isinstance(r, ast.Return) and r.value is not None):
                continue
            n += 1
            key = f"{name}: the expression's value is an op result"
            if is_op_value(r.value, f):
                r21.ok(key, f.loc(r))
            else:
                r21.violation(key, f.loc(r), f"`{norm(r.value)[:70]}` hands the receiving register itself to the enclosing expression: a later suspension in the same expression overwrites it (`[(yield 1), (yield 2)]` gives ['b', 'b']) or loses it (`[await a, await b]` with object-typed awaitables gives [<NULL>, 'b'])")
    if n < 3:
        raise AnalysisError(f"only {n} returns found in the yield/await expression transformers")


def run_loop_operands_are_snapshots(chk: Check, ix) -> None:
    """R05.22: what a for loop iterates over is evaluated once."""
    r22 = chk.rule("R05.22", "Python evaluates the iterable of a `for` (and the bounds of range()) once, before the first iteration. irbuild/for_helpers.py keeps them for the whole loop in `self.<x>_target = builder.maybe_spill(<value handed in by the caller>)`; the value comes from builder.accept(expr), which for a plain local variable is that variable's Register. IRBuilder.maybe_spill therefore must not hand a Register back unchanged in a non-generator function (a copy into a fresh Register is needed, as maybe_spill_assignable makes for non-registers): otherwise an assignment to the variable in the loop body changes what is iterated", floor=1)
    b = ix.cls("mypyc.irbuild.builder.IRBuilder")
    ms = b.methods.get("maybe_spill")
    fh = ix.module("mypyc.irbuild.for_helpers")
    if ms is None:
        raise AnalysisError("IRBuilder.maybe_spill not found")
    sites = []
    for c in fh.classes.values():
        init = c.methods.get("init")
        if init is None:
            continue
        params = {a.arg for a in init.node.args.args} - {"self"}
        for a in ast.walk(init.node):
            if isinstance(a, ast.Assign) and isinstance(a.targets[0], ast.Attribute) and isinstance(a.value, ast.Call) and call_name(a.value) == "maybe_spill" and a.value.args and isinstance(a.value.args[0], ast.Name) and a.value.args[0].id in params:
                sites.append(f"{c.name}.init: self.{a.targets[0].attr} = maybe_spill({a.value.args[0].id})")
    if len(sites) < 4:
        raise AnalysisError(f"for_helpers: only {len(sites)} `self.x = builder.maybe_spill(<parameter>)` stores found in init methods")
    key = "IRBuilder.maybe_spill: a Register is not handed back unchanged outside generators"
    plain = [r for r in ast.walk(ms.node) if isinstance(r, ast.Return) and isinstance(r.value, ast.Name) and r.value.id == "value"]
    tests_register = any(isinstance(c, ast.Call) and call_name(c) == "isinstance" and len(c.args) == 2 and norm(c.args[0]) == "value" and "Register" in norm(c.args[1]) for c in ast.walk(ms.node))
    chk.extra["loop_operands_kept_by_maybe_spill"] = sites
    if plain and not tests_register:
        r22.violation(key, ms.loc(plain[0]), f"`return value` without an isinstance(value, Register) test: {len(sites)} loop generators keep their iterable / bound this way ({'; '.join(sites[:3])}; ...), so `for i in range(n): n -= 1` stops early and `for x in t: t = (7,)` indexes the new, shorter tuple with the old length")
    else:
        r22.ok(key, ms.loc())
