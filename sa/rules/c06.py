"""C06 — compiled code is memory safe: only the metadata clauses are decided.

R06.1  per-Op operand metadata: sources() / set_sources() list the same attributes in the same
       order and arity, stolen() ⊆ sources(), and PatchVisitor.visit_<op> patches exactly the
       Value-typed attributes that sources() lists.
R06.2  the borrow flag is honoured when emitting C: for every Op whose is_borrowed comes from a
       constructor argument the code generator's visit_<op> makes taking a reference depend on
       `op.is_borrowed`; ops that are always borrowed never inc-ref their result.
R06.3  ownership is preserved after the refcount pass: who may create IncRef/DecRef; the passes that
       run afterwards only override the visit methods confirmed by reading.
R05.3  pass order in compile_scc_to_ir (shared with C05).
"""

from __future__ import annotations

import ast
import re

from ..cfg import CFG, call_name
from ..index import AnalysisError, ClassInfo, get_index, norm
from ..report import Check

OP = "mypyc.ir.ops.Op"
PASS_ORDER = [
    ("insert_uninit_checks", "definedness checks must see the original control flow"),
    ("insert_exception_handling", "error branches must exist before reference counts are balanced on them"),
    ("insert_ref_count_opcodes", "spilling and lowering assume inc/dec refs are already present"),
    ("insert_spills", "spill rewriting drops/moves dec refs of values kept in the environment"),
    ("lower_ir", "copy propagation and flag elimination run on lowered ops"),
    ("do_copy_propagation", "flag elimination pattern-matches the propagated form"),
    ("do_flag_elimination", "last"),
]


def visit_name(c: ClassInfo) -> str | None:
    acc = c.methods.get("accept")
    if acc is None:
        return None
    for n in ast.walk(acc.node):
        if isinstance(n, ast.Call) and isinstance(n.func, ast.Attribute) and n.func.attr.startswith("visit_"):
            return n.func.attr
    return None


def sources_attrs(f) -> list[tuple[str, str]] | None:
    """Ordered [(attr, 'one'|'many')] returned by sources(); None if the shape is not recognised."""
    rets = [n for n in ast.walk(f.node) if isinstance(n, ast.Return) and n.value is not None]
    if len(rets) != 1:
        # conditional forms: take the union shape if all returns agree
        shapes = [expr_attrs(r.value) for r in rets]
        if shapes and all(s is not None for s in shapes):
            longest = max(shapes, key=len)
            if all(s == longest[: len(s)] or s == [] for s in shapes):
                return longest
        return None
    return expr_attrs(rets[0].value)


def expr_attrs(e: ast.expr) -> list[tuple[str, str]] | None:
    if isinstance(e, ast.List):
        out = []
        for x in e.elts:
            if isinstance(x, ast.Attribute) and norm(x.value) == "self":
                out.append((x.attr, "one"))
            elif isinstance(x, ast.Starred) and isinstance(x.value, ast.Attribute) and norm(x.value.value) == "self":
                out.append((x.value.attr, "many"))
            else:
                return None
        return out
    if isinstance(e, ast.BinOp) and isinstance(e.op, ast.Add):
        l, r = expr_attrs(e.left), expr_attrs(e.right)
        return None if l is None or r is None else l + r
    if isinstance(e, ast.Call):
        f = e.func
        if isinstance(f, ast.Attribute) and f.attr == "copy" and isinstance(f.value, ast.Attribute) and norm(f.value.value) == "self":
            return [(f.value.attr, "many")]
        if isinstance(f, ast.Name) and f.id == "list" and e.args:
            return expr_attrs(e.args[0])
    if isinstance(e, ast.Subscript) and isinstance(e.value, ast.Attribute) and norm(e.value.value) == "self" and isinstance(e.slice, ast.Slice):
        return [(e.value.attr, "many")]
    if isinstance(e, ast.Attribute) and norm(e.value) == "self":
        return [(e.attr, "many")]
    return None


def set_sources_attrs(f) -> list[tuple[str, str]] | None:
    out: list[tuple[str, str]] = []
    params = [a.arg for a in f.params]
    new = params[1] if len(params) > 1 else "new"
    stmts = []

    def flat(body):
        for st in body:
            if isinstance(st, ast.If):
                flat(st.body)
                flat(st.orelse)
            else:
                stmts.append(st)

    flat(f.node.body)
    for s in stmts:
        if isinstance(s, ast.Expr) and isinstance(s.value, ast.Constant):
            continue
        if isinstance(s, ast.Assert):
            continue
        if isinstance(s, ast.Assign) and len(s.targets) == 1:
            t, v = s.targets[0], s.value
            if isinstance(t, (ast.Tuple, ast.List)) and isinstance(v, ast.Name) and v.id == new:
                for x in t.elts:
                    if isinstance(x, ast.Attribute) and norm(x.value) == "self":
                        out.append((x.attr, "one"))
                    elif isinstance(x, ast.Starred) and isinstance(x.value, ast.Attribute):
                        out.append((x.value.attr, "many"))
                    else:
                        return None
                continue
            if isinstance(t, ast.Attribute) and norm(t.value) == "self":
                if isinstance(v, ast.Subscript) and isinstance(v.value, ast.Name) and v.value.id == new:
                    out.append((t.attr, "many" if isinstance(v.slice, ast.Slice) else "one"))
                    continue
                if isinstance(v, ast.Name) and v.id == new:
                    out.append((t.attr, "many"))
                    continue
                if isinstance(v, ast.Call) and any(isinstance(x, ast.Name) and x.id == new for x in ast.walk(v)):
                    out.append((t.attr, "many"))
                    continue
            return None
        elif isinstance(s, ast.Pass):
            continue
        else:
            return None
    return out


def run(chk: Check) -> None:
    ix = get_index()
    run_instance_wide(chk, ix)
    run_memo_keys(chk, ix)
    run_error_kinds(chk, ix)
    run_uninit(chk, ix)
    run_borrow_chain(chk, ix)
    run_borrowed_results(chk, ix)
    run_stolen_args(chk, ix)
    run_cfg_handler_edges(chk, ix)
    run_ctor_init_failure(chk, ix)
    run_bitmap_del(chk, ix)
    run_self_receiver(chk, ix)
    run_cast_failure(chk, ix)
    run_init_facts_respect_leaks(chk, ix)
    run_self_leak_stores(chk, ix)
    run_slot_store_order(chk, ix)
    run_glue_unbox_borrows(chk, ix)
    run_preallocated_fill_bound(chk, ix)
    run_refcount_edge_sets(chk, ix)
    run_hooks_outside_init(chk, ix)
    run_spill_owns_what_it_stores(chk, ix)
    run_unborrow_before_failing_ops(chk, ix)
    run_sources_lists_are_read_only(chk, ix)
    base = ix.cls(OP)
    ops = [c for c in base.all_subclasses() if c.module.name == "mypyc.ir.ops" and "sources" in c.methods and not any(isinstance(n, ast.Raise) for n in c.methods["sources"].node.body)]
    if len(ops) < 35:
        raise AnalysisError(f"only {len(ops)} Op classes with sources() found")

    r1 = chk.rule("R06.1", "for every Op: sources() and set_sources() name the same attributes in the same order/arity, stolen() ⊆ sources(), and PatchVisitor patches exactly those attributes", floor=80)
    patch = ix.cls("mypyc.transform.ir_transform.PatchVisitor")
    for c in sorted(ops, key=lambda c: c.node.lineno):
        src = sources_attrs(c.methods["sources"])
        where = f"{c.module.relpath}:{c.methods['sources'].node.lineno}"
        if src is None:
            raise AnalysisError(f"{c.qualname}.sources(): unrecognised shape")
        ss_m = c.lookup_method("set_sources")
        ss = set_sources_attrs(ss_m) if ss_m is not None else None
        key = f"{c.name}: set_sources mirrors sources {[a for a, _ in src]}"
        if ss is None:
            raise AnalysisError(f"{c.qualname}.set_sources(): unrecognised shape")
        if [a for a, _ in ss] == [a for a, _ in src] and all(k1 == k2 or "many" in (k1, k2) and len(src) == 1 for (_, k1), (_, k2) in zip(src, ss)):
            r1.ok(key, where)
        else:
            r1.violation(key, where, f"sources() lists {src} but set_sources() assigns {ss}: passes that rewrite operands through set_sources (copy propagation, spilling) silently rewire or drop an operand")
        st_m = c.lookup_method("stolen")
        if st_m is not None and st_m.cls is not base:
            stolen = set()
            for r in ast.walk(st_m.node):
                if isinstance(r, ast.Return) and r.value is not None:
                    for x in ast.walk(r.value):
                        if isinstance(x, ast.Attribute) and norm(x.value) == "self" and x.attr not in ("copy", "sources"):
                            stolen.add(x.attr)
                    if isinstance(r.value, ast.Call) and norm(r.value.func) == "self.sources":
                        stolen |= {a for a, _ in src}
            extra = stolen - {a for a, _ in src} - {"is_borrowed", "steals", "dest", "type", "src_type"}
            key = f"{c.name}: stolen() ⊆ sources()"
            if extra:
                r1.violation(key, f"{c.module.relpath}:{st_m.node.lineno}", f"stolen() returns {sorted(extra)} which sources() does not list: the refcount pass transfers ownership of a value it does not track as an operand")
            else:
                r1.ok(key, f"{c.module.relpath}:{st_m.node.lineno}")
        vn = visit_name(c)
        pm = patch.methods.get(vn) if vn else None
        if vn is None or pm is None:
            r1.violation(f"{c.name}: PatchVisitor has a visit method", where, f"no PatchVisitor.{vn}")
            continue
        patched = []
        opn = pm.params[1].arg if len(pm.params) > 1 else "op"
        fixed_locals = {t.id for n in ast.walk(pm.node) if isinstance(n, ast.Assign) and any(isinstance(x, ast.Call) and call_name(x) == "fix_op" for x in ast.walk(n.value)) for t in n.targets if isinstance(t, ast.Name)}
        for n in ast.walk(pm.node):
            if isinstance(n, ast.Assign):
                for t in n.targets:
                    if isinstance(t, ast.Attribute) and norm(t.value) == opn and (any(isinstance(x, ast.Call) and call_name(x) == "fix_op" for x in ast.walk(n.value)) or (isinstance(n.value, ast.Name) and n.value.id in fixed_locals)):
                        patched.append(t.attr)
            elif isinstance(n, ast.Call) and isinstance(n.func, ast.Attribute) and n.func.attr == "set_sources":
                patched = [a for a, _ in src]
        key = f"{c.name}: PatchVisitor.{vn} patches the operands of sources()"
        want = {a for a, _ in src}
        got = set(patched)
        if got == want:
            r1.ok(key, pm.loc())
        elif got - want and not (want - got):
            extra = got - want
            # Value-typed attributes patched although sources() does not list them
            r1.violation(f"{c.name}: PatchVisitor.{vn} patches {sorted(extra)} not listed by sources()", pm.loc(), f"{sorted(extra)} hold Values (they are patched when ops are replaced) but sources() does not list them: liveness, refcounting and spilling do not see these operands")
        else:
            r1.violation(key, pm.loc(), f"sources() lists {sorted(want)} but PatchVisitor.{vn} patches {sorted(got)}: after an IR transform the op keeps pointing at a replaced (dead) value in {sorted(want - got)}")

    # ---------------- R06.2
    r2 = chk.rule("R06.2", "code generation takes a new reference for an op result only when the op is not borrowed", floor=8)
    emit = ix.cls("mypyc.codegen.emitfunc.FunctionEmitterVisitor")
    value = ix.cls("mypyc.ir.ops.Value")
    for c in sorted(ops, key=lambda c: c.node.lineno):
        init = c.methods.get("__init__")
        dyn = False
        if init is not None:
            for n in ast.walk(init.node):
                if isinstance(n, ast.Assign) and any(norm(t) == "self.is_borrowed" for t in n.targets) and not isinstance(n.value, ast.Constant):
                    dyn = True
        always = isinstance(c.class_assigns.get("is_borrowed"), ast.Constant) and c.class_assigns["is_borrowed"].value is True
        vn = visit_name(c)
        em = emit.lookup_method(vn) if vn else None
        if em is None:
            continue
        src = norm(em.node)
        incs = [n for n in ast.walk(em.node) if isinstance(n, ast.Call) and call_name(n) in ("emit_inc_ref",)]
        if c.name in ("CallC", "PrimitiveOp", "Call", "MethodCall"):
            continue  # ownership of the result is supplied by the callee
        if dyn:
            key = f"{c.name}: {vn} conditions reference-taking on op.is_borrowed"
            if "is_borrowed" in src:
                r2.ok(key, em.loc())
            elif not incs and "borrow" not in src and c.name in ("LoadErrorValue", "Box"):
                r2.ok(key, em.loc(), "result is an immortal/unrefcounted value or a fresh allocation; no reference to take")
            else:
                r2.violation(key, em.loc(), f"{c.name}(…, borrow=…) records whether the result is borrowed, but the C emitted by {vn} does not look at op.is_borrowed: a borrowed result gets an extra reference (leak) or an owned one gets none (use after free)")
        elif always:
            key = f"{c.name}: always borrowed, {vn} takes no reference to the result"
            dest_incs = [n for n in incs if n.args and ("dest" in norm(n.args[0]) or "self.reg(op)" in norm(n.args[0]))]
            if dest_incs:
                r2.violation(key, em.loc(), "an op declared `is_borrowed = True` emits an inc-ref of its result: every execution leaks one reference")
            else:
                r2.ok(key, em.loc())

    # ---------------- R06.3
    r3 = chk.rule("R06.3", "IncRef/DecRef are created only by the refcount and spill passes (plus the tabled vec site); the passes after refcount insertion override only the visit methods confirmed by reading", floor=6)
    allowed_creators = {"mypyc.transform.refcount", "mypyc.transform.spill"}
    for q, f in sorted(ix.functions.items()):
        if f.parent is not None or not f.module.name.startswith("mypyc."):
            continue
        for n in ast.walk(f.node):
            if isinstance(n, ast.Call) and isinstance(n.func, ast.Name) and n.func.id in ("IncRef", "DecRef"):
                key = f"{q}: constructs {n.func.id}"
                if f.module.name in allowed_creators:
                    r3.ok(key, f.loc(n))
                else:
                    r3.violation(key, f.loc(n), f"a reference-count op is created outside the refcount/spill passes: the balance computed by insert_ref_count_opcodes does not account for it")
    confirmed = {
        "mypyc.transform.copy_propagation.CopyPropagationTransform": {"visit_assign", "__init__"},
        "mypyc.transform.flag_elimination.FlagEliminationTransform": {"visit_assign", "visit_goto", "visit_branch", "__init__"},
    }
    for cq, allowed in confirmed.items():
        ci = ix.classes.get(cq)
        if ci is None:
            raise AnalysisError(f"{cq} vanished")
        over = {m for m in ci.methods if m.startswith("visit_")}
        extra = over - allowed
        key = f"{ci.name}: overrides only {sorted(allowed - {'__init__'})}"
        if extra:
            r3.violation(key, f"{ci.module.relpath}:{ci.node.lineno}", f"new overrides {sorted(extra)} in a pass that runs after reference counts were inserted: it may drop or duplicate IncRef/DecRef or refcounted operands (not analysed)")
        else:
            r3.ok(key, f"{ci.module.relpath}:{ci.node.lineno}")
        if {"visit_inc_ref", "visit_dec_ref"} & over:
            r3.violation(f"{ci.name}: leaves IncRef/DecRef alone", f"{ci.module.relpath}:{ci.node.lineno}", "the pass filters or rewrites reference-count ops")
        else:
            r3.ok(f"{ci.name}: leaves IncRef/DecRef alone", f"{ci.module.relpath}:{ci.node.lineno}")

    # ---------------- R05.3
    pass_order(chk, ix)


def pass_order(chk: Check, ix) -> None:
    r = chk.rule("R05.3", "compile_scc_to_ir runs uninit checks < exception handling < refcount insertion < spills < lowering < copy propagation < flag elimination for every function", floor=6)
    f = ix.func("mypyc.codegen.emitmodule.compile_scc_to_ir")
    g = CFG(f.node)
    prev = None
    prev_name = None
    for name, why in PASS_ORDER:
        ns = [n for n in g.nodes if any(call_name(c) == name for c in n.calls())]
        if not ns:
            r.violation(f"pass {name} present", f.loc(), f"pass missing: {why}")
            continue
        n = ns[0]
        key = f"{prev_name or 'start'} < {name}"
        if prev is None or (g.must_pass(g.entry, [n], [prev], labels_excluded=("exc",)) or name == "lower_ir" and g.must_pass(g.entry, [n], [p for p in g.nodes if any(call_name(c) == "insert_ref_count_opcodes" for c in p.calls())], labels_excluded=("exc",))):
            later = g.reachable([n], labels_excluded=("exc",))
            if prev is not None and prev in later and not same_loop_iteration(g, prev, n):
                r.violation(key, f.loc(n.stmt), f"{prev_name} can run after {name}")
            else:
                r.ok(key, f.loc(n.stmt), why)
        else:
            r.violation(key, f.loc(n.stmt), f"{name} can run without {prev_name} having run first: {why}")
        if name != "insert_spills":
            prev, prev_name = n, name


def same_loop_iteration(g, a, b) -> bool:
    """a precedes b inside one loop body (a is reachable from b only through the loop head)."""
    heads = [n for n in g.nodes if n.kind == "for-head"]
    r = g.reachable([b], avoiding=heads, labels_excluded=("exc",))
    return a not in r


def run_instance_wide(chk: Check, ix) -> None:
    """R06.4: emitters that touch the storage of *every* attribute of an instance agree on the attribute set."""
    r4 = chk.rule("R06.4", "every emitter that initialises / traverses / clears / recycles the attribute storage of an instance visits the attributes of all classes in cl.base_mro (the struct holds inherited fields too), like the struct layout does", floor=4)
    m = ix.module("mypyc.codegen.emitclass")
    bulk = {"set_undefined_value", "emit_gc_visit", "emit_gc_clear", "emit_reuse_clear"}
    par = m.parents()
    n = 0
    for q, f in sorted(ix.functions.items()):
        if f.module is not m or f.parent is not None:
            continue
        for lp in ast.walk(f.node):
            if not (isinstance(lp, ast.For) and isinstance(lp.iter, ast.Call) and isinstance(lp.iter.func, ast.Attribute) and lp.iter.func.attr == "items" and isinstance(lp.iter.func.value, ast.Attribute) and lp.iter.func.value.attr == "attributes"):
                continue
            touches = [c for c in ast.walk(lp) if isinstance(c, ast.Call) and isinstance(c.func, ast.Attribute) and c.func.attr in bulk and c.args and "self->" in norm(c.args[0])]
            layout = f.name == "generate_object_struct"
            if not touches and not layout:
                continue
            n += 1
            owner = norm(lp.iter.func.value.value)
            outer = par.get(lp)
            while outer is not None and not isinstance(outer, (ast.For, ast.FunctionDef)):
                outer = par.get(outer)
            over_mro = isinstance(outer, ast.For) and norm(outer.target) == owner and "base_mro" in norm(outer.iter)
            what = "struct layout" if layout else "/".join(sorted({c.func.attr for c in touches}))
            key = f"{f.name}: {what} covers the attributes of every class in base_mro"
            if over_mro:
                r4.ok(key, f.loc(lp))
            else:
                r4.violation(key, f.loc(lp), f"iterates `{owner}.attributes` only: fields inherited from native base classes are skipped (not initialised / not visited by the GC / not released when the instance is freed or recycled)")
    if n < 4:
        raise AnalysisError(f"only {n} instance-wide attribute emitters recognised in emitclass.py")


def run_memo_keys(chk: Check, ix) -> None:
    """R06.5: a memoised IR fragment is keyed by everything it was built from."""
    r5 = chk.rule("R06.5", "where a transform pass memoises a constructed block in a dict parameter (`if K in cache: return cache[K]` ... `cache[K] = block`), every other parameter the block is built from appears whole in the key K; a key that projects a parameter (drops the per-edge is_xdec flag of the registers to release) lets an edge reuse a block built for different facts", floor=1)
    n = 0
    for q, f in sorted(ix.functions.items()):
        if f.parent is not None or not f.module.name.startswith(("mypyc.transform", "mypyc.analysis")):
            continue
        params = [a.arg for a in f.params]
        stores = [a for a in ast.walk(f.node) if isinstance(a, ast.Assign) and isinstance(a.targets[0], ast.Subscript) and isinstance(a.targets[0].value, ast.Name) and a.targets[0].value.id in params]
        for st in stores:
            cache = st.targets[0].value.id
            key = st.targets[0].slice
            lookups = [c for c in ast.walk(f.node) if isinstance(c, ast.Compare) and len(c.ops) == 1 and isinstance(c.ops[0], ast.In) and norm(c.comparators[0]) == cache]
            if not lookups:
                continue
            n += 1
            # what the stored value is built from: parameters read in statements that mention the stored name
            val = norm(st.value)
            built_from = set()
            for x in f.node.body:
                if x is st:
                    continue
                if any(isinstance(y, ast.Name) and y.id == val for y in ast.walk(x)) and not isinstance(x, ast.Return):
                    built_from |= {y.id for y in ast.walk(x) if isinstance(y, ast.Name) and y.id in params and y.id != cache}
            # resolve a key given through a local
            kexpr = key
            if isinstance(kexpr, ast.Name):
                defs = [a.value for a in ast.walk(f.node) if isinstance(a, ast.Assign) and norm(a.targets[0]) == kexpr.id]
                kexpr = defs[0] if len(defs) == 1 else kexpr
            elts = kexpr.elts if isinstance(kexpr, ast.Tuple) else [kexpr]
            whole = {e.id for e in elts if isinstance(e, ast.Name)}
            lk = {norm(c.left) for c in lookups}
            same_key = lk == {norm(key)}
            missing = sorted(p_ for p_ in built_from if p_ not in whole and p_ not in ("blocks",))
            k = f"{q}: `{cache}[{norm(key)}]` is keyed by every parameter the cached value is built from"
            if not missing and same_key:
                r5.ok(k, f.loc(st), f"built from {sorted(built_from)}")
            else:
                r5.violation(k, f.loc(st), (f"the cached value is built from {sorted(built_from)} but the key holds {sorted(whole)} whole" + (f" (and `{[norm(e) for e in elts if not isinstance(e, ast.Name)]}` only in part)" if len(whole) < len(elts) else "") if missing else f"lookup key {sorted(lk)} differs from the store key") + ": two call sites that differ only in the dropped part share one cached block (e.g. a plain dec_ref reused where the register may still be NULL)")
    if n < 1:
        raise AnalysisError("no memoised construction found in mypyc/transform (expected refcount.add_block)")


def run_error_kinds(chk: Check, ix) -> None:
    """R06.6: the exception transform has an arm for every error kind an op can declare."""
    r6 = chk.rule("R06.6", "split_blocks_at_errors handles every ERR_* error kind defined in mypyc/ir/ops.py other than ERR_NEVER (an op whose kind has no arm gets no error branch: the error value is used as a result, or the transform asserts), and enters the case analysis for every RegisterOp whose kind is not ERR_NEVER", floor=4)
    ops = ix.module("mypyc.ir.ops")
    kinds = sorted(k for k in ops.assigns if k.startswith("ERR_") and isinstance(ops.assigns[k], ast.Constant) and isinstance(ops.assigns[k].value, int))
    if len(kinds) < 4:
        raise AnalysisError(f"only {len(kinds)} ERR_* constants found in mypyc/ir/ops.py")
    f = ix.func("mypyc.transform.exceptions.split_blocks_at_errors")
    tests = [norm(c) for c in ast.walk(f.node) if isinstance(c, ast.Compare)]
    entry = any(t in ("op.error_kind != ERR_NEVER",) for t in tests)
    for k in kinds:
        if k == "ERR_NEVER":
            continue
        key = f"split_blocks_at_errors has an arm for {k}"
        if f"op.error_kind == {k}" in tests or f"op.error_kind in ({k}," in " ".join(tests):
            r6.ok(key, f.loc())
        else:
            r6.violation(key, f.loc(), f"an op declaring error_kind={k} gets no error check after it: its error value flows on as an ordinary result (or the transform hits `assert False`)")
    if entry:
        r6.ok("the case analysis is entered for every RegisterOp with error_kind != ERR_NEVER", f.loc())
    else:
        r6.violation("the case analysis is entered for every RegisterOp with error_kind != ERR_NEVER", f.loc(), "ops that can raise are filtered by something other than `error_kind != ERR_NEVER`")


def run_uninit(chk: Check, ix) -> None:
    """R06.7: reads of maybe-undefined registers are checked before the op that reads them."""
    from ..pattern import has
    r7 = chk.rule("R06.7", "split_blocks_at_uninits inspects every source of every op, inserts the definedness check for each Register source that the must-defined analysis does not guarantee (only the check itself and LoadAddress are exempt), before the op is appended to its block, and the failing branch raises UnboundLocalError and is terminated", floor=4)
    f = ix.func("mypyc.transform.uninit.split_blocks_at_uninits")
    src_loops = [l for l in ast.walk(f.node) if isinstance(l, ast.For) and isinstance(l.iter, ast.Call) and isinstance(l.iter.func, ast.Attribute) and l.iter.func.attr in ("unique_sources", "sources") and norm(l.iter.func.value) == "op"]
    if len(src_loops) != 1:
        raise AnalysisError("split_blocks_at_uninits: the loop over the op's sources was not found")
    lp = src_loops[0]
    r7.ok("every source of the op is inspected (`for src in op.unique_sources()`)", f.loc(lp))
    tests = [t for t in lp.body if isinstance(t, ast.If)]
    conj = []
    if tests:
        t = tests[0].test
        conj = [norm(v) for v in (t.values if isinstance(t, ast.BoolOp) and isinstance(t.op, ast.And) else [t])]
    sv = norm(lp.target)
    allowed = {f"isinstance({sv}, Register)", f"{sv} not in defined", "not (isinstance(op, Branch) and op.op == Branch.IS_ERROR)", "not isinstance(op, LoadAddress)"}
    need = {f"isinstance({sv}, Register)", f"{sv} not in defined"}
    key = "the check is inserted for every Register source that is not must-defined, with only the two documented exemptions"
    if need <= set(conj) and set(conj) <= allowed:
        r7.ok(key, f.loc(tests[0]))
    else:
        r7.violation(key, f.loc(tests[0]) if tests else f.loc(lp), f"condition is {conj}: " + ("a required conjunct is missing" if not need <= set(conj) else f"additional exemption(s) {sorted(set(conj) - allowed)}: reads of possibly unassigned registers by those ops go unchecked (NULL dereference instead of UnboundLocalError)"))
    # the op itself is appended after its sources were checked
    par = f.module.parents()
    outer = par.get(lp)
    while outer is not None and not isinstance(outer, ast.For):
        outer = par.get(outer)
    appended = False
    if outer is not None:
        idx = [i for i, st in enumerate(outer.body) if st is lp or any(x is lp for x in ast.walk(st))]
        later = outer.body[idx[0] + 1:] if idx else []
        appended = any(isinstance(c, ast.Call) and isinstance(c.func, ast.Attribute) and c.func.attr == "append" and c.args and norm(c.args[0]) == "op" for st in later for c in ast.walk(st))
        earlier = outer.body[: idx[0]] if idx else []
        early_app = any(isinstance(c, ast.Call) and isinstance(c.func, ast.Attribute) and c.func.attr == "append" and c.args and norm(c.args[0]) == "op" for st in earlier for c in ast.walk(st))
        appended = appended and not early_app
    if appended:
        r7.ok("the op is appended to the current block after the checks for its sources", f.loc(lp))
    else:
        r7.violation("the op is appended to the current block after the checks for its sources", f.loc(lp), "the op precedes (or is not followed by) the definedness checks of its own operands")
    if has(f.node, "$e.ops.append($r)", "$e.ops.append(Unreachable())") and any(isinstance(c, ast.Attribute) and norm(c) == "RaiseStandardError.UNBOUND_LOCAL_ERROR" for c in ast.walk(f.node)):
        r7.ok("the failing branch raises UNBOUND_LOCAL_ERROR and ends in Unreachable", f.loc())
    else:
        r7.violation("the failing branch raises UNBOUND_LOCAL_ERROR and ends in Unreachable", f.loc(), "the error block of the definedness check no longer raises UnboundLocalError / is not terminated")


def borrow_steps(f) -> dict[str, tuple[str, ast.AST]]:
    """{OpKind: (operand attr, node)} for the arms `isinstance(v, K) and v.is_borrowed` of f that
    continue the walk at an operand of v (`v = v.attr` or a recursive call on `v.attr`)."""
    params = {a.arg for a in f.node.args.args}
    out: dict[str, tuple[str, ast.AST]] = {}
    for n in ast.walk(f.node):
        if not isinstance(n, (ast.If, ast.While)):
            continue
        t = n.test
        conj = t.values if isinstance(t, ast.BoolOp) and isinstance(t.op, ast.And) else [t]
        var = None
        kinds: list[str] = []
        borrowed = False
        for c in conj:
            if isinstance(c, ast.Call) and call_name(c) == "isinstance" and len(c.args) == 2 and isinstance(c.args[0], ast.Name):
                var = c.args[0].id
                k = c.args[1]
                kinds = [norm(e) for e in (k.elts if isinstance(k, ast.Tuple) else [k])]
            elif isinstance(c, ast.Attribute) and c.attr == "is_borrowed" and isinstance(c.value, ast.Name):
                borrowed = True
        if var is None or var not in params or not borrowed or not kinds:
            continue
        step = None
        for st in n.body:
            for x in ast.walk(st):
                if isinstance(x, ast.Assign) and len(x.targets) == 1 and norm(x.targets[0]) == var and isinstance(x.value, ast.Attribute) and norm(x.value.value) == var:
                    step = x.value.attr
                elif isinstance(x, ast.Call) and call_name(x) == f.name:
                    for a in x.args:
                        if isinstance(a, ast.Attribute) and norm(a.value) == var:
                            step = a.attr
        if step is not None:
            for k in kinds:
                out[k] = (step, n)
    return out


def run_borrow_chain(chk: Check, ix) -> None:
    r8 = chk.rule("R06.8", "the two walks over a chain of borrowed values agree: every op kind through which value_borrow_scope propagates the lifetime constraint of a borrowed value to its operand (a borrowed GetAttr reads from .obj, a borrowed Cast is its .src) is also stepped through by IRBuilder.root_is_reassigned when it looks for the local variable that keeps the chain alive, at the same operand, and that operand is one sources() lists; a kind one walk passes through and the other stops at lets `(x := other)` free the object a whole-expression borrow still points into", floor=5)
    scope_f = ix.func("mypyc.irbuild.expression.value_borrow_scope")
    root_f = ix.func("mypyc.irbuild.builder.IRBuilder.root_is_reassigned")
    a, b = borrow_steps(scope_f), borrow_steps(root_f)
    if not a or not b:
        raise AnalysisError(f"borrow-chain walks not recognised (value_borrow_scope: {sorted(a)}, root_is_reassigned: {sorted(b)})")
    r8.ok(f"value_borrow_scope passes through {sorted(a)}", scope_f.loc())
    r8.ok(f"root_is_reassigned passes through {sorted(b)}", root_f.loc())
    for k in sorted(set(a) | set(b)):
        key = f"borrowed {k} is stepped through by both walks at the same operand"
        if k in a and k in b and a[k][0] == b[k][0]:
            r8.ok(key, root_f.loc(b[k][1]))
        elif k not in b:
            r8.violation(key, root_f.loc(), f"value_borrow_scope continues at {k}.{a[k][0]} ({scope_f.loc(a[k][1])}) but root_is_reassigned stops at a borrowed {k}: a chain `<cast>(x).attr` never reaches the register of x, so a walrus rebinding of x in the same expression is not seen and the borrowed attribute outlives its owner")
        elif k not in a:
            r8.violation(key, scope_f.loc(), f"root_is_reassigned continues at {k}.{b[k][0]} but value_borrow_scope treats a borrowed {k} as unconstrained (scope 999): the lifetime limit of the value it was taken from is lost")
        else:
            r8.violation(key, root_f.loc(b[k][1]), f"the walks continue at different operands ({a[k][0]} vs {b[k][0]})")
    for k in sorted(set(a) & set(b)):
        c = ix.classes.get(f"mypyc.ir.ops.{k}")
        sa_ = sources_attrs(c.methods["sources"]) if c is not None and "sources" in c.methods else None
        key = f"{k}.{b[k][0]} is an operand listed by {k}.sources()"
        if sa_ is not None and any(at == b[k][0] for at, _ in sa_):
            r8.ok(key, c.methods["sources"].loc())
        else:
            r8.violation(key, root_f.loc(b[k][1]), f"sources() of {k} gives {sa_}")


BORROWING_APIS = {"PyList_GetItem", "PyTuple_GetItem", "PyDict_GetItem", "PyDict_GetItemWithError", "PyDict_GetItemString", "PySequence_Fast_GET_ITEM", "PyWeakref_GetObject", "PyCell_GET", "PyImport_AddModule", "PyModule_GetDict", "PyTuple_GET_ITEM", "PyList_GET_ITEM"}


def run_borrowed_results(chk: Check, ix) -> None:
    """R06.9: a primitive's is_borrowed flag agrees with what the bound C function returns."""
    from ..cfront import lib_rt_functions
    from .c05 import primitive_sites, call_label
    r9 = chk.rule("R06.9", "for a primitive bound to a lib-rt function whose result comes out of a container slot or a borrowing CPython API (PyList_GET_ITEM's `ob_item[i]`, PyDict_GetItemWithError, ...): if the C function returns it without taking a reference the primitive is declared is_borrowed=True (otherwise the refcount pass releases a reference the function never acquired: an object is freed while the container still holds it), and if the C function takes a reference on every such path the primitive is not declared borrowed (otherwise the reference is never released)", floor=6)
    funcs, _ = lib_rt_functions(ix.root)
    chk.trusted.append("the list of CPython APIs that return borrowed references (sa/rules/c06.py BORROWING_APIS)")

    def borrowed_src(x: str) -> bool:
        return x == "borrowed:ob_item" or (x.startswith("call:") and x[5:] in BORROWING_APIS)
    seen = set()
    for m, n, kw, cname in primitive_sites(ix):
        e = funcs.get(cname)
        if e is None or "return_sources" not in e:
            continue
        ret_b, ret_o = [], []
        for r in e["return_sources"]:
            if borrowed_src(r):
                ret_b.append(r)
            elif r.startswith("ref:"):
                v = r[4:]
                srcs = e["assigned_from"].get(v, [])
                if srcs and any(borrowed_src(x) for x in srcs):
                    (ret_o if v in e["incref_args"] else ret_b).append(f"{v} <- {[x for x in srcs if borrowed_src(x)][0]}")
        if not ret_b and not ret_o:
            continue
        b = kw.get("is_borrowed")
        declared = isinstance(b, ast.Constant) and b.value is True
        key = f"{m.name}: {cname} is_borrowed={declared} [{call_label(kw)}]"
        if key in seen:
            continue
        seen.add(key)
        where = f"{m.relpath}:{n.lineno}"
        if ret_b and not declared:
            r9.violation(key, where, f"{cname} returns {ret_b[0]} without taking a reference, but the primitive is not declared is_borrowed=True: the refcount pass will release a reference that was never acquired (the object is freed while its container still refers to it)")
        elif declared and ret_o and not ret_b:
            r9.violation(key, where, f"{cname} takes a new reference to what it returns ({ret_o[0]}), but the primitive is declared is_borrowed=True: that reference is never released")
        else:
            r9.ok(key, where, f"C returns {'borrowed ' + ret_b[0] if ret_b else 'new reference to ' + ret_o[0]}")


def run_stolen_args(chk: Check, ix) -> None:
    """R06.10: an argument a primitive declares as stolen is consumed by the C function on every exit."""
    from ..cfront import lib_rt_functions
    from .c05 import primitive_sites, call_label
    r10 = chk.rule("R06.10", "a primitive that declares an argument as stolen (steals=...) hands the reference over for good: the refcount pass emits no release for it, so the bound lib-rt function must give it away on every exit — pass it to a stealing CPython API (PyList_SET_ITEM, ...), store it into an object slot, return it, or dec-ref it — including the exits that report an error; an exit that leaves it alone leaks one reference per call (structured walk over clang's statement tree of the C body)", floor=4)
    funcs, _ = lib_rt_functions(ix.root)
    n = 0
    for m, call, kw, cname in primitive_sites(ix):
        st = kw.get("steals")
        if st is None or (isinstance(st, ast.Constant) and st.value is False):
            continue
        e = funcs.get(cname)
        where = f"{m.relpath}:{call.lineno}"
        if e is None or not e.get("has_body") or "consumption" not in e or kw.get("ordering") is not None:
            continue
        pn = e.get("param_names") or []
        if isinstance(st, ast.List):
            idx = [i for i, x in enumerate(st.elts) if isinstance(x, ast.Constant) and x.value is True]
        elif isinstance(st, ast.Constant) and st.value is True:
            idx = [i for i, p in enumerate(pn) if p in e["consumption"]]
        else:
            continue
        for i in idx:
            if i >= len(pn) or pn[i] not in e["consumption"]:
                continue
            c = e["consumption"][pn[i]]
            key = f"{m.name}: {cname} consumes stolen argument {i} (`{pn[i]}`) on every exit [{call_label(kw)}]"
            n += 1
            if not c["structured"]:
                r10.info(key, where, "the C body uses goto/switch: not decided")
                continue
            bad = [r for r in c["returns"] if r["may_be_unconsumed"]]
            if bad:
                r10.violation(key, where, f"{cname} can leave through {len(bad)} of {len(c['returns'])} exits (line {', '.join(str(r['line']) for r in bad[:4])}) without giving `{pn[i]}` away: the reference the primitive stole is never released (one leaked reference per failing call)")
            else:
                r10.ok(key, where, f"{len(c['returns'])} exits")
    if n < 4:
        raise AnalysisError(f"only {n} stolen arguments with a C body found")
    # the other direction: a function that gives a parameter away without taking its own reference
    seen = set()
    for m, call, kw, cname in primitive_sites(ix):
        e = funcs.get(cname)
        if e is None or "consumption" not in e or kw.get("ordering") is not None:
            continue
        st = kw.get("steals")
        for i, pn in enumerate(e.get("param_names") or []):
            c = e["consumption"].get(pn)
            if not c or not c.get("given_away"):
                continue
            stolen = (isinstance(st, ast.Constant) and st.value is True) or (isinstance(st, ast.List) and i < len(st.elts) and isinstance(st.elts[i], ast.Constant) and st.elts[i].value is True)
            key = f"{m.name}: {cname} gives argument {i} (`{pn}`) away ({c['given_away']}) only if it owns it [{call_label(kw)}]"
            if key in seen:
                continue
            seen.add(key)
            where = f"{m.relpath}:{call.lineno}"
            if stolen or c.get("increfed"):
                r10.ok(key, where, "declared stolen" if stolen else "takes its own reference first")
            else:
                r10.violation(key, where, f"{cname} hands `{pn}` to its new owner ({c['given_away']}) without taking a reference, and the primitive does not declare the argument as stolen: the caller releases its reference too, so the object is freed while the new owner still points to it")


def run_cfg_handler_edges(chk: Check, ix) -> None:
    """R06.11: the pre-exception-transform CFG has an edge to the handler of every normal successor."""
    from ..cfg import branch_conditions
    r11 = chk.rule("R06.11", "analysis/dataflow.get_cfg (the CFG of the must-defined analysis that decides where UnboundLocalError checks go) gives every block an edge to its own error handler and to the error handler of each normal successor, each conditional on nothing but that handler existing: an error can strike before the next block has completed, so a register assigned in an inner try body must not count as defined in that try's handler; making the successor-handler edges depend on the block's own handler drops them where protected regions nest, and compiled code reads a never-assigned (NULL) register", floor=3)
    f = ix.func("mypyc.analysis.dataflow.get_cfg")
    par = f.module.parents()
    outer = [l for l in ast.walk(f.node) if isinstance(l, ast.For) and isinstance(l.target, ast.Name) and norm(l.iter) == "blocks"]
    if not outer:
        raise AnalysisError("get_cfg: the loop over blocks was not found")
    blk = outer[0].target.id
    # the per-block successor list
    succ = None
    for a in ast.walk(outer[0]):
        if isinstance(a, ast.Assign) and len(a.targets) == 1 and isinstance(a.targets[0], ast.Name) and isinstance(a.value, ast.Call) and "targets" in norm(a.value):
            succ = a.targets[0].id
    if succ is None:
        raise AnalysisError("get_cfg: the successor list (from terminator.targets()) was not found")
    appends = [c for c in ast.walk(outer[0]) if isinstance(c, ast.Call) and isinstance(c.func, ast.Attribute) and c.func.attr == "append" and norm(c.func.value) == succ and c.args]

    def origin(e: ast.expr, at: ast.AST) -> set[str]:
        """{'own', 'succ'}: whose handler the appended value is."""
        if isinstance(e, ast.Name):
            out: set[str] = set()
            for a in ast.walk(outer[0]):
                if isinstance(a, ast.Assign) and any(isinstance(t, ast.Name) and t.id == e.id for t in a.targets):
                    out |= origin(a.value, a)
            return out
        if isinstance(e, ast.Attribute) and e.attr == "error_handler":
            b = e.value
            if isinstance(b, ast.Name) and b.id == blk:
                return {"own"}
            if isinstance(b, ast.Name):
                # a loop variable: over what?
                cur = par.get(at)
                while cur is not None and cur is not outer[0]:
                    if isinstance(cur, ast.For) and isinstance(cur.target, ast.Name) and cur.target.id == b.id:
                        it = norm(cur.iter)
                        o = set()
                        if re.search(rf"\b{succ}\b", it):
                            o.add("succ")
                        if re.search(rf"\[{blk}\]", it):
                            o.add("own")
                        return o
                    cur = par.get(cur)
        return set()
    own_ok = succ_ok = False
    # an append of a loop variable over a local list stands for the appends that fill that list
    work = list(appends)
    seen_calls = set()
    flat = []
    while work:
        c = work.pop()
        if id(c) in seen_calls:
            continue
        seen_calls.add(id(c))
        a0 = c.args[0]
        via = None
        if isinstance(a0, ast.Name):
            cur = par.get(c)
            while cur is not None and cur is not outer[0]:
                if isinstance(cur, ast.For) and isinstance(cur.target, ast.Name) and cur.target.id == a0.id and isinstance(cur.iter, ast.Name) and cur.iter.id != succ:
                    via = cur.iter.id
                    break
                cur = par.get(cur)
        if via is not None:
            work.extend(x for x in ast.walk(outer[0]) if isinstance(x, ast.Call) and isinstance(x.func, ast.Attribute) and x.func.attr == "append" and norm(x.func.value) == via and x.args)
        flat.append(c)
    for c in flat:
        o = origin(c.args[0], c)
        if not o:
            continue
        st = c
        while not isinstance(st, ast.stmt):
            st = par[st]
        pos, neg = branch_conditions(par, outer[0], st, early_exits=True)
        arg_txt = norm(c.args[0])
        foreign = []
        for t, polarity in [(x, "true") for x in pos] + [(x, "false") for x in neg]:
            names = {norm(a) for a in ast.walk(t) if isinstance(a, ast.Attribute) and a.attr == "error_handler"} | {n.id for n in ast.walk(t) if isinstance(n, ast.Name)}
            # allowed: tests on the appended handler itself (existence / not already present)
            mentions_own = any(x == f"{blk}.error_handler" for x in names)
            if "succ" in o and mentions_own and not ("own" in o and arg_txt.endswith("error_handler") and not isinstance(c.args[0], ast.Name)):
                foreign.append(f"`{norm(t)}` is {polarity}")
            elif "succ" in o and "own" not in o and mentions_own:
                foreign.append(f"`{norm(t)}` is {polarity}")
        key = f"get_cfg: edge to the handler of {' / '.join(sorted(o)).replace('own', 'the block itself').replace('succ', 'each normal successor')} is unconditional (given the handler exists)"
        if foreign:
            r11.violation(key, f.loc(c), f"the edge is added only when {'; '.join(foreign)}: a block that has a handler of its own gets no edge to the (different) handler of a successor, so in nested try statements the inner handler inherits the definedness state of the end of the inner try body")
        else:
            r11.ok(key, f.loc(c))
            own_ok = own_ok or "own" in o
            succ_ok = succ_ok or "succ" in o
    for what, ok in (("its own handler", own_ok), ("the handler of each normal successor", succ_ok)):
        key = f"get_cfg: every block has an edge to {what}"
        if ok:
            r11.ok(key, f.loc(outer[0]))
        else:
            r11.violation(key, f.loc(outer[0]), f"no unconditional edge to {what} is added")


def run_ctor_init_failure(chk: Check, ix) -> None:
    """R06.12: the generated constructor recognises a failed __init__ in both calling conventions."""
    r12 = chk.rule("R06.12", "generate_constructor_for_class calls __init__ either natively (result `char`, 2 on error: bool_rprimitive's error value) or through the Python-level wrapper (PyObject *, NULL on error) and stores the outcome in one C variable `res`; the failure value the wrapper case maps NULL to, and the value `res` is compared with before the half-built object is released and NULL returned, are both that error value; a mismatch returns the object with the exception still set (SystemError) ", floor=2)
    f = ix.func("mypyc.codegen.emitclass.generate_constructor_for_class")
    strs = [(n, n.value) for n in ast.walk(f.node) if isinstance(n, ast.Constant) and isinstance(n.value, str)]
    maps = [(n, m.group(1)) for n, s_ in strs for m in [re.search(r"!= NULL \? 0 : (-?\d+)", s_)] if m]
    tests = [(n, m.group(1)) for n, s_ in strs for m in [re.search(r"\bres == (-?\d+)", s_)] if m]
    rt = ix.module("mypyc.ir.rtypes")
    bool_def = rt.assigns.get("bool_rprimitive")
    # error value of a C `char` result of a native bool-returning function: RPrimitive.__init__'s c_undefined for "char"
    rp = ix.cls("mypyc.ir.rtypes.RPrimitive")
    init = rp.methods["__init__"]
    errv = None
    for n in ast.walk(init.node):
        if isinstance(n, ast.If) and "char" in norm(n.test):
            for a in n.body:
                if isinstance(a, ast.Assign) and norm(a.targets[0]) == "self.c_undefined" and isinstance(a.value, ast.Constant):
                    errv = str(a.value.value)
    if not maps or not tests or errv is None or bool_def is None:
        raise AnalysisError(f"generate_constructor_for_class: mapping {maps}, tests {tests}, char error value {errv}")
    for n, k in tests:
        key = f"the constructor tests `res == {k}`: the error value of a native char result"
        if k == errv:
            r12.ok(key, f.loc(n))
        else:
            r12.violation(key, f.loc(n), f"a natively called __init__ reports failure as {errv}, the constructor looks for {k}")
    for n, k in maps:
        key = f"the wrapper case maps NULL to the value the constructor tests"
        if all(k == t for _, t in tests):
            r12.ok(key, f.loc(n))
        else:
            r12.violation(key, f.loc(n), f"a failing __init__ called through its wrapper gives res = {k}, but the constructor only recognises res == {tests[0][1]}: the object is returned although an exception is set (SystemError; the attributes __init__ should have set are missing)")


def run_bitmap_del(chk: Check, ix) -> None:
    """R06.13: the definedness bitmap follows `del`."""
    from ..cfg import branch_conditions
    r13 = chk.rule("R06.13", "update_register_assignments_to_set_bitmap (locals of types without a spare error value: native ints, float) sets the variable's bit for an assignment only if the assigned value is not the undefining error value (`LoadErrorValue(undefines=True)`, how `del x` and the initial state are written), and clears it in that case: the must-defined analysis treats such an assignment as undefining, so the run-time check that follows must see the bit cleared, or a read after `del` yields the raw error value", floor=2)
    f = ix.func("mypyc.transform.uninit.update_register_assignments_to_set_bitmap")
    par = f.module.parents()
    ors = [c for c in ast.walk(f.node) if isinstance(c, ast.Call) and call_name(c) == "IntOp" and any(norm(a) == "IntOp.OR" for a in c.args)]
    ands = [c for c in ast.walk(f.node) if isinstance(c, ast.Call) and call_name(c) == "IntOp" and any(norm(a) == "IntOp.AND" for a in c.args)]
    if not ors:
        raise AnalysisError("update_register_assignments_to_set_bitmap: no IntOp(..., IntOp.OR, ...) found")

    def undef_test(ts) -> bool:
        return any("undefines" in norm(t) for t in ts)
    for c in ors:
        st = c
        while not isinstance(st, ast.stmt):
            st = par[st]
        pos, neg = branch_conditions(par, f.node, st, early_exits=True)
        key = "the bit is set only for assignments of a real value"
        if undef_test(neg):
            r13.ok(key, f.loc(c))
        else:
            r13.violation(key, f.loc(c), "the bit is OR-ed in for every assignment to a bitmap-backed register, including the assignment of the undefining error value that implements `del x`: a later read passes the definedness check and returns -113 / -113.0")
    key = "the bit is cleared when the undefining error value is assigned"
    ok = False
    for c in ands:
        st = c
        while not isinstance(st, ast.stmt):
            st = par[st]
        pos, neg = branch_conditions(par, f.node, st, early_exits=True)
        ok = ok or undef_test(pos)
    if ok:
        r13.ok(key, f.loc(ands[0]))
    else:
        r13.violation(key, f.loc(), "no IntOp.AND under a test of `undefines`: after `del x` the bit of x stays set")


def run_self_receiver(chk: Check, ix) -> None:
    """R06.14: attributes are credited to `self` only by ops whose receiver is `self`."""
    from ..cfg import branch_conditions
    r14 = chk.rule("R06.14", "the always-defined attribute analysis of __init__ (analysis/attrdefined.py) generates or kills attribute facts for an op only under a test that the op's receiver is the `self` register (`op.obj is self.self_reg`, `op.args[0] is self.self_reg`), in every arm of both visitors; and the self-leak analysis declares a call clean only after looking for `self` among its other arguments: an attribute credited to the wrong object is read without a definedness check (NULL dereference)", floor=5)
    mod = ix.module("mypyc.analysis.attrdefined")
    n = 0
    for cname in ("AttributeMaybeDefinedVisitor", "AttributeMaybeUndefinedVisitor"):
        c = mod.classes.get(cname)
        if c is None or "visit_register_op" not in c.methods:
            raise AnalysisError(f"attrdefined.{cname}.visit_register_op not found")
        f = c.methods["visit_register_op"]
        par = f.module.parents()
        for rt in ast.walk(f.node):
            if not (isinstance(rt, ast.Return) and isinstance(rt.value, ast.Tuple)):
                continue
            nonempty = [e for e in rt.value.elts if not (isinstance(e, ast.Call) and call_name(e) == "set" and not e.args)]
            if not nonempty:
                continue
            n += 1
            pos, neg = branch_conditions(par, f.node, rt, early_exits=True)
            key = f"{cname}.visit_register_op: `return {norm(rt.value)[:60]}` is under a test that the receiver is self"
            if any("self_reg" in norm(t) and " is " in norm(t) for t in pos):
                r14.ok(key, f.loc(rt))
            else:
                r14.violation(key, f.loc(rt), f"the facts are produced when {[norm(t)[:60] for t in pos]}: nothing ties the op to the object being initialised, so `Base.__init__(other)` marks self's attributes as set")
    sl = ix.func("mypyc.analysis.selfleaks.SelfLeakedVisitor.visit_call")
    par = sl.module.parents()
    for rt in ast.walk(sl.node):
        if isinstance(rt, ast.Return) and norm(rt.value) == "CLEAN":
            n += 1
            pos, neg = branch_conditions(par, sl.node, rt, early_exits=True)
            key = "SelfLeakedVisitor.visit_call: an __init__ call is clean only if self is not among its other arguments"
            if any("self_reg" in norm(t) for t in pos):
                r14.ok(key, sl.loc(rt))
            else:
                r14.violation(key, sl.loc(rt), "the call is declared clean on the strength of the callee's own leak flag alone: `O.__init__(o, self)` hands the half-initialised self to code that reads its attributes")
    if n < 5:
        raise AnalysisError(f"only {n} fact-producing returns found")


def run_cast_failure(chk: Check, ix) -> None:
    """R06.15: an op that steals its operand and can fail releases the operand on the failing path."""
    r15 = chk.rule("R06.15", "Cast is the one IR op that both steals its operand (stolen() == [src] unless borrowed: the refcount pass emits no release for src) and can fail (error_kind ERR_MAGIC unless unchecked); on the failing path the result is NULL, so ownership of src has gone nowhere: either Cast does not steal, or the code emitted for the failing path (FunctionEmitterVisitor.visit_cast / Emitter.emit_cast_error_handler) releases src", floor=1)
    ops = ix.module("mypyc.ir.ops")
    cast = ops.classes.get("Cast")
    if cast is None or "stolen" not in cast.methods:
        raise AnalysisError("ops.Cast.stolen not found")
    steals = any(isinstance(r, ast.Return) and isinstance(r.value, ast.List) and r.value.elts for r in ast.walk(cast.methods["stolen"].node))
    can_fail = any(isinstance(a, ast.Assign) and norm(a.targets[0]).endswith("error_kind") and norm(a.value) != "ERR_NEVER" for a in ast.walk(cast.node))
    key = "Cast: the stolen operand is released when the cast fails"
    if not steals or not can_fail:
        r15.ok(key, cast.methods["stolen"].loc(), "Cast no longer both steals and fails")
        return
    vc = ix.func("mypyc.codegen.emitfunc.FunctionEmitterVisitor.visit_cast")
    eh = ix.func("mypyc.codegen.emit.Emitter.emit_cast_error_handler")
    releases = False
    for f in (vc, eh):
        for c in ast.walk(f.node):
            if isinstance(c, ast.Call) and call_name(c) in ("emit_dec_ref", "emit_xdec_ref"):
                releases = True
            if isinstance(c, ast.Constant) and isinstance(c.value, str) and re.search(r"\b(Py_X?DECREF|CPy_X?DECREF|CPy_DecRef)\b", c.value):
                releases = True
    if releases:
        r15.ok(key, vc.loc(), "the failing path of visit_cast / emit_cast_error_handler emits a release")
    else:
        r15.violation(key, vc.loc(), "Cast.stolen() hands src to the op, and neither visit_cast nor emit_cast_error_handler emits a dec-ref on the failing path: every cast that fails at run time leaks its operand")


def run_init_facts_respect_leaks(chk: Check, ix) -> None:
    """R06.16: conclusions drawn from the intra-procedural attribute facts stop where `self` has escaped."""
    from ..cfg import branch_conditions
    r16 = chk.rule("R06.16", "analysis/attrdefined.py: the attribute facts of __init__ (`maybe_defined`, `maybe_undefined`) are intra-procedural; once `self` has been handed to other code (the self-leak analysis `dirty`) that code may have assigned or read any attribute. Every function that draws a conclusion from the facts also takes the `dirty` result and reads it, and `SetAttr.mark_as_initializer()` (the store then overwrites the old value without releasing it) is reached only under a negated `dirty` test", floor=4)
    mod = ix.module("mypyc.analysis.attrdefined")

    def result_params(f, inner: str):
        out = []
        a = f.node.args
        for p in a.posonlyargs + a.args + a.kwonlyargs:
            if p.annotation is not None and norm(p.annotation) == f"AnalysisResult[{inner}]":
                out.append(p.arg)
        return out

    def reads(f, name: str) -> bool:
        return any(isinstance(s, ast.Subscript) and isinstance(s.value, ast.Attribute) and s.value.attr in ("before", "after") and isinstance(s.value.value, ast.Name) and s.value.value.id == name for s in ast.walk(f.node))

    consumers = [f for f in mod.functions.values() if result_params(f, "str") and any(reads(f, p) for p in result_params(f, "str"))]
    if len(consumers) < 3:
        raise AnalysisError(f"attrdefined: {len(consumers)} consumers of AnalysisResult[str] facts found (expected find_always_defined_attributes, find_sometimes_defined_attributes, mark_attr_initialization_ops)")
    for f in consumers:
        key = f"{f.name}: the attribute facts are read together with the self-leak result"
        dirty = result_params(f, "None")
        if dirty and any(reads(f, d) for d in dirty):
            r16.ok(key, f.loc())
        else:
            r16.violation(key, f.loc(), f"{f.name} reads {result_params(f, 'str')} but no self-leak result (an `AnalysisResult[None]` parameter read through .before/.after): its conclusion also covers program points after `self` escaped, where another function may have set the attribute already")
    n = 0
    for f in mod.functions.values():
        par = f.module.parents()
        for c in ast.walk(f.node):
            if isinstance(c, ast.Call) and call_name(c) == "mark_as_initializer":
                n += 1
                st = c
                while not isinstance(st, ast.stmt):
                    st = par[st]
                pos, neg = branch_conditions(par, f.node, st)
                dirty = result_params(f, "None")
                atoms = []
                for t in pos:
                    atoms += t.values if isinstance(t, ast.BoolOp) and isinstance(t.op, ast.And) else [t]
                guarded = any(isinstance(t, ast.UnaryOp) and isinstance(t.op, ast.Not) and any(isinstance(x, ast.Name) and x.id in dirty for x in ast.walk(t.operand)) for t in atoms)
                key = f"{f.name}: mark_as_initializer() only where self has not escaped"
                if guarded:
                    r16.ok(key, f.loc(c))
                else:
                    r16.violation(key, f.loc(c), f"the store is marked as an initializer under {[norm(t)[:70] for t in pos]} — no `not dirty...` test: after `self.reset()` / `f(self)` / an overridable hook the attribute may already hold a value, and the initializer store (`self->attr = v`, no release of the old value) leaks it")
    if n < 1:
        raise AnalysisError("attrdefined: no mark_as_initializer() site found")


def run_self_leak_stores(chk: Check, ix) -> None:
    """R06.17: an op that keeps one of its operands is judged by whether that operand is `self`."""
    from ..cfg import branch_conditions
    r17 = chk.rule("R06.17", "analysis/selfleaks.py: an IR op whose `stolen()` can be non-empty, or that is an assignment (BaseAssign: the destination register or register array becomes an alias), keeps an operand beyond the op (stores it in an attribute, a register array, memory, a tuple, or hands it to C code). If that operand is `self`, other code can reach the half-initialised object, so SelfLeakedVisitor's method for the op never returns CLEAN without a test that mentions `self_reg` (directly, by an earlier exit, or through check_register_op); attributes assigned after such a point are not `always defined` and their reads keep the NULL check", floor=12)
    ops = ix.module("mypyc.ir.ops")
    sl = ix.module("mypyc.analysis.selfleaks").classes.get("SelfLeakedVisitor")
    if sl is None:
        raise AnalysisError("selfleaks.SelfLeakedVisitor not found")
    stealing = {}
    for cname, c in ops.classes.items():
        if cname == "Op" or "stolen" not in c.methods or "accept" not in c.methods:
            continue
        rets = [r for r in ast.walk(c.methods["stolen"].node) if isinstance(r, ast.Return) and r.value is not None]
        is_assign = any(norm(b) == "BaseAssign" for b in c.node.bases)  # dest becomes an alias of the operand
        if all(isinstance(r.value, ast.List) and not r.value.elts for r in rets) and not is_assign:
            continue
        vis = [call_name(x) for x in ast.walk(c.methods["accept"].node) if isinstance(x, ast.Call) and (call_name(x) or "").startswith("visit_")]
        if len(vis) == 1:
            stealing[cname] = vis[0]
    if len(stealing) < 10:
        raise AnalysisError(f"only {len(stealing)} op classes with a non-empty stolen() found in ir/ops.py")
    for cname, vname in sorted(stealing.items()):
        key = f"SelfLeakedVisitor.{vname}: {cname} keeps an operand, so CLEAN is returned only after looking for self"
        f = sl.methods.get(vname)
        if f is None:
            r17.violation(key, f"mypyc/analysis/selfleaks.py:{sl.node.lineno}", f"no {vname} method")
            continue
        par = f.module.parents()
        bad = None
        for rt in ast.walk(f.node):
            if isinstance(rt, ast.Return) and rt.value is not None and norm(rt.value) == "CLEAN":
                pos, neg = branch_conditions(par, f.node, rt, early_exits=True)
                if not any("self_reg" in norm(t) for t in list(pos) + list(neg)):
                    bad = rt
        if bad is None:
            r17.ok(key, f.loc())
        else:
            r17.violation(key, f.loc(bad), f"`return CLEAN` is reached without any test on self_reg: when the operand {cname} keeps is `self` (e.g. `other.attr = self`, or `callback(self)` whose vectorcall argument array is filled by AssignMulti), the following code can read attributes __init__ has not assigned yet; they were inferred always-defined, so the read has no NULL check (segfault where CPython raises AttributeError)")


def run_slot_store_order(chk: Check, ix) -> None:
    """R06.18: replacing a container slot releases the old element after the new one is in place."""
    from ..cfront import lib_rt_functions
    r18 = chk.rule("R06.18", "lib-rt (clang AST): a function that stores into a slot of a container it was handed (PyList_SET_ITEM / PyTuple_SET_ITEM on a parameter) does not first release the slot's content in place (`Py_DECREF(list->ob_item[i])` before the store): releasing can run a finalizer that sees, and may free, the list while the slot still points to the dying object (double release, store through a stale ob_item). CPython's list_ass_item stores first and releases the saved old value afterwards", floor=3)
    funcs, _ = lib_rt_functions(ix.root)
    for name, e in sorted(funcs.items()):
        evs = e.get("slot_events")
        if not evs or not name.startswith("CPy"):
            continue
        params = set(e.get("param_names") or [])
        stores = [x for x in evs if x["ev"] == "store" and x.get("container") in params]
        if not stores:
            continue
        first_store = min(x["line"] or 0 for x in stores)
        early = [x for x in evs if x["ev"] == "release_in_place" and (x["line"] or 0) < first_store]
        key = f"{name}: the old element is released only after the store"
        if not early:
            r18.ok(key, f"mypyc/lib-rt:{name}:{first_store}")
        else:
            r18.violation(key, f"mypyc/lib-rt:{name}:{early[0]['line']}", f"line {early[0]['line']} releases the slot's content in place, line {first_store} stores the new element afterwards: `lst[i] = v` where the old item's __del__ clears or resizes the list frees the item twice / writes through a freed buffer (segfault; interpreted code prints the cleared list)")


def run_glue_unbox_borrows(chk: Check, ix) -> None:
    """R06.19: glue code that unboxes a Python object to call a native function borrows."""
    r19 = chk.rule("R06.19", "codegen glue (emitwrapper.py argument parsing, emitclass.py attribute and property setters) unboxes an incoming PyObject* with Emitter.emit_unbox(..., borrow=True): the native function called next borrows its arguments and the glue never releases the unboxed value, so an owning unbox (a new reference for a big int, for tuple items) leaks one reference per call. Only FunctionEmitterVisitor.visit_unbox (the IR's own Unbox op, whose result the refcount pass owns) and emit_unbox's own recursion may unbox into an owned value", floor=4)
    n = 0
    for modname in ("mypyc.codegen.emitwrapper", "mypyc.codegen.emitclass"):
        m = ix.module(modname)
        for f in list(m.functions.values()) + [mm for c in m.classes.values() for mm in c.methods.values()]:
            for c in ast.walk(f.node):
                if isinstance(c, ast.Call) and call_name(c) == "emit_unbox":
                    n += 1
                    kw = {k.arg: k.value for k in c.keywords}
                    key = f"{m.relpath}:{f.name}: emit_unbox(`{norm(c.args[0]) if c.args else '?'}` -> `{norm(c.args[1]) if len(c.args) > 1 else '?'}`) borrows"
                    b = kw.get("borrow")
                    if isinstance(b, ast.Constant) and b.value is True:
                        r19.ok(key, f.loc(c))
                    else:
                        r19.violation(key, f.loc(c), "emit_unbox without borrow=True in glue code: the unboxed value is a new reference that nothing releases (e.g. `obj.prop = 2**100` through a property setter leaks the int; a tuple[object, int] leaks its item)")
    if n < 4:
        raise AnalysisError(f"only {n} emit_unbox sites found in emitwrapper.py / emitclass.py")


def run_preallocated_fill_bound(chk: Check, ix) -> None:
    """R06.20: a result preallocated from a length is filled by a loop that makes exactly that many stores."""
    r20 = chk.rule("R06.20", "for_helpers.sequence_from_generator_preallocate_helper allocates the result with the source's length and fills it with the unchecked set-item primitives (CPyList_SetItemUnsafe / CPySequenceTuple_SetItemUnsafe), one store per iteration of for_loop_helper_with_index. The number of iterations therefore has to be the preallocated length: either only sources whose length cannot change are admitted (is_immutable_rprimitive / RTuple), or the loop keeps the given `length` as its bound (ForSequence.init must not discard it for mutable sequences)", floor=1)
    fh = ix.module("mypyc.irbuild.for_helpers")
    h = fh.functions.get("sequence_from_generator_preallocate_helper")
    fs = fh.classes.get("ForSequence")
    if h is None or fs is None or "init" not in fs.methods:
        raise AnalysisError("for_helpers: preallocate helper / ForSequence.init not found")
    admits_mutable = not any(isinstance(c, ast.Call) and call_name(c) == "is_immutable_rprimitive" for c in ast.walk(h.node))
    init = fs.methods["init"]
    discards = False
    for i in ast.walk(init.node):
        if isinstance(i, ast.If) and "is_immutable_rprimitive" in norm(i.test):
            for a in ast.walk(ast.Module(body=i.orelse, type_ignores=[])):
                if isinstance(a, ast.Assign) and norm(a.targets[0]) == "self.length_reg" and isinstance(a.value, ast.Constant) and a.value.value is None:
                    discards = True
    key = "preallocated list/tuple results are filled by a loop bounded by the preallocated length"
    if admits_mutable and discards:
        r20.violation(key, h.loc(), "the helper admits every sequence type (lists included) and ForSequence.init drops the given length for mutable sequences (`self.length_reg = None`: the live length is re-read on every iteration): when the body of the comprehension grows the list, stores go past the preallocated result (CPyList_SetItemUnsafe does not check); when it shrinks the list, trailing slots stay NULL")
    else:
        r20.ok(key, h.loc())


def run_refcount_edge_sets(chk: Check, ix) -> None:
    """R06.21: on a CFG edge, what is released is judged by the source's borrowed set, what is acquired by both."""
    r21 = chk.rule("R06.21", "transform/refcount.py computes the references to release on a branch edge as source_live - target_live - source_borrowed and those to acquire as (source_borrowed - target_borrowed) & target_live; borrowed-ness is a must-analysis, so the target's set can be smaller than the source's at a join and must not stand in for it. Every call between the module's functions passes, for a parameter named source_* / target_*, an argument of the same side (a local or parameter with the same prefix, or `pre_X[target, 0]` / `pre_X[source...]` style look-ups naming that side)", floor=4)
    m = ix.module("mypyc.transform.refcount")
    n = 0
    sides = ("source", "target")

    def side_of(e: ast.expr) -> str | None:
        t = norm(e)
        for s_ in sides:
            if t.startswith(s_ + "_") or f"[{s_}" in t or t == s_:
                return s_
        return None
    for f in m.functions.values():
        for c in ast.walk(f.node):
            if not (isinstance(c, ast.Call) and isinstance(c.func, ast.Name) and c.func.id in m.functions and c.func.id != f.name):
                continue
            callee = m.functions[c.func.id]
            params = [a.arg for a in callee.node.args.posonlyargs + callee.node.args.args]
            pairs = list(zip(params, c.args)) + [(k.arg, k.value) for k in c.keywords if k.arg]
            for p, a in pairs:
                ps = next((s_ for s_ in sides if p.startswith(s_ + "_")), None)
                if ps is None:
                    continue
                n += 1
                key = f"{f.name} -> {callee.name}({p}=...): the argument belongs to the {ps} side"
                as_ = side_of(a)
                if as_ is None or as_ == ps:
                    r21.ok(key, f.loc(c))
                else:
                    r21.violation(key, f.loc(c), f"parameter `{p}` receives `{norm(a)}`, a value of the {as_} block: on an edge into a join block the {as_} set differs from the {ps} set (borrowed-ness is a must-analysis), so a parameter that still holds the caller's reference is released (or a needed acquire is skipped) on that edge only")
    if n < 4:
        raise AnalysisError(f"refcount.py: only {n} source_/target_ arguments found in calls between its functions")


def run_hooks_outside_init(chk: Check, ix) -> None:
    """R06.22: classes whose compiled hooks run on an object without a completed __init__ get no always-defined attributes."""
    import re
    r22 = chk.rule("R06.22", "codegen/emitclass.generate_class installs user-defined methods into tp_new and tp_finalize; CPython calls those on an object whose __init__ has not run (tp_new) or has raised half-way (tp_finalize runs on every deallocation). An attribute inferred 'always defined' is read without the undefined check, so analysis/attrdefined.analyze_always_defined_attrs_in_class has to give up (its early `return` test, helper predicates followed) for every dunder the generators of those two slots look up, and a test for an inherited-downwards hook (`__del__`: an instance of a subclass runs the subclass's finalizer over the base's attributes) also consults `subclasses()`", floor=2)
    ec = ix.module("mypyc.codegen.emitclass")
    ad = ix.module("mypyc.analysis.attrdefined")
    gc = ec.functions.get("generate_class")
    an = ad.functions.get("analyze_always_defined_attrs_in_class")
    if gc is None or an is None:
        raise AnalysisError("emitclass.generate_class / attrdefined.analyze_always_defined_attrs_in_class not found")
    dunder = re.compile(r"^__[a-z]+__$")

    def looked_up(node: ast.AST) -> set[str]:
        out = set()
        for c in ast.walk(node):
            if isinstance(c, ast.Call) and call_name(c) in ("get_method", "has_method") and c.args and isinstance(c.args[0], ast.Constant) and isinstance(c.args[0].value, str) and dunder.match(c.args[0].value):
                out.add(c.args[0].value)
            if isinstance(c, ast.Compare) and len(c.ops) == 1 and isinstance(c.ops[0], ast.Eq) and isinstance(c.left, ast.Attribute) and c.left.attr == "name":
                k = c.comparators[0]
                if isinstance(k, ast.Constant) and isinstance(k.value, str) and dunder.match(k.value):
                    out.add(k.value)
        return out

    def closure(mod, f, depth=3) -> list:
        seen, todo = [f], [(f, 0)]
        while todo:
            g, d = todo.pop()
            if d >= depth:
                continue
            for c in ast.walk(g.node):
                if isinstance(c, ast.Call) and isinstance(c.func, ast.Name) and c.func.id in mod.functions:
                    h = mod.functions[c.func.id]
                    if h not in seen:
                        seen.append(h)
                        todo.append((h, d + 1))
        return seen

    # the local names whose value lands in fields["tp_new"] / fields["tp_finalize"]
    slots: dict[str, set[str]] = {}
    for a in ast.walk(gc.node):
        if isinstance(a, ast.Assign) and isinstance(a.targets[0], ast.Subscript) and norm(a.targets[0].value) == "fields" and isinstance(a.targets[0].slice, ast.Constant) and a.targets[0].slice.value in ("tp_new", "tp_finalize"):
            slots.setdefault(a.targets[0].slice.value, set()).update(n.id for n in ast.walk(a.value) if isinstance(n, ast.Name))
    if set(slots) != {"tp_new", "tp_finalize"}:
        raise AnalysisError(f"generate_class: fields[...] stores found for {sorted(slots)} (expected tp_new and tp_finalize)")
    local_defs = {norm(a.targets[0]): a.value for a in ast.walk(gc.node) if isinstance(a, ast.Assign) and isinstance(a.targets[0], ast.Name)}
    hooks: dict[str, str] = {}
    for slot, names in sorted(slots.items()):
        for c in ast.walk(gc.node):
            if not (isinstance(c, ast.Call) and isinstance(c.func, ast.Name) and c.func.id in ec.functions):
                continue
            if not any(isinstance(x, ast.Name) and x.id in names for x in c.args):
                continue
            found = set()
            for g in closure(ec, ec.functions[c.func.id]):
                found |= looked_up(g.node)
            for x in c.args:
                if isinstance(x, ast.Name) and x.id in local_defs:
                    found |= looked_up(local_defs[x.id])
            for d in found - {"__init__"}:
                hooks.setdefault(d, slot)
    if not {"__new__", "__del__"} <= set(hooks):
        raise AnalysisError(f"emitclass: the tp_new / tp_finalize generators look up {sorted(hooks)} (expected at least __new__ and __del__)")

    # the give-up test: the first `if ...: return` of the analysis, helper predicates followed
    giveup = next((s for s in an.node.body if isinstance(s, ast.If) and len(s.body) == 1 and isinstance(s.body[0], ast.Return) and isinstance(s.test, ast.BoolOp)), None)
    if giveup is None:
        raise AnalysisError("analyze_always_defined_attrs_in_class: no give-up test (`if a or b or ...: return`) found")
    tested: dict[str, list] = {}
    for d in looked_up(giveup.test):
        tested.setdefault(d, []).append(giveup.test)
    for c in ast.walk(giveup.test):
        if isinstance(c, ast.Call) and isinstance(c.func, ast.Name) and c.func.id in ad.functions:
            for g in closure(ad, ad.functions[c.func.id], depth=2):
                for d in looked_up(g.node):
                    tested.setdefault(d, []).append(g.node)
    for d, slot in sorted(hooks.items()):
        key = f"a class with a compiled {d} ({slot}) gets no always-defined attributes"
        if d not in tested:
            r22.violation(key, an.loc(giveup), f"generate_class calls the user's {d} through {slot}, which CPython invokes on an object whose __init__ did not complete, but the give-up test of analyze_always_defined_attrs_in_class ({sorted(tested)}) does not mention it: `self.attr` in that method is compiled without the undefined check and dereferences NULL")
            continue
        r22.ok(key, an.loc(giveup))
        if slot == "tp_finalize":
            key2 = f"the {d} test also covers subclasses that define it"
            if any(isinstance(c, ast.Call) and call_name(c) == "subclasses" for n in tested[d] for c in ast.walk(n)):
                r22.ok(key2, an.loc(giveup))
            else:
                r22.violation(key2, an.loc(giveup), f"only the class itself is asked for {d}: an instance of a subclass that defines {d} runs it over the attributes this class declared always defined (the subclass inherits them through the MRO walk) when this class's __init__ raised")


def run_spill_owns_what_it_stores(chk: Check, ix) -> None:
    """R06.23: the spill pass gives the environment a reference of its own for every value it stores."""
    from ..cfg import branch_conditions
    r23 = chk.rule("R06.23", "transform/spill.py runs after reference counts have been inserted (R05.3) and stores values that are live across a yield with SetAttr, whose stolen() is [src]: the environment releases what it holds when the slot is overwritten, nulled or deallocated. Every SetAttr the pass constructs therefore stores either a value the pass created itself (a LoadErrorValue) or a value for which, when it `is_borrowed`, an IncRef is appended under that test before the store", floor=2)
    sp = ix.module("mypyc.transform.spill")
    ops = ix.module("mypyc.ir.ops")
    sa = ops.classes.get("SetAttr")
    if sa is None or "stolen" not in sa.methods or not any(isinstance(r, ast.Return) and isinstance(r.value, ast.List) and r.value.elts and norm(r.value.elts[0]) == "self.src" for r in ast.walk(sa.methods["stolen"].node)):
        raise AnalysisError("ops.SetAttr.stolen() no longer returns [self.src]: R06.23 needs re-reading")
    init = sa.methods["__init__"].node
    params = [a.arg for a in init.args.args][1:]
    if "src" not in params:
        raise AnalysisError("ops.SetAttr.__init__ has no `src` parameter")
    pos = params.index("src")
    n = 0
    for f in sp.functions.values():
        par = f.module.parents()
        fresh = {a.targets[0].id for a in ast.walk(f.node) if isinstance(a, ast.Assign) and len(a.targets) == 1 and isinstance(a.targets[0], ast.Name) and isinstance(a.value, ast.Call) and call_name(a.value) == "LoadErrorValue"}
        for c in ast.walk(f.node):
            if not (isinstance(c, ast.Call) and call_name(c) == "SetAttr"):
                continue
            src = next((k.value for k in c.keywords if k.arg == "src"), c.args[pos] if len(c.args) > pos else None)
            if src is None:
                raise AnalysisError(f"{f.name}: SetAttr(...) without a src argument at line {c.lineno}")
            n += 1
            key = f"{f.name}: SetAttr(..., {norm(src)}, ...) stores a value the environment may release"
            if isinstance(src, ast.Name) and src.id in fresh:
                r23.ok(key, f.loc(c))
                continue
            st = c
            while not isinstance(st, ast.stmt):
                st = par[st]
            # an IncRef(src) appended earlier in the same block, under a test of src.is_borrowed
            block = par[st]
            body = next((getattr(block, fld) for fld in ("body", "orelse", "finalbody") if st in getattr(block, fld, [])), [])
            ok = False
            for prev in body[: body.index(st)]:
                for i in ast.walk(prev):
                    if isinstance(i, ast.Call) and call_name(i) == "IncRef" and i.args and norm(i.args[0]) == norm(src):
                        ist = i
                        while not isinstance(ist, ast.stmt):
                            ist = par[ist]
                        conds, _ = branch_conditions(par, f.node, ist)
                        here, _ = branch_conditions(par, f.node, st)
                        extra = [t for t in conds if norm(t) not in {norm(h) for h in here}]
                        if extra and all(f"{norm(src)}.is_borrowed" in norm(t) or f"{norm(src)}.type.is_refcounted" in norm(t) for t in extra) and any(f"{norm(src)}.is_borrowed" in norm(t) for t in extra):
                            ok = True
            if ok:
                r23.ok(key, f.loc(c))
            else:
                r23.violation(key, f.loc(c), f"`{norm(c)[:80]}` stores `{norm(src)}` without giving the environment a reference when the value is borrowed (no `IncRef({norm(src)})` under `{norm(src)}.is_borrowed` before it in the block): a borrowed value live across an await (a bytes literal argument evaluated before `await`) is released by the environment once per run although nobody took a reference for it")
    if n < 2:
        raise AnalysisError(f"spill.py: {n} SetAttr constructions found (expected the nulling store and the spill store)")


EMITS_FALLIBLE = {"assign", "accept", "call_c", "primitive_op", "py_call", "gen_method_call", "coerce", "py_get_attr", "py_set_attr", "load_module_attr_by_fullname"}


def run_unborrow_before_failing_ops(chk: Check, ix) -> None:
    """R06.24: the components of a stolen aggregate are all made managed before code that can raise is emitted."""
    r24 = chk.rule("R06.24", "irbuild splits an owned tuple without reference-count traffic by borrowing its items, consuming the tuple (`keep_alive(..., steal=True)`) and turning each item into a managed value with Unborrow (ops.Unborrow's docstring: all unborrows directly after the steal). Until an item is unborrowed nobody owns it, so in a function that steals an aggregate no Unborrow is constructed inside a loop whose body also emits an op that can raise (builder.assign to an index/attribute target, accept, call_c, ...): an exception raised for item k leaves items k+1.. unreleased", floor=2)
    n = 0
    for mname in ("mypyc.irbuild.statement", "mypyc.irbuild.vec", "mypyc.irbuild.ll_builder", "mypyc.irbuild.builder", "mypyc.irbuild.expression", "mypyc.irbuild.for_helpers", "mypyc.irbuild.specialize"):
        m = ix.modules.get(mname)
        if m is None:
            continue
        for f in m.functions.values():
            steals = [c for c in ast.walk(f.node) if isinstance(c, ast.Call) and call_name(c) == "keep_alive" and any(k.arg == "steal" and isinstance(k.value, ast.Constant) and k.value.value is True for k in c.keywords)]
            unb = [c for c in ast.walk(f.node) if isinstance(c, ast.Call) and call_name(c) == "Unborrow"]
            if not steals or not unb:
                continue
            n += 1
            par = f.module.parents()
            key = f"{f.name}: every item of the stolen aggregate is unborrowed before an op that can raise is emitted"
            bad = None
            for u in unb:
                p = u
                while p is not f.node:
                    p = par[p]
                    if isinstance(p, (ast.For, ast.While)):
                        fallible = sorted({call_name(c) for st in p.body for c in ast.walk(st) if isinstance(c, ast.Call) and call_name(c) in EMITS_FALLIBLE})
                        if fallible:
                            bad = (u, p, fallible)
                        break
            if bad is None:
                r24.ok(key, f.loc(steals[0]))
            else:
                u, loop, fallible = bad
                r24.violation(key, f.loc(u), f"`{norm(u)}` is constructed in the loop at line {loop.lineno}, whose body also emits {fallible}: when the store for one target raises (`lst[5], lst[0] = pair()` with a short list) the items of the later targets are still borrowed values of a tuple that was already consumed, and are never released")
    if n < 2:
        raise AnalysisError(f"irbuild: {n} functions that steal an aggregate and unborrow its items found (expected transform_assignment_stmt and the nested-vec pop helper)")


MUTATORS = {"append", "extend", "insert", "pop", "remove", "sort", "reverse", "clear"}


def run_sources_lists_are_read_only(chk: Check, ix) -> None:
    """R06.25: the list an op hands out as its sources is not written to."""
    r25 = chk.rule("R06.25", "some Op.sources() implementations return the op's own operand list rather than a copy (today PrimitiveOp: `return self.args`), so storing into the returned list changes the op, and with it what `op.stolen()` answers afterwards (stolen() is computed from the operands). A pass that replaces operands therefore builds a new list and calls set_sources(); in mypyc/ outside ir/ops.py no function stores into, deletes from or calls a mutating method on a list obtained from `.sources()` (a function that asks `.stolen()` after such a store would release a reference the op has already taken over)", floor=6)
    ops = ix.module("mypyc.ir.ops")
    aliasing = []
    for c in ops.classes.values():
        m = c.methods.get("sources")
        if m is None:
            continue
        for r in ast.walk(m.node):
            if isinstance(r, ast.Return) and isinstance(r.value, ast.Attribute) and isinstance(r.value.value, ast.Name) and r.value.value.id == "self":
                aliasing.append(f"{c.name}.{r.value.attr}")
    n = 0
    for mn, m in sorted(ix.modules.items()):
        if not mn.startswith("mypyc.") or mn.startswith("mypyc.test") or mn == "mypyc.ir.ops":
            continue
        for f in list(m.functions.values()) + [mm for c in m.classes.values() for mm in c.methods.values()]:
            calls = [c for c in ast.walk(f.node) if isinstance(c, ast.Call) and isinstance(c.func, ast.Attribute) and c.func.attr == "sources" and not c.args]
            if not calls:
                continue
            n += 1
            key = f"{mn.removeprefix('mypyc.')}.{f.name}: lists obtained from .sources() are only read"
            bound = {a.targets[0].id for a in ast.walk(f.node) if isinstance(a, ast.Assign) and len(a.targets) == 1 and isinstance(a.targets[0], ast.Name) and a.value in calls}

            def is_src_list(e: ast.expr) -> bool:
                return (isinstance(e, ast.Name) and e.id in bound) or e in calls
            bad = None
            for x in ast.walk(f.node):
                if isinstance(x, (ast.Assign, ast.AugAssign, ast.Delete)):
                    tg = x.targets if isinstance(x, (ast.Assign, ast.Delete)) else [x.target]
                    for t in tg:
                        if isinstance(t, ast.Subscript) and is_src_list(t.value):
                            bad = x
                        if isinstance(x, ast.AugAssign) and is_src_list(t):
                            bad = x
                if isinstance(x, ast.Call) and isinstance(x.func, ast.Attribute) and x.func.attr in MUTATORS and is_src_list(x.func.value):
                    bad = x
            if bad is None or not aliasing:
                r25.ok(key, f.loc(calls[0]))
            else:
                r25.violation(key, f.loc(bad), f"`{norm(bad)[:70]}` writes to a list obtained from .sources(); {', '.join(aliasing)} is handed out uncopied, so for that op class the operands change under the op before set_sources()/stolen() are consulted (spill: a reloaded operand that the op steals gets an extra DecRef; the object is freed while the list built by buf_init_item still holds it)")
    chk.extra["sources_returned_uncopied"] = aliasing
    if n < 6:
        raise AnalysisError(f"only {n} functions calling .sources() found in mypyc/ outside ir/ops.py")
