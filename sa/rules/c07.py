"""C07 — parallel checking gives the sequential result (partial).

R07.1  commit before reply: in the worker, every result reply is preceded, on every path from the
       phase's processing calls, by manager.commit().
R07.2  readiness gating in the coordinator: an SCC becomes ready only when its not_ready_count
       reached zero after a decrement (or it has no deps); worker results mark an SCC done only for
       interface replies; a worker is freed only by the implementation reply.
R07.3  sibling step agreement: the analysis / cache steps applied to a stale SCC by the sequential
       path equal the union of the interface and implementation phases (differences tabled).
R07.4  the coordinator commits its cache writes before the first broadcast when workers exist.
"""

from __future__ import annotations

import ast
import os
import re

from ..cfg import CFG, call_name
from ..index import AnalysisError, get_index, norm
from ..report import Check
from .c12 import guard_chain

STEP_OWNERS = ("mypy.build.State", "mypy.build.BuildManager", "mypy.errors.Errors")
STEP_MODULES = ("mypy.build", "mypy.semanal_main")
NOISE = {"add_stats", "time", "log", "trace", "type_checker", "append", "extend", "add", "discard", "get", "items", "clear", "update", "hex", "local_definitions", "stats_enabled"}


def steps_of(ix, f) -> dict[str, int]:
    """name -> first line, for calls that are analysis/cache steps (methods of State/BuildManager/Errors,
    functions of mypy.build / mypy.semanal_main)."""
    out: dict[str, int] = {}
    method_names = set()
    for o in STEP_OWNERS:
        method_names |= set(ix.cls(o).methods)
    func_names = set()
    for m in STEP_MODULES:
        func_names |= set(ix.module(m).functions)
    for n in ast.walk(f.node):
        if isinstance(n, ast.Call):
            nm = call_name(n)
            if nm in NOISE:
                continue
            if (isinstance(n.func, ast.Attribute) and (nm in method_names or nm in func_names)) or (isinstance(n.func, ast.Name) and nm in func_names):
                out.setdefault(nm, n.lineno)
    return out


def run(chk: Check) -> None:
    run_import_errors(chk, get_index())
    run_def_or_infer(chk, get_index())
    run_phase_handover(chk, get_index())
    run_dedupe_state(chk, get_index())
    run_reload_meta(chk, get_index())
    run_worker_options_order(chk, get_index())
    run_worker_state_returned(chk, get_index())
    run_worker_state_complete(chk, get_index())
    run_line_spans_inclusive(chk, get_index(), "R07.13")
    ix = get_index()

    # ---------------- R07.1
    r1 = chk.rule("R07.1", "worker: manager.commit() lies on every path from a phase's processing call to the construction of that phase's result reply", floor=2)
    sv = ix.func("mypy.build_worker.worker.serve")
    g = CFG(sv.node)
    commits = [n for n in g.nodes if any(norm(c.func) == "manager.commit" for c in n.calls())]
    if not commits:
        raise AnalysisError("worker.serve contains no manager.commit()")

    def replies(is_iface: bool):
        out = []
        for n in g.nodes:
            for c in n.calls():
                if call_name(c) == "SccResponseMessage":
                    kws = {k.arg: k.value for k in c.keywords}
                    if "result" in kws and isinstance(kws.get("is_interface"), ast.Constant) and kws["is_interface"].value is is_iface:
                        out.append(n)
        return out

    for phase, callee, iface in (("interface", "process_stale_scc_interface", True), ("implementation", "process_stale_scc_implementation", False)):
        procs = [n for n in g.nodes if any(call_name(c) == callee for c in n.calls())]
        reps = replies(iface)
        if not procs or not reps:
            raise AnalysisError(f"worker.serve: {phase} phase call or reply not found")
        for p in procs:
            key = f"worker.serve: commit between {callee} and the {phase} result reply"
            if g.must_pass(p, reps, commits, labels_excluded=("exc",)):
                r1.ok(key, sv.loc(p.stmt))
            else:
                path = g.witness(p, reps, avoiding=commits, labels_excluded=("exc",))
                r1.violation(key, sv.loc(p.stmt), "the coordinator can be told a phase is done before the worker's cache writes are committed: a dependant SCC scheduled on another worker may load stale or missing records", witness=g.fmt_path(path or [], sv.module.relpath))
        # the reply is really sent after construction
        for rp in reps:
            sends = [n for n in g.nodes if any(call_name(c) in ("timed_send", "send") for c in n.calls())]
            if g.must_pass(rp, [g.exit], sends, labels_excluded=("exc",)) or any(s in g.reachable([rp], labels_excluded=("exc",)) for s in sends):
                r1.ok(f"worker.serve: {phase} reply is sent", sv.loc(rp.stmt))
            else:
                r1.violation(f"worker.serve: {phase} reply is sent", sv.loc(rp.stmt), "constructed reply never reaches send()")

    # ---------------- R07.2
    r2 = chk.rule("R07.2", "coordinator: ready only after not_ready_count hit zero (or no deps); done from workers only for interface replies; worker freed only by the implementation reply; blockers re-raised", floor=6)
    pg = ix.func("mypy.build.process_graph")
    for n in ast.walk(pg.node):
        if isinstance(n, ast.Call) and norm(n.func) == "ready.append":
            conj, _ = guard_chain(pg, n)
            texts = [norm(c) for c in conj]
            arg = norm(n.args[0])
            key = f"process_graph: ready.append({arg}) under [{' ; '.join(texts)}]"
            if f"not {arg}.deps" in texts:
                r2.ok(key, pg.loc(n), "priming with leaf SCCs")
            elif f"not {arg}.not_ready_count" in texts:
                # a decrement of the same counter precedes in the same block
                par = pg.module.parents()
                blk = par.get(par.get(par.get(n)))  # Call -> Expr -> If -> enclosing body owner
                dec = [x for x in ast.walk(pg.node) if isinstance(x, ast.AugAssign) and isinstance(x.op, ast.Sub) and norm(x.target) == f"{arg}.not_ready_count" and norm(x.value) == "1"]
                if dec and all(d.lineno < n.lineno for d in dec):
                    r2.ok(key, pg.loc(n), "after `not_ready_count -= 1`")
                else:
                    r2.violation(key, pg.loc(n), "readiness test without the matching decrement of not_ready_count")
            else:
                r2.violation(key, pg.loc(n), "an SCC is submitted although some dependency SCC may not have reported interface-done")
    # the decrement runs once per (done scc, dependent) pair
    decs = [x for x in ast.walk(pg.node) if isinstance(x, ast.AugAssign) and "not_ready_count" in norm(x.target)]
    if len(decs) == 1:
        par = pg.module.parents()
        loops = []
        p = par.get(decs[0])
        while p is not None and p is not pg.node:
            if isinstance(p, ast.For):
                loops.append(norm(p.iter))
            p = par.get(p)
        if loops == ["done_scc.direct_dependents", "done"]:
            r2.ok("process_graph: one decrement per (done SCC, direct dependent)", pg.loc(decs[0]))
        else:
            r2.violation("process_graph: one decrement per (done SCC, direct dependent)", pg.loc(decs[0]), f"decrement loops over {loops}")
    else:
        r2.violation("process_graph: one decrement per (done SCC, direct dependent)", pg.loc(), f"{len(decs)} decrements of not_ready_count")
    # `done` sources
    srcs = [norm(x.value) for x in ast.walk(pg.node) if isinstance(x, ast.Assign) and any(norm(t) == "done" for t in x.targets)]
    srcs += [norm(x.value) for x in ast.walk(pg.node) if isinstance(x, ast.Assign) and isinstance(x.targets[0], ast.Tuple) and any(norm(e) == "done" for e in x.targets[0].elts)]
    if sorted(srcs) == ["fresh", "manager.wait_for_done(graph)"]:
        r2.ok("process_graph: done = fresh | wait_for_done(graph)", pg.loc())
    else:
        r2.violation("process_graph: done = fresh | wait_for_done(graph)", pg.loc(), f"done assigned from {srcs}")
    ww = ix.func("mypy.build.BuildManager.wait_for_done_workers")
    for n in ast.walk(ww.node):
        if isinstance(n, ast.Call) and norm(n.func) == "done_sccs.extend":
            texts = [norm(c) for c in guard_chain(ww, n)[0]]
            if "data.is_interface" in texts:
                r2.ok("wait_for_done_workers: done only for interface replies", ww.loc(n))
            else:
                r2.violation("wait_for_done_workers: done only for interface replies", ww.loc(n), f"SCC marked done under {texts}")
        if isinstance(n, ast.Call) and norm(n.func) == "self.free_workers.add":
            texts = [norm(c) for c in guard_chain(ww, n)[0]]
            if "not data.is_interface" in texts:
                r2.ok("wait_for_done_workers: worker freed only by the implementation reply", ww.loc(n))
            else:
                r2.violation("wait_for_done_workers: worker freed only by the implementation reply", ww.loc(n), f"worker marked free under {texts}: it could be handed a new batch while still checking implementations")
    raises = [n for n in ast.walk(ww.node) if isinstance(n, ast.Raise) and n.exc is not None and norm(n.exc) == "data.blocker"]
    if raises and all("data.blocker is not None" in [norm(c) for c in guard_chain(ww, r)[0]] for r in raises):
        gw = CFG(ww.node)
        rn = [n for n in gw.nodes if n.stmt is raises[0]]
        upd = [n for n in gw.nodes if any(norm(c.func) == "results.update" for c in n.calls())]
        # the blocker test precedes merging the results of that reply
        tests = [n for n in gw.nodes if n.kind == "test" and norm(n.exprs[0]) == "data.blocker is not None"]
        if tests and upd and all(gw.must_pass(gw.entry, [u], tests, labels_excluded=("exc",)) for u in upd):
            r2.ok("wait_for_done_workers: a worker's blocker is re-raised before its results are used", ww.loc(raises[0]))
        else:
            r2.violation("wait_for_done_workers: a worker's blocker is re-raised before its results are used", ww.loc(raises[0]), "results of a reply are merged before its blocker is examined")
    else:
        r2.violation("wait_for_done_workers: a worker's blocker is re-raised before its results are used", ww.loc(), "a blocking error reported by a worker is not propagated")
    wd = ix.func("mypy.build.BuildManager.wait_for_done")
    gd = CFG(wd.node)
    proc = [n for n in gd.nodes if any(call_name(c) == "process_stale_scc" for c in n.calls())]
    rets = [n for n in gd.nodes if n.kind == "stmt" and isinstance(n.stmt, ast.Return) and isinstance(n.stmt.value, ast.Tuple) and isinstance(n.stmt.value.elts[0], ast.List) and n.stmt.value.elts[0].elts]
    if proc and rets and all(gd.must_pass(gd.entry, [r], proc, labels_excluded=("exc",)) for r in rets):
        r2.ok("wait_for_done (sequential): an SCC is reported done only after process_stale_scc", wd.loc(proc[0].stmt))
    else:
        r2.violation("wait_for_done (sequential): an SCC is reported done only after process_stale_scc", wd.loc(), "sequential path reports an SCC done without processing it")

    # ---------------- R07.3
    r3 = chk.rule("R07.3", "the set of analysis/cache steps of process_stale_scc equals interface phase ∪ implementation phase ∪ worker.load_states (differences tabled with reasons)", floor=15)
    seq = steps_of(ix, ix.func("mypy.build.process_stale_scc"))
    par = {}
    for q in ("mypy.build.process_stale_scc_interface", "mypy.build.process_stale_scc_implementation", "mypy.build_worker.worker.load_states"):
        for k, v in steps_of(ix, ix.func(q)).items():
            par.setdefault(k, (q, v))
    chk.extra["sequential_steps"] = sorted(seq)
    chk.extra["parallel_steps"] = sorted(par)
    for s in sorted(set(seq) | set(par)):
        key = f"step {s}"
        if s in seq and s in par:
            r3.ok(key, f"mypy/build.py:{seq[s]}")
        elif s in seq:
            r3.violation(f"step {s} only in the sequential path", f"mypy/build.py:{seq[s]}", f"process_stale_scc calls {s}() but neither phase of the parallel path does: -n N runs skip this step")
        else:
            r3.violation(f"step {s} only in the parallel path", f"{par[s][0]}:{par[s][1]}", f"{par[s][0]} calls {s}() but the sequential path does not")
    # the error tuples that get printed/cached are rendered only after the unused-ignore and
    # ignore-without-code notes were generated, in both paths
    for q in ("mypy.build.process_stale_scc", "mypy.build.process_stale_scc_implementation"):
        f = ix.func(q)
        gq = CFG(f.node, loops_at_least_once=True)  # consecutive loops range over the same `stale` list
        fm = [n for n in gq.nodes if any(call_name(c) == "file_messages" for c in n.calls())]
        if not fm:
            raise AnalysisError(f"{q}: file_messages call not found")
        for step in ("generate_unused_ignore_notes", "generate_ignore_without_code_notes"):
            sn = [n for n in gq.nodes if any(call_name(c) == step for c in n.calls())]
            key = f"{q}: {step} before file_messages"
            if sn and all(gq.must_pass(gq.entry, [m], sn, labels_excluded=("exc",)) for m in fm):
                r3.ok(key, f.loc(fm[0].stmt))
            else:
                r3.violation(key, f.loc(fm[0].stmt), f"errors are rendered (and cached) before {step}() ran: its diagnostics are lost in this path")
        fp = [n for n in gq.nodes if any(call_name(c) == "finish_passes" for c in n.calls())]
        late = gq.reachable(fm, labels_excluded=("exc",))
        # finish_passes of a module in a later loop iteration is fine only if rendering is per module;
        # here rendering happens in a separate loop after all modules finished
        if any(x in late for x in fp):
            r3.violation(f"{q}: finish_passes precedes rendering", f.loc(fm[0].stmt), "a module can be finished after errors were rendered")
        else:
            r3.ok(f"{q}: finish_passes precedes rendering", f.loc(fm[0].stmt))

    # ---------------- R07.4
    r4 = chk.rule("R07.4", "coordinator commits its own cache writes before the first broadcast to workers", floor=1)
    gp = CFG(pg.node)
    bcast = [n for n in gp.nodes if any(norm(c.func) == "manager.broadcast" for c in n.calls())]
    com = [n for n in gp.nodes if any(norm(c.func) == "manager.commit" for c in n.calls())]
    wtests = [n for n in gp.nodes if n.kind == "test" and norm(n.exprs[0]) == "manager.workers"]
    if not bcast:
        raise AnalysisError("process_graph no longer broadcasts")
    ok = False
    if com and gp.must_pass(gp.entry, bcast, com, labels_excluded=("exc",)):
        ok = True
    else:
        for t in wtests:
            tsucc = [m for m, lab in t.succ if lab == "true"]
            if com and all(gp.must_pass(x, bcast, com, labels_excluded=("exc",)) for x in tsucc) and gp.must_pass(gp.entry, bcast, [t], labels_excluded=("exc",)):
                ok = True
    if ok:
        r4.ok("process_graph: manager.commit() before manager.broadcast when workers exist", pg.loc(bcast[0].stmt))
    else:
        r4.violation("process_graph: manager.commit() before manager.broadcast when workers exist", pg.loc(bcast[0].stmt), "workers may read the cache before the coordinator's graph-loading writes are committed")


def run_import_errors(chk: Check, ix) -> None:
    """R07.5: diagnostics produced while the coordinator loads the graph reach the worker that checks the module."""
    from ..pattern import find_all, has
    r5 = chk.rule("R07.5", "errors reported during graph loading are recorded per file while workers exist, shipped with the SCC request for every module of the batch, and replayed by the worker into its own Errors before processing", floor=4)
    rep = ix.func("mypy.errors.Errors.report")
    g = CFG(rep.node)
    add = [n for n in g.nodes if any(call_name(c) == "add_error_info" for c in n.calls())]
    rec = [n for n in g.nodes if any(call_name(c) == "append" and "recorded" in norm(c.func.value) for c in n.calls())]
    tests = [n for n in g.nodes if n.kind == "test" and norm(n.exprs[0]) == "self.global_watcher"]
    ok = bool(add and rec and tests) and all(g.must_pass(g.entry, [a], tests, labels_excluded=("exc",)) for a in add) and all(r in g.reachable([m for t in tests for m, lab in t.succ if lab == "true"], labels_excluded=("exc",)) for r in rec)
    if ok and has(rep.node, "self.recorded[self.file].append($i)", "self.add_error_info($i)"):
        r5.ok("Errors.report records every ErrorInfo under its file while global_watcher is on", rep.loc(rec[0].stmt))
    else:
        r5.violation("Errors.report records every ErrorInfo under its file while global_watcher is on", rep.loc(), "an error reported by the coordinator during graph loading is not (always) recorded for replay: under parallel checking it is lost")
    # the watcher is switched on before plugins/graph loading when there are workers, and off only after load_graph finished
    bi = next((f for q, f in ix.functions.items() if f.module.name == "mypy.build" and f.parent is None and any(isinstance(a, ast.Assign) and norm(a) == "errors.global_watcher = True" for a in ast.walk(f.node))), None)
    lg = ix.func("mypy.build.load_graph")
    offs = [a for a in ast.walk(lg.node) if isinstance(a, ast.Assign) and norm(a) == "manager.errors.global_watcher = False"]
    if bi is not None and offs:
        gb = CFG(bi.node)
        on = [n for n in gb.nodes if n.kind == "stmt" and norm(n.stmt) == "errors.global_watcher = True"]
        loaders = [n for n in gb.nodes if any(call_name(c) in ("dispatch", "load_graph", "BuildManager") for c in n.calls())]
        from ..cfg import branch_conditions
        pos, neg = branch_conditions(bi.module.parents(), bi.node, on[0].stmt)
        under_workers = [norm(t) for t in pos] == ["workers"] and not neg
        before = bool(loaders) and all(n.lineno > on[0].lineno for n in loaders)
        last_stmt = [st for st in lg.node.body if not isinstance(st, ast.Return)][-1]
        off_last = offs[0] is last_stmt
        if under_workers and before and off_last:
            r5.ok("global_watcher is on from before the build manager is created until load_graph has finished (only with workers)", bi.loc(on[0].stmt))
        else:
            r5.violation("global_watcher is on from before the build manager is created until load_graph has finished (only with workers)", bi.loc(on[0].stmt), f"recording window changed (under `workers`: {under_workers}; before graph loading: {before}; switched off as load_graph's last step: {off_last})")
    else:
        r5.violation("global_watcher is on from before the build manager is created until load_graph has finished (only with workers)", lg.loc(), "the recording switch was not found")
    # coordinator ships recorded errors of every module in the batch
    sub = ix.func("mypy.build.BuildManager.submit_to_workers") if "mypy.build.BuildManager.submit_to_workers" in ix.functions else None
    if sub is None:
        cands = [f for q, f in ix.functions.items() if f.module.name == "mypy.build" and any(isinstance(c, ast.Call) and call_name(c) == "SccRequestMessage" and any(k.arg == "mod_data" and not isinstance(k.value, ast.Dict) for k in c.keywords) for c in ast.walk(f.node))]
        sub = cands[0] if cands else None
    if sub is None:
        raise AnalysisError("the function that sends SccRequestMessage with mod_data was not found")
    b = find_all(sub.node, ["$ie = {$m: self.errors.recorded[$p] for $s in $batch for $m in $s.mod_ids if ($p := graph[$m].xpath) in self.errors.recorded}"])
    msg = [c for c in ast.walk(sub.node) if isinstance(c, ast.Call) and call_name(c) == "SccRequestMessage"]
    kw = {k.arg: norm(k.value) for c in msg for k in c.keywords}
    sccs_src = None
    for c in msg:
        for k in c.keywords:
            if k.arg == "scc_ids" and isinstance(k.value, ast.ListComp):
                sccs_src = norm(k.value.generators[0].iter)
    if b and kw.get("import_errors") == b[0]["ie"] and sccs_src == b[0]["batch"]:
        r5.ok("the SCC request carries errors.recorded[xpath] for every module of every SCC in the batch", sub.loc(msg[0]))
    else:
        r5.violation("the SCC request carries errors.recorded[xpath] for every module of every SCC in the batch", sub.loc(msg[0]) if msg else sub.loc(), "recorded import errors are not shipped for all modules of the batch that is sent")
    # worker replays
    ls = ix.func("mypy.build_worker.worker.load_states")
    if has(ls.node, "for $e in import_errors[$id]:\n    manager.errors.add_error_info($e)") and has(ls.node, "manager.errors.set_file($st.xpath, $id, $st.options)"):
        loops = [l for l in ast.walk(ls.node) if isinstance(l, ast.For) and norm(l.iter) == "mod_ids" and any(isinstance(c, ast.Call) and call_name(c) == "add_error_info" for c in ast.walk(l))]
        if loops:
            r5.ok("load_states replays import_errors[id] for every module id of the request, after set_file", ls.loc(loops[0]))
        else:
            r5.violation("load_states replays import_errors[id] for every module id of the request, after set_file", ls.loc(), "the replay does not run over all module ids of the request")
    else:
        r5.violation("load_states replays import_errors[id] for every module id of the request, after set_file", ls.loc(), "the worker no longer replays the coordinator's import errors into its Errors object")


def run_def_or_infer(chk: Check, ix) -> None:
    """R07.6: a function that (through any nested function) defines or infers a variable is flagged on every enclosing level."""
    r6 = chk.rule("R07.6", "every site in the semantic analyser that marks `def_or_infer_vars` does so for all functions of the current scope stack (`for f in self.scope.functions`), so that the *top-level* function or method, the unit the interface phase selects, is flagged when a nested function defines an attribute or infers a variable", floor=3)
    m = ix.module("mypy.semanal")
    par = m.parents()
    n = 0
    for q, f in sorted(ix.functions.items()):
        if f.module is not m or f.parent is not None:
            continue
        for a in ast.walk(f.node):
            if not (isinstance(a, ast.Assign) and isinstance(a.targets[0], ast.Attribute) and a.targets[0].attr == "def_or_infer_vars" and isinstance(a.value, ast.Constant) and a.value.value is True):
                continue
            n += 1
            tgt = a.targets[0].value
            p_ = par.get(a)
            in_loop = None
            while p_ is not None and p_ is not f.node:
                if isinstance(p_, ast.For) and norm(p_.target) == norm(tgt) and norm(p_.iter) == "self.scope.functions":
                    in_loop = p_
                    break
                p_ = par.get(p_)
            key = f"{f.name}: def_or_infer_vars set on every function of the scope stack"
            k2 = key if n == 1 else f"{key} #{n}"
            if in_loop is not None or norm(tgt) in ("self.scope.functions[0]",):
                r6.ok(k2, f.loc(a))
            else:
                r6.violation(k2, f.loc(a), f"only `{norm(tgt)}` is flagged: when the definition sits in a nested function the enclosing top-level function/method is not processed in the interface phase of a parallel build, the variable's type is missing from the cached interface and dependants on other workers report `Cannot determine type`")
    if n < 3:
        raise AnalysisError(f"only {n} sites setting def_or_infer_vars found in semanal.py")


def run_phase_handover(chk: Check, ix) -> None:
    """R07.7: every module of an SCC handed to a worker gets both phases."""
    r7 = chk.rule("R07.7", "process_stale_scc_interface returns an entry for every module of the stale list on every path (also when the cache could not be written), and the worker runs the implementation phase for exactly the modules of that result: otherwise function bodies of the missing module are never checked and its errors never reported", floor=2)
    pi = ix.func("mypy.build.process_stale_scc_interface")
    rets = [n for n in ast.walk(pi.node) if isinstance(n, ast.Return) and n.value is not None]
    if len(rets) != 1 or not isinstance(rets[0].value, ast.Name):
        raise AnalysisError("process_stale_scc_interface: single `return <result list>` not found")
    res = rets[0].value.id
    loops = [l for l in ast.walk(pi.node) if isinstance(l, ast.For) and any(isinstance(c, ast.Call) and isinstance(c.func, ast.Attribute) and c.func.attr == "append" and norm(c.func.value) == res for c in ast.walk(l))]
    if len(loops) != 1:
        raise AnalysisError("process_stale_scc_interface: the loop filling the result was not found")
    lp = loops[0]
    g = CFG(pi.node)
    heads = [n for n in g.nodes if n.stmt is lp and n.kind in ("for-iter", "for-head")]
    head = [n for n in heads if any(lab in ("true", "body", "iter") for m, lab in n.succ)] or heads
    apps = [n for n in g.nodes if any(isinstance(c.func, ast.Attribute) and c.func.attr == "append" and norm(c.func.value) == res for c in n.calls())]
    body_first = [n for n in g.nodes if n.stmt is lp.body[0]]
    over = norm(lp.iter)
    key = f"process_stale_scc_interface: every iteration of `for {norm(lp.target)} in {over}` appends to the result"
    ok = bool(body_first and apps and heads) and all(g.must_pass(body_first[0], [h], apps, labels_excluded=("exc",)) for h in heads)
    if ok and over == "stale":
        r7.ok(key, pi.loc(lp))
    else:
        w = g.witness(body_first[0], heads, apps, labels_excluded=("exc",)) if body_first and heads else None
        r7.violation(key, pi.loc(lp), "a module can be left out of the interface result (for example when its cache was not written: no path as for `mypy -c`, or a failed write); the worker then never runs the implementation phase for it, so errors in its function bodies are not reported and the run says Success", witness=g.fmt_path(w or [], pi.module.relpath))
    ws = ix.func("mypy.build_worker.worker.serve_sccs") if "mypy.build_worker.worker.serve_sccs" in ix.functions else None
    if ws is None:
        cands = [f for q, f in ix.functions.items() if f.module.name == "mypy.build_worker.worker" and f.parent is None and any(isinstance(c, ast.Call) and call_name(c) == "process_stale_scc_implementation" for c in ast.walk(f.node))]
        ws = cands[0] if cands else None
    if ws is None:
        raise AnalysisError("worker: caller of process_stale_scc_implementation not found")
    from ..pattern import has
    if has(ws.node, "for $id, $r, $mf in $results:\n    $stale.append($id)\n    $mr[$id] = $r\n    $mfs.append($mf)", "for $i2, $m2 in zip($stale, $mfs):\n    $res |= process_stale_scc_implementation(graph, [$i2], manager, [$m2])") or has(ws.node, "for $id, $r, $mf in $results:\n    $stale.append($id)\n    $mr[$id] = $r\n    $mfs.append($mf)"):
        r7.ok("worker: the implementation phase runs over every (id, meta file) of the interface result", ws.loc())
    else:
        r7.violation("worker: the implementation phase runs over every (id, meta file) of the interface result", ws.loc(), "the module list of the implementation phase is no longer taken one-to-one from the interface result")


def run_dedupe_state(chk: Check, ix) -> None:
    """R07.8: de-duplication state that decides whether a diagnostic is printed is not process-local in effect."""
    r8 = chk.rule("R07.8", "state of the Errors object that decides across files whether a diagnostic is shown — a set that add_error_info uses to print a message only once per build (tested with `in`, then added to), and the state read by the test that hides errors after the many-errors threshold — is per Errors object, hence per worker process; the coordinator must reconcile it when it merges worker output, otherwise a parallel build prints the message once per worker that meets it / hides nothing", floor=2)
    aei = ix.func("mypy.errors.Errors.add_error_info")
    tested, added = {}, set()
    for n in ast.walk(aei.node):
        if isinstance(n, ast.Compare) and len(n.ops) == 1 and isinstance(n.ops[0], ast.In) and isinstance(n.comparators[0], ast.Attribute) and norm(n.comparators[0].value) == "self":
            tested.setdefault(n.comparators[0].attr, n)
        if isinstance(n, ast.Call) and isinstance(n.func, ast.Attribute) and n.func.attr == "add" and isinstance(n.func.value, ast.Attribute) and norm(n.func.value.value) == "self":
            added.add(n.func.value.attr)
    sets = sorted(set(tested) & added)
    if not sets:
        raise AnalysisError("add_error_info: no once-per-build de-duplication set found")
    build = ix.module("mypy.build")
    worker = ix.module("mypy.build_worker.worker")
    for a in sets:
        mentioned = any(isinstance(x, ast.Attribute) and x.attr == a for m in (build, worker) for x in ast.walk(m.tree))
        key = f"Errors.{a}: reconciled between workers and coordinator"
        if mentioned:
            r8.ok(key, aei.loc(tested[a]))
        else:
            r8.violation(key, aei.loc(tested[a]), f"`{a}` is consulted and updated per process only; neither the coordinator nor the worker protocol mentions it, so every worker prints its own copy of a once-per-build message (sequential: once)")
    # the hide-after-many-errors decision (Options.many_errors_threshold, --soft-error-limit)
    hides = [i for i in ast.walk(aei.node) if isinstance(i, ast.If) and any(isinstance(a, ast.Assign) and norm(a.targets[0]).endswith(".hidden") for a in i.body)]
    for i in hides:
        state = sorted({x.attr for x in ast.walk(i.test) if isinstance(x, ast.Attribute) and norm(x.value) == "self" and x.attr not in ("options",)})
        key = "Errors.add_error_info: the decision to hide further errors (`info.hidden = True`) is reconciled between workers and coordinator"
        mentioned = any(isinstance(x, ast.Attribute) and x.attr in state for m in (build, worker) for x in ast.walk(m.tree))
        if mentioned:
            r8.ok(key, aei.loc(i))
        else:
            r8.violation(key, aei.loc(i), f"`{norm(i.test)[:120]}` reads per-process state only ({state}): in a parallel build each worker counts its own errors and has seen only the import errors replayed to it, so the build hides nothing where the sequential build stops at the threshold")


def run_reload_meta(chk: Check, ix) -> None:
    """R07.9: a worker refreshes the cache meta of every dependency module it loads."""
    r9 = chk.rule("R07.9", "maybe_load_deps, in a parallel worker, calls reload_meta() for every module of every dependency SCC it is about to load from the cache, unconditionally: the State objects a worker received carry interface hashes from before the build, and what it writes into dep_hashes must be the hash of what it actually loads", floor=1)
    f = ix.func("mypy.build.maybe_load_deps")
    from ..cfg import branch_conditions
    par = f.module.parents()
    calls = [c for c in ast.walk(f.node) if isinstance(c, ast.Call) and call_name(c) == "reload_meta"]
    if not calls:
        r9.violation("maybe_load_deps reloads the meta of every dependency module (worker)", f.loc(), "no reload_meta() call: workers keep pre-build interface hashes of their dependencies")
        return
    c = calls[0]
    st = c
    while not isinstance(st, ast.stmt):
        st = par[st]
    pos, neg = branch_conditions(par, f.node, st)
    conds = [norm(x) for x in pos] + ["not (" + norm(x) + ")" for x in neg]
    loops = []
    p_ = par.get(st)
    while p_ is not None and p_ is not f.node:
        if isinstance(p_, ast.For):
            loops.append(norm(p_.iter))
        p_ = par.get(p_)
    extra = [x for x in conds if x not in ("manager.parallel_worker", "missing_sccs")]
    key = "maybe_load_deps reloads the meta of every dependency module (worker)"
    if not extra and any(".mod_ids" in l for l in loops) and any("fresh_sccs_to_load" in l for l in loops):
        r9.ok(key, f.loc(c))
    else:
        r9.violation(key, f.loc(c), f"reload_meta() runs under {conds} over {loops}: some dependency modules keep the interface hash they had when the graph was sent, although they may have been re-checked since (their source unchanged, their own dependency changed); this worker then records the old hash in dep_hashes and a later build trusts it")


def run_worker_options_order(chk: Check, ix) -> None:
    """R07.10: the options a worker receives keep the order of the per-module config sections."""
    r10 = chk.rule("R07.10", "Options.to_bytes (what build.py writes for the workers) serialises through cache.write_json, which writes dictionary keys sorted; per_module_options is a dictionary whose order is the order of the config file sections and decides which unstructured glob section wins (clone_for_module applies them in order, last wins), so to_bytes replaces it by an order-preserving form (a list) before writing and the worker rebuilds the dictionary from it: otherwise a worker applies another section than the coordinator and -n 2 reports what -n 0 does not", floor=3)
    cache = ix.module("mypy.cache")
    wj = cache.functions.get("write_json")
    sorts = wj is not None and any(isinstance(c, ast.Call) and call_name(c) == "sorted" for c in ast.walk(wj.node))
    tb = ix.func("mypy.options.Options.to_bytes")
    uses_wj = any(isinstance(c, ast.Call) and call_name(c) == "write_json" for c in ast.walk(tb.node))
    if not sorts or not uses_wj:
        r10.ok("Options.to_bytes no longer goes through a key-sorting writer", tb.loc())
        return
    r10.ok("write_json writes dictionary keys sorted and Options.to_bytes uses it", wj.loc())
    repl = [a for a in ast.walk(tb.node) if isinstance(a, ast.Assign) and isinstance(a.targets[0], ast.Subscript) and isinstance(a.targets[0].slice, ast.Constant) and a.targets[0].slice.value == "per_module_options" and isinstance(a.value, (ast.List, ast.ListComp, ast.Call))]
    key = "to_bytes sends per_module_options in an order-preserving form"
    if repl and not (isinstance(repl[0].value, ast.Call) and call_name(repl[0].value) in ("dict", "sorted")):
        r10.ok(key, tb.loc(repl[0]), norm(repl[0].value)[:80])
    else:
        r10.violation(key, tb.loc(), "the snapshot's per_module_options dictionary is written by write_json with sorted keys: the worker sees the config sections in alphabetical order, and for unstructured glob patterns the last matching section wins")
    wk = ix.func("mypy.build_worker.worker.main") if "mypy.build_worker.worker.main" in ix.functions else None
    if wk is None:
        raise AnalysisError("mypy.build_worker.worker.main not found")
    back = [a for a in ast.walk(wk.node) if isinstance(a, ast.Assign) and isinstance(a.targets[0], ast.Subscript) and isinstance(a.targets[0].slice, ast.Constant) and a.targets[0].slice.value == "per_module_options" and isinstance(a.value, ast.Call) and call_name(a.value) == "dict"]
    key = "the worker rebuilds the per_module_options dictionary from the order-preserving form"
    if back or not repl:
        r10.ok(key, wk.loc(back[0]) if back else wk.loc())
    else:
        r10.violation(key, wk.loc(), "to_bytes sends a list but the worker hands it to apply_changes as it is: per_module_options would be a list")


def run_worker_state_returned(chk: Check, ix) -> None:
    """R07.11: build-wide state that module processing adds to and the coordinator uses afterwards comes back from the workers."""
    r11 = chk.rule("R07.11", "a container attribute of BuildManager that (a) functions reachable from module processing add to (`manager.X.add/update/...` outside BuildManager itself) and (b) build_inner reads after dispatch() returned, is build-wide state; in parallel mode the additions happen in the worker's own BuildManager, so X has to be named in what the worker sends back (mypy/build_worker/worker.py or a message class of mypy/build.py) or the coordinator works with an incomplete X", floor=1)
    bi = ix.func("mypy.build.build_inner")
    g = CFG(bi.node)
    disp = [n for n in g.nodes if any(call_name(c) == "dispatch" for c in n.calls())]
    if not disp:
        raise AnalysisError("build_inner: dispatch() call not found")
    after = g.reachable([m for m, lab in disp[0].succ], labels_excluded=()) | {disp[0]}
    read_after: dict[str, ast.AST] = {}
    for n in after:
        exprs = list(getattr(n, "exprs", []) or [])
        if getattr(n, "stmt", None) is not None and not exprs:
            exprs = [n.stmt]
        for e in exprs:
            for a in ast.walk(e):
                if isinstance(a, ast.Attribute) and isinstance(a.value, ast.Name) and a.value.id == "manager" and isinstance(a.ctx, ast.Load):
                    read_after.setdefault(a.attr, a)
    MUT = {"add", "update", "append", "extend", "setdefault"}
    mutated: dict[str, str] = {}
    for q, f in ix.functions.items():
        if f.module.name != "mypy.build" or (f.cls is not None and f.cls.qualname == "mypy.build.BuildManager") or q == "mypy.build.build_inner":
            continue
        for c in ast.walk(f.node):
            if isinstance(c, ast.Call) and isinstance(c.func, ast.Attribute) and c.func.attr in MUT and isinstance(c.func.value, ast.Attribute) and norm(c.func.value.value) in ("manager", "self.manager"):
                mutated.setdefault(c.func.value.attr, q)
    wtxt = ix.module("mypy.build_worker.worker").source if hasattr(ix.module("mypy.build_worker.worker"), "source") else open(os.path.join(ix.root, "mypy/build_worker/worker.py")).read()
    btxt = open(os.path.join(ix.root, "mypy/build.py")).read()
    msg_classes = "\n".join(seg for seg in re.findall(r"class \w+\(IPCMessage\):.*?(?=\nclass |\ndef )", btxt, flags=re.S))
    n = 0
    for attr in sorted(set(read_after) & set(mutated)):
        n += 1
        key = f"BuildManager.{attr}: added to during module processing ({mutated[attr].split('.')[-1]}), read by build_inner after dispatch, returned by workers"
        if re.search(rf"\b{attr}\b", wtxt) or re.search(rf"\b{attr}\b", msg_classes):
            r11.ok(key, bi.loc(read_after[attr]))
        else:
            r11.violation(key, bi.loc(read_after[attr]), f"`manager.{attr}` is filled by {mutated[attr]} wherever the module is processed; nothing in the worker or in the IPC message classes mentions it, so what a worker adds never reaches the coordinator that reads it here")
    if n < 1:
        raise AnalysisError(f"no BuildManager attribute is both mutated during processing and read after dispatch (read: {sorted(read_after)[:8]})")


def run_worker_state_complete(chk: Check, ix) -> None:
    """R07.12: what a worker writes into a cache meta comes from a State that really holds it."""
    r12 = chk.rule("R07.12", "State.write_cache builds the CacheMeta from attributes of the State. In a worker the State object was rebuilt by State.read from what State.write sent, so each attribute write_cache reads is (a) serialised by State.write/read, or (b) assigned in worker.load_states, or (c) (re)computed by a State method the worker runs (called by name in worker.py or the SCC processing functions, closed under self-calls). An attribute that is none of these keeps the constructor default in the worker, and the parallel build writes a meta that differs from the sequential one (e.g. imports_ignored = {}: a `# type: ignore` on an import is not honoured by the next warm run)", floor=8)
    st = ix.cls("mypy.build.State")
    wc = st.methods.get("write_cache")
    if wc is None or "write" not in st.methods or "read" not in st.methods:
        raise AnalysisError("State.write_cache / write / read not found")
    reads = {}
    for n in ast.walk(wc.node):
        if isinstance(n, ast.Attribute) and isinstance(n.value, ast.Name) and n.value.id == "self" and isinstance(n.ctx, ast.Load):
            reads.setdefault(n.attr, n.lineno)
    init_params = {a.arg for a in st.methods["__init__"].node.args.args + st.methods["__init__"].node.args.kwonlyargs}
    data = {a for a in reads if a not in st.methods and a != "manager"}
    serialised = {n.attr for n in ast.walk(st.methods["write"].node) if isinstance(n, ast.Attribute) and isinstance(n.value, ast.Name) and n.value.id == "self"}
    ls = ix.func("mypy.build_worker.worker.load_states")
    in_worker = {t.attr for a in ast.walk(ls.node) if isinstance(a, (ast.Assign, ast.AnnAssign)) for t in (a.targets if isinstance(a, ast.Assign) else [a.target]) if isinstance(t, ast.Attribute) and isinstance(t.value, ast.Name) and t.value.id == "state"}
    computed = set()
    # State methods the worker runs: called by name on some object in worker.py or in the SCC
    # processing functions, closed under `self.m()` calls inside State (calls that go through the
    # manager, like parse_all(post_parse=False) -> post_parse_all, are flag-dependent and not followed)
    entry_funcs = [f for f in ix.module("mypy.build_worker.worker").functions.values()]
    for q in ("mypy.build.process_stale_scc", "mypy.build.process_stale_scc_interface", "mypy.build.process_stale_scc_implementation"):
        try:
            entry_funcs.append(ix.func(q))
        except Exception:
            pass
    run = set()
    for f in entry_funcs:
        for c in ast.walk(f.node):
            if isinstance(c, ast.Call) and isinstance(c.func, ast.Attribute) and c.func.attr in st.methods:
                run.add(c.func.attr)
    todo = list(run)
    while todo:
        mname = todo.pop()
        for c in ast.walk(st.methods[mname].node):
            if isinstance(c, ast.Call) and isinstance(c.func, ast.Attribute) and isinstance(c.func.value, ast.Name) and c.func.value.id == "self" and c.func.attr in st.methods and c.func.attr not in run:
                run.add(c.func.attr)
                todo.append(c.func.attr)
    if len(run) < 5:
        raise AnalysisError(f"only {sorted(run)} State methods found to be run by the worker")
    for mname, m in st.methods.items():
        if mname in ("__init__", "read", "new_state") or mname not in run:
            continue
        for a in ast.walk(m.node):
            if isinstance(a, (ast.Assign, ast.AnnAssign, ast.AugAssign)):
                for t in (a.targets if isinstance(a, ast.Assign) else [a.target]):
                    for x in ast.walk(t):
                        if isinstance(x, ast.Attribute) and isinstance(x.value, ast.Name) and x.value.id == "self" and isinstance(x.ctx, ast.Store):
                            computed.add(x.attr)
    if len(data) < 8:
        raise AnalysisError(f"State.write_cache reads only {sorted(data)}")
    for a in sorted(data):
        key = f"State.{a} (read by write_cache) reaches the worker"
        how = "serialised by State.write" if a in serialised else "assigned in worker.load_states" if a in in_worker else "computed by a State method" if a in computed else None
        if how:
            r12.ok(key, wc.loc(), how)
        else:
            r12.violation(key, f"{wc.module.relpath}:{reads[a]}", f"`self.{a}` goes into the cache meta, but State.write does not send it, worker.load_states does not assign it and no State method recomputes it: in a `-n N` build the worker-side State keeps the value State.read constructs, so the meta a parallel build writes differs from the one a sequential build writes")


class _Unknown(Exception):
    pass


def line_span_sites(ix):
    """Every `range(<x>.line, hi)` in mypy/: (function, call, verdict, detail).

    `hi` is evaluated over sample line numbers (the first node starts at line 10, any other node
    at 14, every `.end_line` is 20 or None): an inclusive span ends at 21, or at <line>+1 when the
    end line is unknown and the expression falls back with `or`."""
    out = []
    for f in ix.functions.values():
        if not f.module.name.startswith("mypy."):
            continue
        defs: dict[str, list[ast.expr]] = {}
        ranges = []
        for n in ast.walk(f.node):
            if isinstance(n, ast.Assign) and len(n.targets) == 1 and isinstance(n.targets[0], ast.Name):
                defs.setdefault(n.targets[0].id, []).append(n.value)
            elif isinstance(n, ast.NamedExpr):
                defs.setdefault(n.target.id, []).append(n.value)
            elif isinstance(n, ast.Call) and isinstance(n.func, ast.Name) and n.func.id == "range" and len(n.args) == 2 and any(isinstance(x, ast.Attribute) and x.attr == "line" for x in ast.walk(n.args[0])):
                ranges.append(n)
        if f.parent is not None and ranges:
            # nested functions are indexed on their own as well
            ranges = [r for r in ranges if not any(r in list(ast.walk(g.node)) for g in ix.functions.values() if g.parent is f)]
        for r in ranges:
            first = norm(next(x for x in ast.walk(r.args[0]) if isinstance(x, ast.Attribute) and x.attr == "line").value)

            def ev(e: ast.expr, end, depth=0):
                if depth > 8:
                    raise _Unknown("too deep")
                if isinstance(e, ast.Constant) and isinstance(e.value, int):
                    return e.value
                if isinstance(e, ast.NamedExpr):
                    return ev(e.value, end, depth + 1)
                if isinstance(e, ast.Attribute) and e.attr == "end_line":
                    return end
                if isinstance(e, ast.Attribute) and e.attr == "line":
                    owner = e.value.target if isinstance(e.value, ast.NamedExpr) else e.value
                    return 10 if norm(owner) == first else 14
                if isinstance(e, ast.Name):
                    if len(defs.get(e.id, [])) != 1:
                        raise _Unknown(f"`{e.id}` has {len(defs.get(e.id, []))} definitions in the function")
                    return ev(defs[e.id][0], end, depth + 1)
                if isinstance(e, ast.BoolOp) and isinstance(e.op, ast.Or):
                    v = None
                    for x in e.values:
                        v = ev(x, end, depth + 1)
                        if v:
                            return v
                    return v
                if isinstance(e, ast.BinOp) and isinstance(e.op, (ast.Add, ast.Sub)):
                    a, b = ev(e.left, end, depth + 1), ev(e.right, end, depth + 1)
                    if a is None or b is None:
                        raise _Unknown("arithmetic on an unknown end line")
                    return a + b if isinstance(e.op, ast.Add) else a - b
                raise _Unknown(f"`{norm(e)[:60]}`")
            try:
                lo = ev(r.args[0], 20)
                hi = ev(r.args[1], 20)
            except _Unknown as u:
                out.append((f, r, "unknown", str(u)))
                continue
            if lo != 10:
                out.append((f, r, "short" if lo > 10 else "long", f"with the first node starting on line 10 the range starts at {lo}"))
                continue
            if hi != 21:
                missing = "line 20 is missing" if hi == 20 else f"lines {hi}..20 are missing"
                out.append((f, r, "short" if hi < 21 else "long", f"with the last node ending on line 20 the range stops at {hi} (exclusive): {missing}" if hi < 21 else f"with the last node ending on line 20 the range runs to {hi - 1}"))
                continue
            falls_back = any(isinstance(x, ast.BoolOp) and isinstance(x.op, ast.Or) for x in [r.args[1], *[d for n in ast.walk(r.args[1]) if isinstance(n, ast.Name) for d in defs.get(n.id, [])]] for x in ast.walk(x))
            if falls_back:
                try:
                    hi0 = ev(r.args[1], None)
                except _Unknown as u:
                    out.append((f, r, "unknown", str(u)))
                    continue
                if hi0 not in (11, 15):
                    out.append((f, r, "short", f"without an end line the range stops at {hi0} (exclusive) although the fallback node starts on line {hi0 if hi0 in (10, 14) else '10/14'}: its own line is missing"))
                    continue
            out.append((f, r, "ok", ""))
    return out


def run_line_spans_inclusive(chk: Check, ix, rule_id: str) -> None:
    """R07.13 / R13.15: a recorded span of source lines includes the last line of its last node."""
    sites = line_span_sites(ix)
    if rule_id == "R07.13":
        r = chk.rule("R07.13", "TypeChecker.mark_unreachable records the lines of the unreachable rest of a module/class-level block in `globals_unreachable`; only the implementation phase of a parallel build (check_partial with impl_only) consults it, by `node.line in ...`, to skip the functions the sequential checker never reaches. `end_line` is inclusive and a one-line `def` starts on it, so the recorded `range(first.line, hi)` must have hi == (last.end_line or last.line) + 1 (evaluated over sample line numbers)", floor=1)
        mine = [t for t in sites if t[0].module.name == "mypy.checker"]
        chk_cls = ix.cls("mypy.checker.TypeChecker")
        cp = chk_cls.methods.get("check_partial")
        reads = [c for c in ast.walk(cp.node) if isinstance(c, ast.Compare) and len(c.ops) == 1 and isinstance(c.ops[0], ast.In) and norm(c.comparators[0]) == "self.globals_unreachable" and isinstance(c.left, ast.Attribute) and c.left.attr == "line"] if cp else []
        if not reads:
            raise AnalysisError("TypeChecker.check_partial: no `<node>.line in self.globals_unreachable` test found")
        why = "a function written on the last line of the unreachable block is checked by the workers although the sequential build never looks at it: `-n N` reports its errors and stores them in the cache"
    else:
        r = chk.rule(rule_id, "the spans of source lines that decide where a `# type: ignore` has effect (MessageBuilder.span_from_context) and which ignores are exempt from the unused-ignore report (unreachable_lines in errors.py, skipped_lines in semanal_pass1.py) are `range(first.line, hi)` with hi == (last.end_line [or last.line]) + 1: `end_line` is inclusive (evaluated over sample line numbers)", floor=4)
        mine = [t for t in sites if t[0].module.name != "mypy.checker" and not t[0].module.name.startswith(("mypy.test.", "mypy.stubgen", "mypy.stubtest", "mypy.report"))]
        why = "an ignore comment on the last line of the expression / skipped block is not matched against the error (or is reported as unused although the line was never analysed)"
    for f, call, verdict, detail in mine:
        key = f"{f.qualname.removeprefix('mypy.')}: `range({norm(call.args[0])}, ...)` includes the last line of the span"
        if verdict == "ok":
            r.ok(key, f.loc(call))
        elif verdict == "unknown":
            raise AnalysisError(f"{f.qualname}: cannot evaluate the end of `{norm(call)[:80]}`: {detail}")
        else:
            r.violation(key, f.loc(call), f"`{norm(call)[:90]}`: {detail}; {why}")
