"""C09 — changing options never yields stale results.

R09.0  the key computation really covers OPTIONS_AFFECTING_CACHE (select_options_affecting_cache
       iterates the derived tuple, options_snapshot feeds it to the digest, find_cache_meta rejects
       on mismatch).
R09.1  who-may-read: every `Options` attribute read inside the cached computation (call-graph
       zone) is in the key, selects the cache location, is compared by a separate gate, or is
       exempt by a tabled, named reason.
R09.2  options applied at print time (format_messages*) are not read by the code that renders the
       cached error tuples.
R09.3  the cache directory is derived from python_version and every store is created through it.
R09.4  PER_MODULE_OPTIONS ⊆ key ∪ {debug_cache}.
"""

from __future__ import annotations

import ast

from ..callgraph import CallGraph
from ..cfg import call_name
from ..cli import cli_flags, documented_confvals
from ..index import AnalysisError, get_index, norm, walk_no_nested
from ..report import Check
from ..resolve import Resolver, members

OPTIONS = "mypy.options.Options"

# Computations whose outputs are what the cache stores (tree, types, error tuples, deps).
ZONE_ROOTS = [
    "mypy.build.State.parse_file",
    "mypy.build.State.semantic_analysis_pass1",
    "mypy.semanal_main.semantic_analysis_for_scc",
    "mypy.build.State.type_check_first_pass",
    "mypy.build.State.type_check_second_pass",
    "mypy.build.State.detect_possibly_undefined_vars",
    "mypy.build.State.finish_passes",
    "mypy.build.State.generate_unused_ignore_notes",
    "mypy.build.State.generate_ignore_without_code_notes",
    "mypy.errors.Errors.file_messages",
    "mypy.build.State.write_cache",
    "mypy.build.State.compute_dependencies",
    "mypy.build.State.verify_dependencies",
]

# Functions never entered when computing the zone, each with the structural reason.
ZONE_CUT = {
    "mypy.build.BuildManager.report_file": "reports are written to the report directory, never cached nor printed as diagnostics",
    "mypy.build.BuildManager.stats_summary": "statistics output only",
    "mypy.build.BuildManager.add_stats": "statistics output only",
    "mypy.build.BuildManager.log": "verbose log output only",
    "mypy.build.BuildManager.trace": "verbose log output only",
    "mypy.build.BuildManager.log_fine_grained": "verbose log output only",
    "mypy.stats.dump_type_stats": "statistics dump to stdout under --dump-type-stats; not a diagnostic, not cached",
    "mypy.options.Options.clone_for_module": "the per-module options computation is itself keyed (R09.4)",
    "mypy.options.Options.apply_changes": "the per-module options computation is itself keyed (R09.4)",
    "mypy.options.Options.build_per_module_cache": "the per-module options computation is itself keyed (R09.4)",
    "mypy.options.Options.snapshot": "key computation",
    "mypy.options.Options.select_options_affecting_cache": "key computation",
    "mypy.options.Options.process_error_codes": "derives enabled/disabled_error_codes which are keyed",
    "mypy.options.Options.__init__": "constructor assigns defaults",
    "mypy.options.Options.__repr__": "debug text",
    "mypy.errors.Errors.raise_error": "raises CompileError: a blocked build stops before the module's cache record is written",
    "mypy.errors.report_internal_error": "terminates the process (INTERNAL ERROR); nothing is cached afterwards",
    "mypy.errors.Errors.new_messages": "formats not-yet-flushed messages for immediate display; its result is printed, never stored in a cache record",
    "mypy.modulefinder.FindModuleCache.find_module": "module resolution is recomputed on every run; a different result changes the dependency / suppressed lists or the path that State.is_fresh and validate_meta compare (C02 gates)",
    "mypy.config_parser.parse_mypy_comments": "inline `# mypy:` configuration is a function of the source text, which the source-hash gate covers (R02.1); its result lands in per-module Options",
}

# Options that take part in cache validity by a mechanism other than OPTIONS_AFFECTING_CACHE.
SEPARATELY_KEYED = {
    "python_version": "selects a separate cache directory (_cache_dir_prefix; R09.3)",
    "cache_dir": "selects the cache directory",
    "ignore_missing_imports": "PER_MODULE (keyed) and compared for suppressed deps via dep_import_options",
    "follow_imports": "PER_MODULE (keyed) and compared via dep_import_options",
    "follow_imports_for_stubs": "PER_MODULE (keyed) and compared via dep_import_options",
    "no_silence_site_packages": "decides follow_imports=silent for site-packages modules, i.e. ignore_all, which validate_meta compares with the cached ignore_all (R02.1 gate)",
}


# Options attributes that no flag and no documented config key sets, but that config_parser.parse_section accepts
# because it accepts every attribute with a non-None default. One reason each; none of them is a supported way to
# configure mypy, and no failing warm/cold pair was constructed for them (unlike reveal_verbose_types and
# pos_only_special_methods, which were and are reported).
INTERNAL_SWITCHES = {
    "preserve_asts": "keeps function bodies in memory after checking (stubgen, mypyc, daemon); read only to decide whether bodies may be skipped or freed, never changes diagnostics or cached bytes",
    "fine_grained_incremental": "the daemon's mode switch, set unconditionally by dmypy_server.Server.__init__; keying it would separate the daemon's cache from the batch cache it is designed to load (--use-fine-grained-cache)",
    "export_types": "toggled by the daemon / API embedders around an inspection to keep the expression type map; does not change diagnostics or cached bytes",
    "inspections": "toggled by the daemon around an `inspect` request on the live Options object; a config-file value would change how value-restricted type variables are expanded (unproven: no documented way to set it)",
    "include_docstrings": "stubgen's switch: docstrings are kept in the parsed tree; diagnostics do not read them",
    "use_builtins_fixtures": "set by the test harness for the lib-stub fixtures; only selects the fallback type of `__spec__` (unproven: no documented way to set it)",
}


def options_attrs(ix) -> dict[str, ast.AST]:
    ci = ix.cls(OPTIONS)
    init = ci.methods.get("__init__")
    if init is None:
        raise AnalysisError("Options.__init__ vanished")
    out = {}
    for n in ast.walk(init.node):
        tgts = []
        if isinstance(n, ast.Assign):
            tgts = n.targets
        elif isinstance(n, ast.AnnAssign):
            tgts = [n.target]
        for t in tgts:
            if isinstance(t, ast.Attribute) and isinstance(t.value, ast.Name) and t.value.id == "self":
                if not t.attr.startswith("_"):
                    out.setdefault(t.attr, n)
    if len(out) < 100:
        raise AnalysisError(f"only {len(out)} Options attributes found")
    return out


def options_reads(ix, R, f, O) -> list[tuple[str, ast.AST, str]]:
    """(option, node, nested-qualname) for every read of an Options attribute inside f (incl. nested)."""
    out = []

    def scan(g):
        env = R.env(g)
        for n in walk_no_nested(g.node):
            if isinstance(n, (ast.FunctionDef, ast.AsyncFunctionDef)):
                q = f"{g.qualname}.<locals>.{n.name}"
                if q in ix.functions:
                    scan(ix.functions[q])
                continue
            if isinstance(n, ast.Attribute) and n.attr in O and isinstance(n.ctx, ast.Load):
                t = R.type_of(n.value, g, env)
                if any(x == ("cls", OPTIONS) for x in members(t)):
                    out.append((n.attr, n, g.qualname))
            elif isinstance(n, ast.Call) and isinstance(n.func, ast.Name) and n.func.id in ("getattr", "hasattr") and len(n.args) >= 2:
                t = R.type_of(n.args[0], g, env)
                if any(x == ("cls", OPTIONS) for x in members(t)):
                    if isinstance(n.args[1], ast.Constant) and isinstance(n.args[1].value, str):
                        if n.args[1].value in O:
                            out.append((n.args[1].value, n, g.qualname))
                    else:
                        out.append(("<dynamic>", n, g.qualname))

    scan(f)
    return out


def run(chk: Check) -> None:
    ix = get_index()
    run_dep_import_options(chk, ix)
    run_option_writers(chk, ix, Resolver(ix))
    run_chained_plugin_data(chk, ix)
    run_plugin_data_in_interface_hash(chk, ix)
    run_shadowed_files_read_consistently(chk, ix)
    R = Resolver(ix)
    chk.trusted += ["receiver typing by annotations (sa/resolve.py)", "RTA call graph with name-based fallback (sa/callgraph.py)"]
    mopt = ix.module("mypy.options")
    O = options_attrs(ix)
    KEY = set(ix.const_eval(mopt, mopt.assigns["OPTIONS_AFFECTING_CACHE"]))
    PER_MODULE = set(ix.const_eval(mopt, mopt.assigns["PER_MODULE_OPTIONS"]))

    # ---------------- R09.0 key computation
    r0 = chk.rule("R09.0", "the options snapshot stored in and compared with cache metadata is computed from every name in OPTIONS_AFFECTING_CACHE", floor=5)
    no_plat = mopt.assigns.get("OPTIONS_AFFECTING_CACHE_NO_PLATFORM")
    if no_plat is None:
        raise AnalysisError("OPTIONS_AFFECTING_CACHE_NO_PLATFORM vanished")
    np_val = set(ix.const_eval(mopt, no_plat))
    if np_val == KEY - {"platform"}:
        r0.ok("NO_PLATFORM == KEY - {platform}", "mypy/options.py")
    else:
        r0.violation("NO_PLATFORM == KEY - {platform}", "mypy/options.py", f"derived tuple drops {sorted(KEY - {'platform'} - np_val)}")
    sel = ix.func("mypy.options.Options.select_options_affecting_cache")
    loops = [n for n in ast.walk(sel.node) if isinstance(n, ast.For) and norm(n.iter) == "OPTIONS_AFFECTING_CACHE_NO_PLATFORM"]
    good = False
    for lp in loops:
        var = lp.target.id if isinstance(lp.target, ast.Name) else None
        # result.append(val) on every iteration, val = getattr(self, opt)
        has_get = any(isinstance(n, ast.Call) and norm(n) == f"getattr(self, {var})" for n in ast.walk(lp))
        appends = [s for s in lp.body if isinstance(s, ast.Expr) and isinstance(s.value, ast.Call) and isinstance(s.value.func, ast.Attribute) and s.value.func.attr == "append"]
        conts = [n for n in ast.walk(lp) if isinstance(n, (ast.Continue, ast.Break))]
        if has_get and appends and not conts:
            good = True
    # provenance: what is appended for `opt` is getattr(self, opt) or a re-encoding of that very value
    for lp in loops:
        var = lp.target.id if isinstance(lp.target, ast.Name) else None
        appended = {norm(c.args[0]) for st in ast.walk(lp) for c in [st] if isinstance(c, ast.Call) and isinstance(c.func, ast.Attribute) and c.func.attr == "append" and c.args}
        for vname in sorted(appended):
            bad = []
            for a in ast.walk(lp):
                if isinstance(a, (ast.Assign, ast.AnnAssign)):
                    tg = a.targets[0] if isinstance(a, ast.Assign) else a.target
                    if isinstance(tg, ast.Name) and tg.id == vname and a.value is not None:
                        rhs = a.value
                        uses_opt = any(isinstance(x, ast.Call) and norm(x) == f"getattr(self, {var})" for x in ast.walk(rhs))
                        uses_self_val = any(isinstance(x, ast.Name) and x.id == vname for x in ast.walk(rhs))
                        other_attrs = [norm(x) for x in ast.walk(rhs) if isinstance(x, ast.Attribute) and isinstance(x.value, ast.Name) and x.value.id == "self"]
                        if not (uses_opt or uses_self_val) or other_attrs:
                            bad.append(f"{norm(a)[:70]} (line {a.lineno})")
            key = f"select_options_affecting_cache: the value recorded for each name is that option's own value (`{vname}`)"
            if bad:
                r0.violation(key, sel.loc(lp), "the key entry of an option is computed from something other than getattr(self, <that option>): " + "; ".join(bad) + " — per-module accumulated values (apply_changes) are then missing from the key")
            else:
                r0.ok(key, sel.loc(lp))
    rets = [n for n in ast.walk(sel.node) if isinstance(n, ast.Return) and n.value is not None]
    ret_ok = all(isinstance(r.value, ast.Tuple) and any(norm(e) == "self.platform" for e in r.value.elts) for r in rets) and rets
    if good and ret_ok:
        r0.ok("select_options_affecting_cache covers every key name + platform", sel.loc())
    else:
        r0.violation("select_options_affecting_cache covers every key name + platform", sel.loc(), "the loop over OPTIONS_AFFECTING_CACHE_NO_PLATFORM does not append getattr(self, opt) unconditionally, or platform is not returned")
    snap = ix.func("mypy.build.options_snapshot")
    calls = [norm(n.func) for n in ast.walk(snap.node) if isinstance(n, ast.Call)]
    if "cloned.select_options_affecting_cache" in calls and "manager.options.clone_for_module" in calls:
        r0.ok("options_snapshot uses clone_for_module(...).select_options_affecting_cache()", snap.loc())
    else:
        r0.violation("options_snapshot uses clone_for_module(...).select_options_affecting_cache()", snap.loc(), "snapshot no longer computed from the per-module clone's key selection")
    # every return of options_snapshot depends on both platform and the values
    for rt in [n for n in ast.walk(snap.node) if isinstance(n, ast.Return)]:
        txt = norm(rt.value) if rt.value is not None else ""
        if isinstance(rt.value, ast.Dict):
            ks = {k.value for k in rt.value.keys if isinstance(k, ast.Constant)}
            if {"platform", "other_options"} <= ks:
                r0.ok("options_snapshot returns platform + digest", snap.loc(rt))
            else:
                r0.violation("options_snapshot returns platform + digest", snap.loc(rt), f"returned keys {sorted(ks)}")
        elif txt == "result":
            r0.ok("options_snapshot debug branch returns full mapping", snap.loc(rt))
        else:
            r0.violation("options_snapshot return shape", snap.loc(rt), f"unrecognised return {txt[:60]}")
    fcm = ix.func("mypy.build.find_cache_meta")
    gate = None
    for n in ast.walk(fcm.node):
        if isinstance(n, ast.If) and "options_snapshot(" in norm(n.test) and isinstance(n.test, (ast.Compare, ast.BoolOp)):
            gate = n
    wr = ix.func("mypy.build.write_cache")
    wr_uses = any(isinstance(n, ast.Call) and norm(n.func) == "options_snapshot" for n in ast.walk(wr.node))
    if wr_uses:
        r0.ok("write_cache stores options_snapshot(id, manager)", wr.loc())
    else:
        r0.violation("write_cache stores options_snapshot(id, manager)", wr.loc(), "the stored snapshot is no longer produced by options_snapshot")
    # (the gate itself is an R02.1 instance; here only its presence)
    src = ast.unparse(fcm.node)
    if "options_snapshot(" in src:
        r0.ok("find_cache_meta compares with options_snapshot", fcm.loc())
    else:
        r0.violation("find_cache_meta compares with options_snapshot", fcm.loc(), "no comparison against a freshly computed options snapshot")

    # ---------------- R09.4
    r4 = chk.rule("R09.4", "every per-module option is part of the cache key (set algebra over evaluated constants)", floor=1)
    missing = PER_MODULE - KEY - {"debug_cache"}
    if missing:
        for o in sorted(missing):
            r4.violation(f"PER_MODULE option {o} in key", "mypy/options.py", "per-module option not in OPTIONS_AFFECTING_CACHE")
    else:
        r4.ok("PER_MODULE_OPTIONS ⊆ OPTIONS_AFFECTING_CACHE ∪ {debug_cache}", "mypy/options.py", f"{len(PER_MODULE)} names")
    unknown = (KEY | PER_MODULE) - set(O)
    for o in sorted(unknown):
        r4.violation(f"key name {o} is an Options attribute", "mypy/options.py", "name in the key tables is not assigned in Options.__init__ (getattr would fail or the name is misspelt)")
    if not unknown:
        r4.ok("every key name is an Options attribute", "mypy/options.py", f"{len(KEY)} names")

    # ---------------- R09.3
    r3 = chk.rule("R09.3", "the cache location is derived from python_version and every metadata store is created under it", floor=2)
    cdp = ix.func("mypy.build._cache_dir_prefix")
    rets = [n for n in ast.walk(cdp.node) if isinstance(n, ast.Return)]
    env_names = {}
    for n in ast.walk(cdp.node):
        if isinstance(n, ast.Assign) and isinstance(n.targets[0], ast.Name):
            env_names[n.targets[0].id] = n.value
    def deps(e, seen=()):
        out = set()
        for n in ast.walk(e):
            if isinstance(n, ast.Attribute) and norm(n.value) == "options":
                out.add(n.attr)
            elif isinstance(n, ast.Name) and n.id in env_names and n.id not in seen:
                out |= deps(env_names[n.id], seen + (n.id,))
        return out
    okv = False
    for rt in rets:
        d = deps(rt.value)
        if "python_version" in d and "cache_dir" in d:
            okv = True
    # both components of the version take part (3.9 and 3.12 must not share a directory)
    ver_alias = {k for k, v in env_names.items() if norm(v) == "options.python_version"}
    is_ver = lambda e: norm(e) == "options.python_version" or (isinstance(e, ast.Name) and e.id in ver_alias)  # noqa: E731
    idx, whole_ok = set(), False
    par9 = cdp.module.parents()
    for n in ast.walk(cdp.node):
        if is_ver(n) and not (isinstance(n, ast.Name) and isinstance(n.ctx, ast.Store)):
            p_ = par9.get(n)
            if isinstance(p_, ast.Subscript) and p_.value is n:
                if isinstance(p_.slice, ast.Constant):
                    idx.add(p_.slice.value)
            elif isinstance(p_, ast.BinOp) and isinstance(p_.op, ast.Mod) and p_.right is n and isinstance(p_.left, ast.Constant) and isinstance(p_.left.value, str):
                whole_ok = whole_ok or p_.left.value.count("%") >= 2
            elif isinstance(p_, ast.Assign):
                pass
            else:
                whole_ok = True
    if okv and not (whole_ok or {0, 1} <= idx):
        r3.violation("_cache_dir_prefix depends on cache_dir and python_version", cdp.loc(), f"only part of python_version selects the cache directory (indices used: {sorted(idx)}): two target versions that analyse differently share cache files, and python_version is not in the options key")
    elif okv:
        r3.ok("_cache_dir_prefix depends on cache_dir and python_version", cdp.loc())
    else:
        r3.violation("_cache_dir_prefix depends on cache_dir and python_version", cdp.loc(), "returned directory no longer derived from options.python_version")
    cms = ix.func("mypy.build.create_metastore")
    ctor_args = []
    for n in ast.walk(cms.node):
        if isinstance(n, ast.Call) and isinstance(n.func, ast.Name) and n.func.id.endswith("MetadataStore"):
            ctor_args.append((n.func.id, [norm(a) for a in n.args], n))
    if not ctor_args:
        raise AnalysisError("create_metastore constructs no store")
    for nm, args, n in ctor_args:
        if args and args[0] == "_cache_dir_prefix(options)":
            r3.ok(f"{nm} created under _cache_dir_prefix", cms.loc(n))
        else:
            r3.violation(f"{nm} created under _cache_dir_prefix", cms.loc(n), f"store rooted at {args[:1]}")
    # no other construction site of a store in mypy/
    for q, f in ix.functions.items():
        if f.parent is not None or not f.module.name.startswith("mypy.") or q == cms.qualname:
            continue
        for n in ast.walk(f.node):
            if isinstance(n, ast.Call) and isinstance(n.func, ast.Name) and n.func.id in ("SqliteMetadataStore", "FilesystemMetadataStore"):
                r3.violation(f"store constructed outside create_metastore in {q}", f.loc(n), "a metadata store not rooted through _cache_dir_prefix")

    # ---------------- R09.1
    r1 = chk.rule(
        "R09.1",
        "every Options attribute read inside the cached computation (RTA call-graph zone from the parse/analyse/check/render/write roots) is in OPTIONS_AFFECTING_CACHE, keyed separately, or tabled with a named reason",
        floor=40,
    )
    cg = CallGraph(ix, R, lambda m: m.name.startswith("mypy.") or m.name == "mypy")
    for rq in ZONE_ROOTS:
        ix.func(rq)
    for cq in ZONE_CUT:
        ix.func(cq)
    seed = set()
    for q, s in cg.instantiates.items():
        if ix.functions[q].module.name == "mypy.build":
            seed |= s
    parent, inst = cg.reach(ZONE_ROOTS, cut=ZONE_CUT, seed_instantiated=seed)
    chk.extra.update(
        zone_functions=len(parent),
        zone_roots=ZONE_ROOTS,
        zone_cut=ZONE_CUT,
        call_sites=cg.n_calls,
        unresolved_receivers=cg.n_unresolved,
        instantiated_classes=len(inst),
        options_attributes=len(O),
        key_size=len(KEY),
    )
    if len(parent) < 3000:
        raise AnalysisError(f"zone collapsed to {len(parent)} functions (call graph lost its roots?)")
    settable = {f["dest"].replace("special-opts:", "") for f in cli_flags(ix)} | set(documented_confvals(ix.root))
    # config_parser.parse_section accepts *any* key that names an Options attribute whose default is not None
    # (`dv = getattr(template, key, None)`; the converter is `type(dv)`), documented or not
    ps = ix.func("mypy.config_parser.parse_section")
    if any(isinstance(c, ast.Call) and call_name(c) == "getattr" and len(c.args) == 3 and norm(c.args[0]) == "template" for c in ast.walk(ps.node)):
        oi = ix.cls("mypy.options.Options").methods["__init__"]
        for a in ast.walk(oi.node):
            tgt = None
            if isinstance(a, ast.Assign) and len(a.targets) == 1:
                tgt, val = a.targets[0], a.value
            elif isinstance(a, ast.AnnAssign) and a.value is not None:
                tgt, val = a.target, a.value
            if tgt is not None and isinstance(tgt, ast.Attribute) and isinstance(tgt.value, ast.Name) and tgt.value.id == "self" and not tgt.attr.startswith("_"):
                if isinstance(val, ast.Constant) and isinstance(val.value, (bool, int, float, str)) and val.value is not None:
                    settable.add(tgt.attr)
    not_settable = sorted(set(O) - settable)
    chk.extra["options_not_settable_by_cli_or_documented_config"] = not_settable
    seen_keys = set()
    n_key_reads = 0
    for q in sorted(parent):
        f = ix.functions[q]
        for opt, node, gq in options_reads(ix, R, f, O):
            where = f"{f.module.relpath}:{node.lineno} {gq}"
            if opt == "<dynamic>":
                r1.violation(f"dynamic getattr on Options in {q}", where, "option name not statically known inside the cached computation")
                continue
            if opt in KEY:
                n_key_reads += 1
                continue
            key = f"{opt} in {q}"
            if key in seen_keys:
                continue
            seen_keys.add(key)
            if opt in SEPARATELY_KEYED:
                r1.ok(key, where, SEPARATELY_KEYED[opt])
                continue
            if opt in INTERNAL_SWITCHES:
                r1.ok(key, where, "internal switch (accepted by the config parser only because every Options attribute with a non-None default is): " + INTERNAL_SWITCHES[opt])
                continue
            if opt not in settable:
                r1.ok(key, where, "exempt: no command-line flag (hidden ones included), no documented config key, and not accepted by the config parser either (its default is None or a container); only the test harness, the daemon, stubgen/stubtest or API embedders set it")
                continue
            r1.violation(
                key,
                where,
                f"Options.{opt} is read inside the cached computation but is not part of the cache key",
                witness=cg.path_to(parent, q),
            )
    chk.extra["reads_of_keyed_options_in_zone"] = n_key_reads
    r1.ok(f"{n_key_reads} reads of keyed options in zone", "zone", "options in OPTIONS_AFFECTING_CACHE")
    if n_key_reads < 150:
        raise AnalysisError(f"only {n_key_reads} reads of keyed options seen in the zone; receiver typing has gone blind")

    # ---------------- R09.2
    r2 = chk.rule("R09.2", "options applied when messages are printed are not also read while rendering the tuples that get cached", floor=3)
    fmt_roots = [q for q in ("mypy.errors.Errors.format_messages", "mypy.errors.Errors.format_messages_default") if q in ix.functions]
    if not fmt_roots:
        raise AnalysisError("format_messages anchors vanished")
    render_roots = ["mypy.errors.Errors.file_messages"]
    pf, _ = cg.reach(fmt_roots, cut=ZONE_CUT, seed_instantiated=seed)
    pr, _ = cg.reach(render_roots, cut=set(ZONE_CUT) | set(fmt_roots), seed_instantiated=seed)
    fmt_opts = {}
    for q in pf:
        if q in pr:
            continue
        for opt, node, gq in options_reads(ix, R, ix.functions[q], O):
            fmt_opts.setdefault(opt, f"{ix.functions[q].module.relpath}:{node.lineno}")
    if not fmt_opts:
        raise AnalysisError("no option read found under format_messages")
    for opt, loc in sorted(fmt_opts.items()):
        if opt in KEY:
            continue
        bad = None
        for q in pr:
            for o2, node, gq in options_reads(ix, R, ix.functions[q], O):
                if o2 == opt:
                    bad = (q, node)
                    break
            if bad:
                break
        key = f"print-time option {opt} not read by rendering"
        if bad:
            r2.violation(key, f"{ix.functions[bad[0]].module.relpath}:{bad[1].lineno} {bad[0]}", f"{opt} is applied at print time ({loc}) and also while rendering cached tuples")
        else:
            r2.ok(key, loc)


def run_dep_import_options(chk: Check, ix) -> None:
    """R09.5: what decides whether a dependency is suppressed is what suppressed_deps_opts records."""
    r5 = chk.rule("R09.5", "every per-module option of the *target* that find_module_and_diagnose reads to decide whether an import is followed, silenced or suppressed is encoded by Options.dep_import_options (compared by State.is_fresh through suppressed_deps_opts)", floor=3)
    fmd = ix.func("mypy.build.find_module_and_diagnose")
    pnames = [a.arg for a in fmd.params]
    if "options" not in pnames:
        raise AnalysisError("find_module_and_diagnose no longer takes the target's options")
    reads = {}
    for n in ast.walk(fmd.node):
        if isinstance(n, ast.Attribute) and isinstance(n.value, ast.Name) and n.value.id == "options" and isinstance(n.ctx, ast.Load):
            reads.setdefault(n.attr, n)
    dio = ix.func("mypy.options.Options.dep_import_options")
    written = set()
    for c in ast.walk(dio.node):
        if isinstance(c, ast.Call) and isinstance(c.func, ast.Name) and c.func.id.startswith("write_"):
            for a in c.args[1:]:
                if isinstance(a, ast.Attribute) and norm(a.value) == "self":
                    written.add(a.attr)
    if len(reads) < 3 or not written:
        raise AnalysisError(f"reads of the target's options ({sorted(reads)}) or dep_import_options fields ({sorted(written)}) not recognised")
    for a, n in sorted(reads.items()):
        key = f"find_module_and_diagnose reads options.{a}: recorded by dep_import_options"
        if a in written:
            r5.ok(key, fmd.loc(n))
        else:
            r5.violation(key, fmd.loc(n), f"the decision to follow/suppress an import depends on the target's `{a}`, but dep_import_options does not encode it: changing it for a suppressed dependency leaves the importer 'fresh' with the old suppression")
    # the value stored and the value compared come from the same method
    st = ix.cls("mypy.build.State")
    sdo = st.methods.get("suppressed_deps_opts")
    if sdo is None:
        raise AnalysisError("State.suppressed_deps_opts vanished")
    uses_table = any(isinstance(c, ast.Call) and isinstance(c.func, ast.Name) and c.func.id.startswith("write_") and any("import_options[" in norm(a) for a in c.args) for c in ast.walk(sdo.node))
    stores = []
    for q, f in ix.functions.items():
        if f.parent is not None or f.module.name != "mypy.build":
            continue
        for a in ast.walk(f.node):
            if isinstance(a, ast.Assign) and isinstance(a.targets[0], ast.Subscript) and isinstance(a.targets[0].value, ast.Attribute) and a.targets[0].value.attr == "import_options":
                stores.append((f, a))
    bad = [(f, a) for f, a in stores if not (isinstance(a.value, ast.Call) and isinstance(a.value.func, ast.Attribute) and a.value.func.attr == "dep_import_options")]
    key = "State.suppressed_deps_opts records manager.import_options[dep], which only ever holds dep_import_options() of the dependency's options"
    if uses_table and stores and not bad:
        r5.ok(key, sdo.loc(), f"{len(stores)} store sites")
    else:
        r5.violation(key, (bad[0][0].loc(bad[0][1]) if bad else sdo.loc()), "the recorded import options of suppressed dependencies no longer come from Options.dep_import_options")


CLONE_MACHINERY = {"_per_module_cache", "_glob_options", "_unused_configs"}

OPTION_WRITERS = {
    "mypy.options": "the Options class itself",
    "mypy.main": "command-line processing, before the build starts",
    "mypy.config_parser": "config-file processing, before the build starts",
    "mypy.dmypy_server": "daemon start-up adjustments in Server.__init__, before the first build",
    "mypy.stubgen": "separate tool building its own Options",
    "mypy.stubtest": "separate tool building its own Options",
    "mypy.inspections": "export_types toggled around a daemon inspection (not read by the cached computation; keyed as PER_MODULE? no: exempted in R09.1 as daemon-only)",
    "mypy.suggestions": "export_types toggled around a daemon suggestion",
}


def run_option_writers(chk: Check, ix, R) -> None:
    """R09.6: nothing inside the build writes attributes of Options objects."""
    r6 = chk.rule("R09.6", "attributes of Options objects are assigned only by the option-processing layer (options.py, main.py, config_parser.py, daemon start-up, the separate tools): per-module Options objects are shared between modules and copied wholesale by apply_changes, so a value written (or memoised) on one from inside the build leaks into other modules and into clones made later, and with it into or out of the cache key", floor=100)
    n_build = 0
    for q, f in sorted(ix.functions.items()):
        mn = f.module.name
        if f.parent is not None or not mn.startswith("mypy.") or ".test" in mn:
            continue
        env = None
        for n in ast.walk(f.node):
            tg = []
            if isinstance(n, ast.Assign):
                tg = n.targets
            elif isinstance(n, (ast.AugAssign, ast.AnnAssign)):
                tg = [n.target]
            for t in tg:
                if not isinstance(t, ast.Attribute):
                    continue
                if env is None:
                    env = R.env(f)
                ty = R.type_of(t.value, f, env)
                if not any(x[0] == "cls" and x[1] == OPTIONS for x in members(ty)):
                    continue
                key = f"{q}: {norm(t)} = ..."
                if mn in OPTION_WRITERS:
                    r6.ok(key, f.loc(n), OPTION_WRITERS[mn])
                else:
                    n_build += 1
                    r6.violation(key, f.loc(n), f"`{norm(t)}` is assigned on an Options object from {mn}, inside the build: Options.apply_changes copies every attribute of the parent into per-module clones and clones are shared between modules, so the value is seen by (or inherited into) modules it was not computed for — e.g. a memoised cache-key digest of the parent options then stands for a module whose section changes options")

    # private (derived / memo) state on Options must not survive apply_changes
    oc = ix.cls(OPTIONS)
    init = oc.methods["__init__"]
    ac = oc.methods["apply_changes"]
    reset = {t.attr for a in ast.walk(ac.node) if isinstance(a, (ast.Assign, ast.AnnAssign)) for t in (a.targets if isinstance(a, ast.Assign) else [a.target]) if isinstance(t, ast.Attribute) and isinstance(t.value, ast.Name) and t.value.id != "self"}
    priv = sorted({t.attr for a in ast.walk(init.node) if isinstance(a, (ast.Assign, ast.AnnAssign)) for t in (a.targets if isinstance(a, ast.Assign) else [a.target]) if isinstance(t, ast.Attribute) and norm(t.value) == "self" and t.attr.startswith("_")})
    for a in priv:
        key = f"Options.{a}: private state does not leak into per-module clones"
        if a in CLONE_MACHINERY:
            r6.ok(key, init.loc(), "clone-cache machinery of the top-level object; clones never call clone_for_module")
        elif a in reset:
            r6.ok(key, ac.loc(), "re-initialised by apply_changes")
        else:
            r6.violation(key, init.loc(), f"`{a}` is private derived state of an Options object; apply_changes copies every attribute of the parent (replace_object_state) and does not reset it, so a clone whose section changes options still carries the parent's value")


def run_chained_plugin_data(chk: Check, ix) -> None:
    """R09.7: what several plugins contribute to the cache validity data is combined, not short-circuited."""
    r7 = chk.rule("R09.7", "ChainedPlugin (the one plugin object a build talks to when several plugins are configured) answers hook lookups with the first plugin that has a hook, but the methods that *collect* data for the cache — report_config_data (stored as CacheMeta.plugin_data and compared by find_cache_meta) and get_additional_deps — consult every plugin on every path: no return or break inside a loop over self._plugins, and the result is built from all of them; with a first-one-wins answer the configuration of a later plugin is not part of the cache key and changing it leaves every module fresh", floor=2)
    cp = ix.cls("mypy.plugin.ChainedPlugin")
    for name in ("report_config_data", "get_additional_deps"):
        f = cp.methods.get(name)
        if f is None:
            raise AnalysisError(f"ChainedPlugin.{name} not found")
        par = f.module.parents()
        over = [n for n in ast.walk(f.node) if (isinstance(n, ast.For) and norm(n.iter) == "self._plugins") or (isinstance(n, ast.comprehension) and norm(n.iter) == "self._plugins")]
        key = f"ChainedPlugin.{name} consults every plugin"
        if not over:
            r7.violation(key, f.loc(), "no iteration over self._plugins: the plugins' data is not collected at all")
            continue
        early = []
        for lp in over:
            if isinstance(lp, ast.For):
                for x in ast.walk(lp):
                    if isinstance(x, (ast.Return, ast.Break)):
                        early.append(x)
        if early:
            r7.violation(key, f.loc(early[0]), f"`{norm(early[0])[:50]}` inside the loop over self._plugins: the first plugin with something to report ends the collection, what the remaining plugins report never reaches the cache meta (their configuration can change without invalidating anything)")
        else:
            r7.ok(key, f.loc(over[0] if isinstance(over[0], ast.For) else f.node))


def run_plugin_data_in_interface_hash(chk: Check, ix) -> None:
    """R09.8: a module's plugin configuration data reaches its importers through the interface hash."""
    r8 = chk.rule("R09.8", "a plugin's report_config_data(module) is compared per module in find_cache_meta (the module itself becomes stale) but plugin hooks run in the *importers* of the module the data is about, and importers are re-checked only when the interface hash of a dependency changes: build.write_cache therefore hashes the plugin data together with the serialized tree into interface_hash, and stores the same value in the meta", floor=2)
    wc = ix.func("mypy.build.write_cache")
    pd = [a for a in ast.walk(wc.node) if isinstance(a, ast.Assign) and norm(a.targets[0]) == "plugin_data" and "report_config_data" in norm(a.value)]
    ih = [a for a in ast.walk(wc.node) if isinstance(a, ast.Assign) and norm(a.targets[0]) == "interface_hash"]
    if not pd or not ih:
        raise AnalysisError(f"write_cache: plugin_data assignments {len(pd)}, interface_hash assignments {len(ih)}")
    key = "write_cache: interface_hash covers the module's plugin configuration data"
    names = {x.id for a in ih for x in ast.walk(a.value) if isinstance(x, ast.Name)}
    if "plugin_data" in names and ({"data_bytes", "data"} & names):
        r8.ok(key, wc.loc(ih[0]))
    else:
        r8.violation(key, wc.loc(ih[0]), f"interface_hash is computed from {sorted(names - {'hash_digest_bytes', 'json_dumps'})} only: when a plugin's per-module setting changes, the module is re-checked but keeps its interface hash (hooks leave its own tree unchanged), its importers stay fresh and replay diagnostics computed with the old setting")
    metas = [c for c in ast.walk(wc.node) if isinstance(c, ast.Call) and call_name(c) == "CacheMeta"]
    key2 = "write_cache: the meta stores the plugin data that was hashed"
    ok2 = any(k.arg == "plugin_data" and norm(k.value) == "plugin_data" for c in metas for k in c.keywords)
    if ok2:
        r8.ok(key2, wc.loc(metas[0]))
    else:
        r8.violation(key2, wc.loc(), "CacheMeta is built without plugin_data=plugin_data: find_cache_meta cannot notice a changed plugin configuration")


def run_shadowed_files_read_consistently(chk: Check, ix) -> None:
    """R09.9: with --shadow-file, what is stat'ed, read and hashed for a module is the same file."""
    r9 = chk.rule("R09.9", "--shadow-file SOURCE SHADOW makes mypy read SHADOW where it would read SOURCE; BuildManager.get_stat() applies the mapping (maybe_swap_for_shadow_path) and the cache record stores size, mtime and hash of what was read. In build.py every `fscache.read(p)` / `fscache.hash_digest(p)` of a module's source takes a `p` that went through maybe_swap_for_shadow_path (directly or through one local assignment): otherwise a run that adds or removes the option compares the stat of one file with the hash of the other and replays the wrong file's result", floor=3)
    b = ix.module("mypy.build")
    n = 0
    for f in list(b.functions.values()) + [mm for c in b.classes.values() for mm in c.methods.values()]:
        if f.name in ("maybe_swap_for_shadow_path", "get_stat"):
            continue
        mapped = set()
        for a in ast.walk(f.node):
            if isinstance(a, ast.Assign) and len(a.targets) == 1 and isinstance(a.targets[0], ast.Name) and isinstance(a.value, ast.Call) and call_name(a.value) == "maybe_swap_for_shadow_path":
                mapped.add(a.targets[0].id)
        for c in ast.walk(f.node):
            if not (isinstance(c, ast.Call) and isinstance(c.func, ast.Attribute) and c.func.attr in ("read", "hash_digest") and norm(c.func.value).endswith("fscache") and c.args):
                continue
            n += 1
            a0 = c.args[0]
            key = f"build.{f.name}: fscache.{c.func.attr}({norm(a0)[:30]}) reads the file the shadow mapping selects"
            ok = (isinstance(a0, ast.Name) and a0.id in mapped) or (isinstance(a0, ast.Call) and call_name(a0) == "maybe_swap_for_shadow_path")
            if ok:
                r9.ok(key, f.loc(c))
            else:
                r9.violation(key, f.loc(c), f"`{norm(c)[:70]}` uses a path that has not been through maybe_swap_for_shadow_path while get_stat() in the same comparison has: with a shadow file of the same size, adding --shadow-file on an existing cache finds size and hash unchanged and the original file's diagnostics are replayed")
    if n < 3:
        raise AnalysisError(f"build.py: only {n} fscache.read / hash_digest calls found")
