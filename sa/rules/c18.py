"""C18 — files and module names map to each other consistently (small partial).

Only the "mypy stops with a duplicate-module error" half of the statement has a shape in the code:

R18.1  graph insertion discipline in build.load_graph: every `graph[<state>.id] = <state>` is
       preceded, on every path, by the test that would detect a clash — for command-line sources
       `st.id in graph` (two files mapping to one module name), for followed imports the
       `dep not in graph` guard plus the `seen_files` test on the absolute path (one file reached
       under two module names) — the clash branch ends in errors.raise_error(), the error is a
       blocker, and the path of every inserted file is recorded in seen_files.
R18.2  one table of source suffixes: find_sources derives its suffix tuple from
       modulefinder.PYTHON_EXTENSIONS, which lists the stub suffix first (a stub beside a source
       wins in both directions), and both sides spell the package marker `__init__`.

That the name assigned to a file equals the name under which an import resolves to it is a relation
between the results of two algorithms over all directory layouts and is not decided.
"""

from __future__ import annotations

import ast

from ..cfg import CFG, call_name
from ..index import AnalysisError, get_index, norm
from ..report import Check


def run(chk: Check) -> None:
    ix = get_index()
    run_crawl_order(chk, ix)
    run_abspath_normalised(chk, ix)
    run_verify_module_is_universal(chk, ix)
    run_stem_claimed_by_sources_only(chk, ix)
    run_explicit_bases_cover_search_roots(chk, ix)
    r1 = chk.rule("R18.1", "load_graph: every insertion of a State into the graph is dominated by the duplicate test for its kind (module id already in graph / file already seen under another id), whose clash branch reports a blocker and raises", floor=5)
    lg = ix.func("mypy.build.load_graph")
    g = CFG(lg.node)
    ins = [n for n in g.nodes if n.kind == "stmt" and isinstance(n.stmt, ast.Assign) and isinstance(n.stmt.targets[0], ast.Subscript) and norm(n.stmt.targets[0].value) == "graph" and norm(n.stmt.targets[0].slice).endswith(".id")]
    if len(ins) < 2:
        raise AnalysisError(f"load_graph: only {len(ins)} graph insertion sites found")
    raises = [n for n in g.nodes if any(call_name(c) == "raise_error" for c in n.calls())]

    def clash_test(pred):
        return [t for t in g.nodes if t.kind == "test" and pred(norm(t.exprs[0]))]

    for n in ins:
        var = norm(n.stmt.value)
        key = f"graph[{var}.id] = {var}"
        id_tests = clash_test(lambda t, v=var: t == f"{v}.id in graph")
        notin_tests = clash_test(lambda t: t.endswith("not in graph") and not t.startswith("not "))
        if id_tests and g.must_pass(g.entry, [n], id_tests, labels_excluded=("exc",)):
            t = id_tests[0]
            tsucc = [m for m, lab in t.succ if lab == "true"]
            reach = g.reachable(tsucc, labels_excluded=("exc",))
            stops = any(r in reach for r in raises) and n not in g.reachable(tsucc, avoiding=raises, labels_excluded=("exc",))
            before_raise = g.reachable(tsucc, avoiding=raises, labels_excluded=("exc",))
            blocker = any(isinstance(c, ast.Call) and call_name(c) == "error" and any(k.arg == "blocker" and isinstance(k.value, ast.Constant) and k.value.value is True for k in c.keywords) for x in before_raise if x.stmt is not None for c in x.calls())
            if stops and blocker:
                r1.ok(f"{key}: `{var}.id in graph` => blocker 'Duplicate module' and raise, before inserting", lg.loc(n.stmt))
            else:
                r1.violation(f"{key}: `{var}.id in graph` => blocker 'Duplicate module' and raise, before inserting", lg.loc(t.stmt), "two command-line files that map to the same module name no longer stop the run: the second silently replaces the first in the graph")
        elif notin_tests and any(g.must_pass(g.entry, [n], [t], labels_excluded=("exc",)) and n not in g.reachable([m for m, lab in t.succ if lab == "false"], avoiding=[t], labels_excluded=("exc",)) for t in notin_tests):
            r1.ok(f"{key}: only under `dep not in graph`", lg.loc(n.stmt))
            seen_tests = [t for t in g.nodes if t.kind == "test" and isinstance(t.exprs[0], ast.Compare) and len(t.exprs[0].ops) == 1 and isinstance(t.exprs[0].ops[0], ast.In) and norm(t.exprs[0].comparators[0]) == "seen_files"]
            key2 = f"{key}: a file already seen under another module id => blocker and raise"
            ok2 = False
            for t in seen_tests:
                tsucc = [m for m, lab in t.succ if lab == "true"]
                pre = g.reachable(tsucc, avoiding=raises, labels_excluded=("exc",))
                is_blocker = any(isinstance(c, ast.Call) and call_name(c) == "error" and any(k.arg == "blocker" and isinstance(k.value, ast.Constant) and k.value.value is True for k in c.keywords) for x in pre if x.stmt is not None for c in x.calls())
                if is_blocker and n not in pre and any(r in g.reachable(tsucc, labels_excluded=("exc",)) for r in raises):
                    # every path on which the state has a path goes through the test
                    path_tests = [p for p in g.nodes if p.kind == "test" and norm(p.exprs[0]) == f"{var}.path"]
                    if path_tests and all(g.must_pass([m for m, lab in p.succ if lab == "true"][0], [n], [t], labels_excluded=("exc",)) for p in path_tests):
                        ok2 = True
            if ok2:
                r1.ok(key2, lg.loc(n.stmt))
            else:
                r1.violation(key2, lg.loc(n.stmt), "a file reached through imports under a second module name is inserted without the seen_files test: the same file is checked twice under two names instead of stopping with 'Source file found twice under different module names'")
            rec = [x for x in g.nodes if x.kind == "stmt" and isinstance(x.stmt, ast.Assign) and norm(x.stmt.targets[0]).startswith("seen_files[") and norm(x.stmt.value) == var]
            if rec and all(g.must_pass(p_, [n], rec, labels_excluded=("exc",)) for p in [p for p in g.nodes if p.kind == "test" and norm(p.exprs[0]) == f"{var}.path"] for p_ in [m for m, lab in p.succ if lab == "true"]):
                r1.ok(f"{key}: the file's absolute path is recorded in seen_files", lg.loc(rec[0].stmt))
            else:
                r1.violation(f"{key}: the file's absolute path is recorded in seen_files", lg.loc(n.stmt), "later imports of the same file under another name are not detected")
        else:
            r1.violation(f"{key}: dominated by a duplicate test", lg.loc(n.stmt), "a State is inserted into the graph without checking whether its module id is already there")
    seeds = [a for a in ast.walk(lg.node) if isinstance(a, ast.Assign) and norm(a.targets[0]) == "seen_files"]
    if seeds and "abspath" in norm(seeds[0].value) and "graph.values()" in norm(seeds[0].value):
        r1.ok("seen_files starts from the absolute paths of the states already in the graph", lg.loc(seeds[0]))
    else:
        r1.violation("seen_files starts from the absolute paths of the states already in the graph", lg.loc(), "files named on the command line are not part of the seen-files table: importing one of them under another name is not detected")

    r2 = chk.rule("R18.2", "find_sources and modulefinder use one table of source suffixes with the stub suffix first, and the same package marker", floor=3)
    mf = ix.module("mypy.modulefinder")
    fs = ix.module("mypy.find_sources")
    ext = ix.const_eval(mf, mf.assigns["PYTHON_EXTENSIONS"]) if "PYTHON_EXTENSIONS" in mf.assigns else None
    if ext and list(ext)[0] == ".pyi" and ".py" in ext:
        r2.ok("modulefinder.PYTHON_EXTENSIONS lists '.pyi' before '.py'", f"{mf.relpath}:{mf.assigns['PYTHON_EXTENSIONS'].lineno}")
    else:
        r2.violation("modulefinder.PYTHON_EXTENSIONS lists '.pyi' before '.py'", mf.relpath, f"suffix table is {ext}: a source would be preferred over the stub beside it")
    pe = fs.assigns.get("PY_EXTENSIONS")
    r = ix.resolve_name(fs, "PYTHON_EXTENSIONS")
    if pe is not None and "PYTHON_EXTENSIONS" in norm(pe) and r and r[0] == "const" and r[1] is mf:
        r2.ok("find_sources.PY_EXTENSIONS is derived from modulefinder.PYTHON_EXTENSIONS", f"{fs.relpath}:{pe.lineno}")
    else:
        r2.violation("find_sources.PY_EXTENSIONS is derived from modulefinder.PYTHON_EXTENSIONS", fs.relpath, "the two sides no longer share the suffix table: a file found by directory crawling may not be what an import resolves to")
    lits_fs = {x.value for x in ast.walk(fs.tree) if isinstance(x, ast.Constant) and isinstance(x.value, str) and x.value.startswith("__init__")}
    lits_mf = {x.value for x in ast.walk(mf.tree) if isinstance(x, ast.Constant) and isinstance(x.value, str) and x.value.startswith("__init__") and " " not in x.value}
    if "__init__" in lits_fs and "__init__" in lits_mf and not {l for l in (lits_fs | lits_mf) if l not in ("__init__", "__init__.py", "__init__.pyi")}:
        r2.ok("both sides build the package marker from '__init__' + a suffix of the table", fs.relpath)
    else:
        r2.violation("both sides build the package marker from '__init__' + a suffix of the table", fs.relpath, f"package marker literals differ: {sorted(lits_fs)} / {sorted(lits_mf)}")


def run_crawl_order(chk: Check, ix) -> None:
    """R18.3: an explicit package base stops the upward crawl before anything else is looked at."""
    r3 = chk.rule("R18.3", "SourceFinder._crawl_up_helper returns at an explicit package base before it considers the directory's __init__ file or recurses into the parent (imports resolve relative to the bases, so the name assigned to a file must be relative to them too)", floor=1)
    f = ix.func("mypy.find_sources.SourceFinder._crawl_up_helper")
    g = CFG(f.node)
    base_tests = [n for n in g.nodes if n.kind == "test" and "is_explicit_package_base" in norm(n.exprs[0])]
    recs = [n for n in g.nodes if any(call_name(c) in ("crawl_up_dir", "_crawl_up_helper") for c in n.calls())]
    if not base_tests or not recs:
        raise AnalysisError("_crawl_up_helper: explicit-base test or recursion not found")
    t = base_tests[0]
    tsucc = [m for m, lab in t.succ if lab == "true"]
    first = tsucc[0] if tsucc else None
    stops = first is not None and isinstance(first.stmt, ast.Return)
    dominated = all(g.must_pass(g.entry, [r_], [t], labels_excluded=("exc",)) for r_ in recs)
    key = "_crawl_up_helper: the explicit-base test precedes every recursion into the parent directory and returns there"
    if stops and dominated:
        r3.ok(key, f.loc(t.stmt))
    else:
        r3.violation(key, f.loc(t.stmt), "a directory that is an explicit package base can be crawled past (for example when it contains an __init__.py): files below it get a module name that includes the base directory's own name, while imports of them resolve relative to the base - the same file under two names")


def run_abspath_normalised(chk: Check, ix) -> None:
    """R18.4: the key of the found-twice table is a normalised absolute path."""
    r4 = chk.rule("R18.4", "load_graph detects one file reached under two module names by looking State.abspath up in a table of the files seen so far; module-finder paths are normalised, so State.__init__ normalises too: abspath is the path itself when it is absolute, and otherwise a join with the working directory passed through os.path.normpath / abspath / realpath; a plain join leaves `./` and `..` of a command-line spelling in the key, the lookup misses, and `cd x; mypy .` checks the same file twice under two names without the error", floor=3)
    init = ix.func("mypy.build.State.__init__")
    asg = [a for a in ast.walk(init.node) if isinstance(a, ast.Assign) and len(a.targets) == 1 and norm(a.targets[0]) == "self.abspath"]
    if not asg:
        raise AnalysisError("State.__init__ no longer assigns self.abspath")
    from ..cfg import branch_conditions
    par = init.module.parents()
    for a in asg:
        v = a.value
        pos, neg = branch_conditions(par, init.node, a)
        key = f"State.__init__: `{norm(a)[:70]}` is absolute and normalised"
        if isinstance(v, ast.Name):
            if any("isabs" in norm(t) for t in pos):
                r4.ok(key, init.loc(a), "taken as it is only when os.path.isabs(path)")
            else:
                r4.violation(key, init.loc(a), "the path is taken as it is without an isabs test")
        elif isinstance(v, ast.Call) and norm(v.func) in ("os.path.normpath", "os.path.abspath", "os.path.realpath", "normpath", "abspath", "realpath"):
            r4.ok(key, init.loc(a))
        else:
            r4.violation(key, init.loc(a), f"`{norm(v)[:60]}` is not passed through normpath/abspath/realpath: `./a.py` and `../x/a.py` give keys that differ from the module finder's normalised path of the same file, so the found-twice lookup in load_graph misses")
    lg = ix.func("mypy.build.load_graph")
    uses = [s for s in ast.walk(lg.node) if isinstance(s, ast.Subscript) and norm(s.value) == "seen_files"] + [c for c in ast.walk(lg.node) if isinstance(c, ast.Compare) and any(norm(x) == "seen_files" for x in c.comparators)]
    key = "load_graph keys its table of seen files by State.abspath"
    abs_locals = {norm(a.targets[0]) for a in ast.walk(lg.node) if isinstance(a, ast.Assign) and len(a.targets) == 1 and isinstance(a.targets[0], ast.Name) and isinstance(a.value, ast.Attribute) and a.value.attr == "abspath"}
    init_ok = any(isinstance(a, ast.Assign) and norm(a.targets[0]) == "seen_files" and "abspath" in norm(a.value) for a in ast.walk(lg.node))

    def keyed_by_abspath(u: ast.AST) -> bool:
        k = u.slice if isinstance(u, ast.Subscript) else u.left
        return "abspath" in norm(k) or norm(k) in abs_locals
    if uses and init_ok and all(keyed_by_abspath(u) for u in uses):
        r4.ok(key, lg.loc(uses[0]), f"{len(uses)} uses")
    elif uses:
        r4.violation(key, lg.loc(uses[0]), "seen_files is keyed by something other than the normalised absolute path")
    else:
        raise AnalysisError("load_graph: seen_files table not found")


def run_verify_module_is_universal(chk: Check, ix) -> None:
    """R18.5: `every containing package has an __init__` is decided level by level, not from the topmost level that has one."""
    r5 = chk.rule("R18.5", "modulefinder.verify_module (is this file importable under the dotted name without namespace packages?) is a universal statement over the id.count('.') containing directories: it fails as soon as one level lacks an __init__ (a loop over the levels with `return False` under a negated __init__ test, or `all(...)` over them). It is not derived from a maximum over the levels (highest_init_level computes the topmost level that has an __init__ and says nothing about gaps below it): with a gap, `a.b.c` would resolve to a file that the file-to-module direction (crawl_up) calls `c`", floor=1)
    m = ix.module("mypy.modulefinder")
    f = m.functions.get("verify_module")
    if f is None:
        raise AnalysisError("modulefinder.verify_module not found")

    def level_loops(fn):
        return [lp for lp in ast.walk(fn.node) if isinstance(lp, ast.For) and "count" in norm(lp.iter)]

    def universal(fn) -> bool:
        for lp in level_loops(fn):
            for i in ast.walk(lp):
                if isinstance(i, ast.If) and any(isinstance(s, ast.Return) and isinstance(s.value, ast.Constant) and s.value.value is False for s in i.body):
                    t = i.test
                    if isinstance(t, ast.UnaryOp) and isinstance(t.op, ast.Not) and "__init__" in norm(t.operand):
                        return True
        for r in ast.walk(fn.node):
            if isinstance(r, ast.Return) and isinstance(r.value, ast.Call) and call_name(r.value) == "all" and "__init__" in norm(r.value):
                return True
        return False

    def maximum(fn) -> bool:
        for lp in level_loops(fn):
            has_exit = any(isinstance(x, (ast.Return, ast.Break)) for x in ast.walk(lp))
            assigns = [a for i in ast.walk(lp) if isinstance(i, ast.If) for a in i.body if isinstance(a, ast.Assign)]
            if assigns and not has_exit:
                return True
        return False
    key = "verify_module checks every containing package for an __init__"
    if universal(f):
        r5.ok(key, f.loc())
        return
    callees = [m.functions[call_name(c)] for c in ast.walk(f.node) if isinstance(c, ast.Call) and call_name(c) in m.functions and call_name(c) != f.name]
    for g_ in callees:
        if universal(g_):
            r5.ok(key, f.loc(), f"through {g_.name}")
            return
    mx = [g_ for g_ in callees if maximum(g_)]
    if mx:
        r5.violation(key, f.loc(), f"the answer is derived from {mx[0].name}(), which keeps the *highest* level that has an __init__ (an assignment inside the loop over the levels, no early exit): `a/__init__.py` + `a/b/c.py` without `a/b/__init__.py` passes, so with --no-namespace-packages the name a.b.c resolves to a file the crawl maps to module `c` (`Source file found twice under different module names`, and `-p a` silently accepts the import)")
    else:
        raise AnalysisError("verify_module: neither a level-by-level check nor a recognised maximum; the rule cannot classify the new shape")


def run_stem_claimed_by_sources_only(chk: Check, ix) -> None:
    """R18.6: a sub-directory hides the module of the same name only if it contributes sources."""
    from ..cfg import branch_conditions
    r6 = chk.rule("R18.6", "SourceFinder.find_sources_in_dir lets a sub-directory `X/` take precedence over `X.py` / `X.pyi` in the same directory by putting the name into `seen`. It does so only when the recursive walk of the sub-directory returned sources (`if sub_sources:`): a data directory, or one whose Python files are all excluded, must not make directory mode skip `X.py`, which the file list and `-p` would check", floor=1)
    f = ix.func("mypy.find_sources.SourceFinder.find_sources_in_dir")
    par = f.module.parents()
    adds = [c for c in ast.walk(f.node) if isinstance(c, ast.Call) and isinstance(c.func, ast.Attribute) and c.func.attr == "add" and norm(c.func.value) == "seen"]
    dir_adds = []
    for c in adds:
        st = c
        while not isinstance(st, ast.stmt):
            st = par[st]
        pos, neg = branch_conditions(par, f.node, st)
        if any("isdir" in norm(t) for t in pos):
            dir_adds.append((c, st, pos))
    if not dir_adds:
        raise AnalysisError("find_sources_in_dir: `seen.add(<directory name>)` under the isdir test was not found")
    recursive_locals = {norm(a.targets[0]) for a in ast.walk(f.node) if isinstance(a, ast.Assign) and len(a.targets) == 1 and isinstance(a.value, ast.Call) and call_name(a.value) == "find_sources_in_dir"}
    for c, st, pos in dir_adds:
        key = "find_sources_in_dir: a sub-directory claims its stem only when it yielded sources"
        ok = any(isinstance(t, ast.Name) and t.id in recursive_locals for t in pos) or any(isinstance(x, ast.Name) and x.id in recursive_locals for t in pos if "isdir" not in norm(t) for x in ast.walk(t))
        if ok:
            r6.ok(key, f.loc(c))
        else:
            r6.violation(key, f.loc(c), f"`{norm(c)}` is reached for every sub-directory (conditions: {[norm(t)[:50] for t in pos]}): `pkg/fixtures/` holding only data files makes `mypy pkg` skip `pkg/fixtures.py` silently, while `mypy pkg/fixtures.py ...` and `mypy -p pkg` check it")


def run_explicit_bases_cover_search_roots(chk: Check, ix) -> None:
    """R18.7: with --explicit-package-bases, every root the import side searches is a package base for the crawler."""
    r7 = chk.rule("R18.7", "modulefinder.compute_search_paths searches MYPYPATH (mypy_path()), the config file's mypy_path and, always, the current directory for source modules; find_sources.get_explicit_package_bases() gives the crawler the roots at which a directory chain without __init__.py files stops, so the same file gets the same module name from `mypy dir`, `mypy file...` and `-p`. The `roots` expression is evaluated for all four combinations of empty / non-empty MYPYPATH and mypy_path: the result always contains the MYPYPATH entries, the mypy_path entries and the current directory", floor=1)
    f = ix.func("mypy.find_sources.get_explicit_package_bases")
    csp = ix.func("mypy.modulefinder.compute_search_paths")
    if not any(isinstance(c, ast.Call) and norm(c.func) == "os.getcwd" for c in ast.walk(csp.node)) or not any(isinstance(c, ast.Call) and call_name(c) == "mypy_path" for c in ast.walk(csp.node)):
        raise AnalysisError("compute_search_paths no longer searches mypy_path() and os.getcwd(): R18.7 needs re-reading")
    defs = [a.value for a in ast.walk(f.node) if isinstance(a, ast.Assign) and len(a.targets) == 1 and isinstance(a.targets[0], ast.Name) and a.targets[0].id == "roots"]
    if len(defs) != 1:
        raise AnalysisError(f"get_explicit_package_bases: {len(defs)} definitions of `roots` found")

    class NoEval(Exception):
        pass

    def ev(e: ast.expr, env):
        if isinstance(e, ast.Call) and call_name(e) == "mypy_path" and not e.args:
            return list(env["env"])
        if isinstance(e, ast.Attribute) and e.attr == "mypy_path":
            return list(env["cfg"])
        if isinstance(e, ast.Call) and norm(e.func) == "os.getcwd":
            return "<cwd>"
        if isinstance(e, ast.List):
            return [ev(x, env) for x in e.elts]
        if isinstance(e, ast.BinOp) and isinstance(e.op, ast.Add):
            return ev(e.left, env) + ev(e.right, env)
        if isinstance(e, ast.BoolOp):
            v = None
            for x in e.values:
                v = ev(x, env)
                if isinstance(e.op, ast.Or) and v:
                    return v
                if isinstance(e.op, ast.And) and not v:
                    return v
            return v
        if isinstance(e, ast.IfExp):
            return ev(e.body, env) if ev(e.test, env) else ev(e.orelse, env)
        if isinstance(e, ast.Call) and isinstance(e.func, ast.Name) and e.func.id == "list" and len(e.args) == 1:
            return list(ev(e.args[0], env))
        raise NoEval(norm(e)[:60])
    key = "get_explicit_package_bases: the roots contain MYPYPATH, mypy_path and the current directory"
    missing = []
    try:
        for envp in ([], ["<E>"]):
            for cfgp in ([], ["<C>"]):
                got = ev(defs[0], {"env": envp, "cfg": cfgp})
                want = envp + cfgp + ["<cwd>"]
                lack = [w for w in want if w not in got]
                if lack:
                    missing.append(f"MYPYPATH={envp} mypy_path={cfgp}: {lack} missing")
    except NoEval as e:
        raise AnalysisError(f"get_explicit_package_bases: cannot evaluate `{e}` in the roots expression")
    if not missing:
        r7.ok(key, f.loc(defs[0]))
    else:
        r7.violation(key, f.loc(defs[0]), f"`roots = {norm(defs[0])[:80]}`: {'; '.join(missing)}: a file under the working directory in an __init__-less directory is named by its bare stem (`gen`) by the crawler and `tools.gen` by the import side ('Source file found twice under different module names'), while `-p tools` is clean")
