"""C17 — configuration sources are equivalent.

R17.1  every command-line dest is an Options attribute (special-opts dests are consumed by
       process_options).
R17.2  converter completeness: a documented config key resolves to an Options attribute and, when
       that attribute's default is None or a container, has an explicit converter (otherwise
       parse_section rejects it, or applies type(default) — list("a.b") explodes into characters).
R17.3  ini and toml converter tables agree: toml overrides only existing keys; every ini converter
       that string-splits its argument has a toml override (TOML hands over native lists); the
       inversion prefixes honoured by parse_section are the ones main.py generates.
R17.4  per-module agreement between docs and PER_MODULE_OPTIONS; inline `# mypy:` comments are parsed
       by the same parse_section with the ini table.
"""

from __future__ import annotations

import ast
import os
import re

from ..cli import cli_flags, documented_confvals
from ..cfg import call_name
from ..index import AnalysisError, get_index, norm
from ..report import Check
from .c09 import options_attrs


def default_kind(node: ast.AST) -> str:
    """Kind of the default assigned in Options.__init__: none | container | scalar."""
    v = node.value
    ann = node.annotation if isinstance(node, ast.AnnAssign) else None
    if isinstance(v, ast.Constant) and v.value is None:
        return "none"
    if isinstance(v, (ast.List, ast.Set, ast.Dict, ast.Tuple, ast.ListComp, ast.SetComp, ast.DictComp)):
        return "container"
    if isinstance(v, ast.Call) and isinstance(v.func, ast.Name) and v.func.id in ("set", "list", "dict", "tuple", "frozenset", "defaultdict"):
        return "container"
    if ann is not None and re.match(r"(list|set|dict|tuple|frozenset)\[", norm(ann)):
        return "container"
    return "scalar"


def string_splitting(conv: ast.expr) -> bool:
    """Does this ini converter treat its argument as a string to be split/stripped?"""
    if not isinstance(conv, ast.Lambda):
        return isinstance(conv, ast.Name) and conv.id in ("split_commas",)
    arg = conv.args.args[0].arg
    for n in ast.walk(conv.body):
        if isinstance(n, ast.Call):
            f = n.func
            if isinstance(f, ast.Name) and f.id == "split_commas" and any(isinstance(a, ast.Name) and a.id == arg for a in n.args):
                return True
            if isinstance(f, ast.Attribute) and f.attr in ("split", "strip") and isinstance(f.value, ast.Name) and f.value.id == arg:
                return True
            if norm(f) == "re.split" and any(isinstance(a, ast.Name) and a.id == arg for a in n.args):
                return True
    return False


def run(chk: Check) -> None:
    ix = get_index()
    run_section_application(chk, ix)
    run_section_aliasing(chk, ix)
    run_precedence_order(chk, ix)
    run_cli_strict(chk, ix)
    run_replayed_lists_reset(chk, ix)
    run_comma_lists_stripped(chk, ix)
    run_glob_stars_span_components(chk, ix)
    run_sections_inherit_from_parents(chk, ix)
    run_repeated_patterns_move_to_the_end(chk, ix)
    O = options_attrs(ix)
    mopt = ix.module("mypy.options")
    mcfg = ix.module("mypy.config_parser")
    PER_MODULE = set(ix.const_eval(mopt, mopt.assigns["PER_MODULE_OPTIONS"]))
    flags = cli_flags(ix)
    confvals = documented_confvals(ix.root)

    # ---- tables
    ini_e = mcfg.assigns.get("ini_config_types")
    if not isinstance(ini_e, ast.Dict):
        raise AnalysisError("ini_config_types is no longer a dict literal")
    ini = {k.value: v for k, v in zip(ini_e.keys, ini_e.values) if isinstance(k, ast.Constant)}
    if len(ini) != len(ini_e.keys):
        raise AnalysisError("ini_config_types has non-literal keys")
    toml_base = mcfg.assigns.get("toml_config_types")
    if toml_base is None or norm(toml_base) != "ini_config_types.copy()":
        raise AnalysisError("toml_config_types is no longer ini_config_types.copy()")
    toml_over: dict[str, ast.expr] = {}
    n_updates = 0
    for s in mcfg.tree.body:
        if isinstance(s, ast.Expr) and isinstance(s.value, ast.Call) and norm(s.value.func) == "toml_config_types.update":
            n_updates += 1
            d = s.value.args[0]
            if not isinstance(d, ast.Dict):
                raise AnalysisError("toml_config_types.update argument is not a dict literal")
            for k, v in zip(d.keys, d.values):
                if not isinstance(k, ast.Constant):
                    raise AnalysisError("toml override with non-literal key")
                toml_over[k.value] = v
        elif isinstance(s, (ast.Assign, ast.AugAssign, ast.Delete)) and "toml_config_types" in norm(s) and not (isinstance(s, ast.AnnAssign)):
            if not (isinstance(s, ast.Assign) and norm(s.value) == "ini_config_types.copy()"):
                raise AnalysisError(f"unrecognised mutation of toml_config_types: {norm(s)[:60]}")
    if n_updates != 1:
        raise AnalysisError(f"expected one toml_config_types.update(...), found {n_updates}")

    # ---- R17.1
    r1 = chk.rule("R17.1", "every command-line dest is an Options attribute; special-opts dests are consumed by process_options", floor=100)
    po = ix.func("mypy.main.process_options")
    special_reads = set()
    for q, fn in ix.functions.items():
        if fn.module.name != "mypy.main" or fn.parent is not None:
            continue
        for n in ast.walk(fn.node):
            if isinstance(n, ast.Attribute) and norm(n.value) == "special_opts":
                special_reads.add(n.attr)
            elif isinstance(n, ast.Call) and isinstance(n.func, ast.Name) and n.func.id == "getattr" and len(n.args) >= 2 and isinstance(n.args[1], ast.Constant) and str(n.args[1].value).startswith("special-opts:"):
                special_reads.add(n.args[1].value.split(":", 1)[1])
            elif isinstance(n, ast.JoinedStr) and norm(n).startswith("f'special-opts:"):
                special_reads.add("<dynamic>")
    for f in flags:
        key = f"dest {f['dest']} ({f['flags'][0]})"
        where = f"mypy/main.py:{f['lineno']}"
        if f["action"] in ("help", "version") or f["dest"] in ("help", "version"):
            continue
        if f["special"]:
            nm = f["dest"].split(":", 1)[1]
            if nm in special_reads or (nm.endswith("_report") and "<dynamic>" in special_reads):
                r1.ok(key, where, "special-opts dest read in process_options")
            else:
                r1.violation(key, where, "special-opts dest is never read by process_options: the flag is accepted and silently ignored")
        elif f["dest"] in O:
            r1.ok(key, where)
        else:
            r1.violation(key, where, f"dest {f['dest']!r} is not an attribute assigned in Options.__init__")

    # ---- R17.2 / R17.4a
    r2 = chk.rule("R17.2", "each documented config key resolves to an Options attribute (directly, via a converter entry, an inversion prefix or a report type) and has an explicit converter when the attribute's default is None or a container", floor=70)
    ps = ix.func("mypy.config_parser.parse_section")
    ps_src = norm(ps.node)
    handles = {
        "no_": "key.startswith('no_')" in ps_src,
        "allow": "key.startswith('allow')" in ps_src,
        "disallow": "key.startswith('disallow')" in ps_src,
        "show_": "key.startswith('show_')" in ps_src,
        "_report": "key.endswith('_report')" in ps_src,
        "alias": "allow_redefinition_new" in ps_src,
    }
    reporter_names = None
    mdef = ix.module("mypy.defaults")
    if "REPORTER_NAMES" in mdef.assigns:
        reporter_names = set(ix.const_eval(mdef, mdef.assigns["REPORTER_NAMES"]))
    else:
        raise AnalysisError("defaults.REPORTER_NAMES vanished")

    def resolve(key: str):
        """(options attribute | None, how)"""
        ok = key
        if key == "allow_redefinition_new" and handles["alias"]:
            ok = "allow_redefinition"
        if key in ini:
            return (ok if ok in O else key), "converter"
        if ok in O:
            return ok, "attribute"
        if key.endswith("_report") and handles["_report"]:
            if key[:-7].replace("_", "-") in reporter_names:
                return "<report>", "report"
            return None, "unknown report type"
        if key.startswith("no_") and handles["no_"] and key[3:] in O:
            return key[3:], "inverted"
        if key.startswith("allow") and handles["allow"] and "dis" + key in O:
            return "dis" + key, "inverted"
        if key.startswith("disallow") and handles["disallow"] and key[3:] in O:
            return key[3:], "inverted"
        if key.startswith("show_") and handles["show_"] and "hide_" + key[5:] in O:
            return "hide_" + key[5:], "inverted"
        return None, "unrecognised"

    for key, info in sorted(confvals.items()):
        where = f"docs/source/config_file.rst:{info['line']}"
        attr, how = resolve(key)
        k = f"confval {key}"
        if attr is None:
            r2.violation(k, where, f"documented config key is rejected by parse_section ({how})")
            continue
        if how == "converter" or attr == "<report>":
            r2.ok(k, where, how)
            continue
        kind = default_kind(O[attr])
        if how == "inverted":
            if kind != "scalar" or not (isinstance(O[attr].value, ast.Constant) and isinstance(O[attr].value.value, bool)):
                r2.violation(k, where, f"inverted key maps to non-boolean attribute {attr}")
            else:
                r2.ok(k, where, f"inverted -> {attr}")
            continue
        if kind == "none":
            r2.violation(k, where, f"Options.{attr} defaults to None and has no ini_config_types entry: parse_section prints 'Unrecognized option' for this documented key")
        elif kind == "container":
            r2.violation(k, where, f"Options.{attr} defaults to a container and has no ini_config_types entry: parse_section applies type(default) to the raw string (list('a.b') == ['a', '.', 'b'])")
        else:
            r2.ok(k, where, "scalar default; type(default) converts")
    # the same obligation for every visible (non-hidden) command-line flag whose dest is set from config by name
    for f in flags:
        d = f["dest"]
        if f["special"] or f["hidden"] or d not in O or d in confvals:
            continue
        kind = default_kind(O[d])
        k = f"cli dest {d} settable from config"
        where = f"mypy/main.py:{f['lineno']}"
        if d in ini:
            r2.ok(k, where, "converter")
        elif kind == "container":
            r2.violation(k, where, f"Options.{d} (flag {f['flags'][0]}) defaults to a container and has no converter: a config file value is split into characters")
        else:
            r2.ok(k, where, "scalar or rejected")

    # ---- R17.3
    r3 = chk.rule("R17.3", "ini/toml converter tables agree and parse_section inverts exactly the prefixes main.py generates", floor=20)
    for k in sorted(toml_over):
        if k in ini:
            r3.ok(f"toml override {k} has ini entry", "mypy/config_parser.py")
        else:
            r3.violation(f"toml override {k} has ini entry", "mypy/config_parser.py", "toml-only converter: the key behaves differently in mypy.ini")
    for k, conv in sorted(ini.items()):
        if string_splitting(conv):
            if k in toml_over:
                r3.ok(f"string-splitting ini converter {k} overridden for toml", "mypy/config_parser.py")
            else:
                r3.violation(f"string-splitting ini converter {k} overridden for toml", f"mypy/config_parser.py:{conv.lineno}", "TOML delivers a native list; the ini converter calls str methods on it")
    mmain = ix.module("mypy.main")
    pairs = ix.const_eval(mmain, mmain.assigns["flag_prefix_pairs"])
    doc_lines = open(os.path.join(ix.root, "docs", "source", "config_file.rst"), encoding="utf-8").read().splitlines()
    try:
        i0 = doc_lines.index("Inverting option values")
    except ValueError:
        raise AnalysisError("docs section 'Inverting option values' vanished")
    sect = []
    for ln in doc_lines[i0 + 2 :]:
        if re.fullmatch(r"\*{3,}", ln):
            break
        sect.append(ln)
    documented_prefixes = set(re.findall(r"``(\w+?)_?``", " ".join(sect[:-1])))
    chk.extra["documented_inversion_prefixes"] = sorted(documented_prefixes)
    if "no" not in documented_prefixes:
        raise AnalysisError(f"documented inversion prefixes not recognised: {documented_prefixes}")
    for a, b in pairs:
        if a not in documented_prefixes and b not in documented_prefixes:
            r3.info(f"prefix pair {a}/{b}", ps.loc(), "generated by main.py for the command line only; the config-file documentation promises no_ and allow/disallow")
            continue
        # main.py inverts a<->b; parse_section must accept at least the documented swap for each
        # direction whose counterpart is an Options attribute family
        fam_a = [o for o in O if o.startswith(a)]
        fam_b = [o for o in O if o.startswith(b)]
        for pre, other, fam in ((a, b, fam_b), (b, a, fam_a)):
            if not fam:
                continue
            tag = pre if pre in ("allow", "disallow") else pre + "_"
            if handles.get(tag):
                r3.ok(f"prefix {pre}->{other} handled", ps.loc())
            else:
                r3.violation(f"prefix {pre}->{other} handled", ps.loc(), f"main.py inverts --{pre}-X to --{other}-X and Options has {other}* attributes ({fam[0]} ...), but parse_section does not map {pre}* keys", )
    if handles["no_"]:
        r3.ok("prefix no_ handled", ps.loc())
    else:
        r3.violation("prefix no_ handled", ps.loc(), "documented no_ inversion is not implemented")
    inv = ix.func("mypy.main.invert_flag_name")
    if "flag_prefix_map" in norm(inv.node) and "'no'" in norm(inv.node):
        r3.ok("invert_flag_name uses flag_prefix_map and no-", inv.loc())
    else:
        r3.violation("invert_flag_name uses flag_prefix_map and no-", inv.loc(), "inverse flag naming changed")

    # ---- R17.4
    r4 = chk.rule("R17.4", "inline `# mypy:` comments and per-module sections go through parse_section with the ini table; the per-module key check uses PER_MODULE_OPTIONS", floor=2)
    pmc = ix.func("mypy.config_parser.parse_mypy_comments")
    calls = [n for n in ast.walk(pmc.node) if isinstance(n, ast.Call) and norm(n.func) == "parse_section"]
    if calls and all(any(norm(a) == "ini_config_types" for a in c.args) for c in calls):
        r4.ok("parse_mypy_comments -> parse_section(..., ini_config_types)", pmc.loc())
    else:
        r4.violation("parse_mypy_comments -> parse_section(..., ini_config_types)", pmc.loc(), "inline configuration no longer parsed by the shared section parser with the ini converter table")
    pcf = ix.func("mypy.config_parser.parse_config_file")
    src = norm(pcf.node)
    if "PER_MODULE_OPTIONS" in src or "options.PER_MODULE_OPTIONS" in src:
        r4.ok("parse_config_file filters per-module sections by PER_MODULE_OPTIONS", pcf.loc())
    else:
        r4.violation("parse_config_file filters per-module sections by PER_MODULE_OPTIONS", pcf.loc(), "per-module sections are no longer restricted to PER_MODULE_OPTIONS")
    pm_in_comments = "PER_MODULE_OPTIONS" in norm(pmc.node) or any(
        "PER_MODULE_OPTIONS" in norm(f.node) for q, f in ix.functions.items() if q in ("mypy.build.State.apply_inline_configuration",)
    )
    r4.info("inline comments restricted to per-module options", pmc.loc(), f"{pm_in_comments}")
    # documentation agreement (informational unless the doc names a per-module key the code rejects)
    doc = open(os.path.join(ix.root, "docs", "source", "config_file.rst"), encoding="utf-8").read().splitlines()
    global_only = doc_global_only(doc)
    n_doc_global = sum(1 for v in global_only.values() if v)
    if n_doc_global < 20:
        raise AnalysisError(f"only {n_doc_global} confvals detected as global-only in the docs; the doc idiom changed")
    chk.extra["doc_global_only"] = n_doc_global
    r5 = chk.rule("R17.5", "(informational, never a verdict: wording of the docs is not behaviour) per-module status of each documented key in docs vs PER_MODULE_OPTIONS", floor=0)
    for key in sorted(confvals):
        attr, how = resolve(key)
        if attr is None or attr == "<report>":
            continue
        attr2 = {"disable_error_code": "disable_error_code", "enable_error_code": "enable_error_code"}.get(attr, attr)
        k = f"per-module status of {key}"
        where = f"docs/source/config_file.rst:{confvals[key]['line']}"
        if global_only.get(key):
            if attr2 in PER_MODULE:
                r5.info(k, where, "DOC-DELTA: documented as global-only but accepted per module (PER_MODULE_OPTIONS)")
            else:
                r5.info(k, where, "global-only in docs and code")
        else:
            if attr2 in PER_MODULE:
                r5.info(k, where, "per-module in docs and code")
            else:
                r5.info(k, where, f"DOC-DELTA: documented without the global-only restriction, but Options.{attr2} is not in PER_MODULE_OPTIONS (a per-module section setting it is rejected with a message)")


def doc_global_only(lines: list[str]) -> dict[str, bool]:
    """confval -> documented as settable only in [mypy] (own text or its section's intro)."""
    out: dict[str, bool] = {}
    section_global = False
    cur = None
    i = 0
    n = len(lines)
    while i < n:
        line = lines[i]
        if i + 1 < n and re.fullmatch(r"\*{3,}", lines[i + 1]) and line.strip():
            # new section: scan its intro up to the first confval
            section_global = False
            j = i + 2
            while j < n and not lines[j].startswith(".. confval::") and not (j + 1 < n and re.fullmatch(r"\*{3,}", lines[j + 1])):
                if "may only be set in the global section" in lines[j]:
                    section_global = True
                j += 1
            cur = None
        m = re.match(r"\.\. confval:: (\S+)", line)
        if m:
            cur = m.group(1)
            out[cur] = section_global
        elif cur and "may only be set in the global section" in line:
            out[cur] = True
        i += 1
    return out


def run_section_application(chk: Check, ix) -> None:
    """R17.6: each config section is applied on its own through apply_changes."""
    r6 = chk.rule("R17.6", "every per-module section's settings reach an Options object as the sole argument of its own apply_changes call (apply_changes accumulates enable/disable_error_code onto the inherited sets, so merging section dicts first is not equivalent), and inside clone_for_module the unstructured sections are applied in a loop over _glob_options in file order", floor=2)
    n = 0
    for q, f in sorted(ix.functions.items()):
        if f.parent is not None or not f.module.name.startswith("mypy.") or ".test" in f.module.name:
            continue
        par = None
        for sub in ast.walk(f.node):
            if isinstance(sub, ast.Subscript) and isinstance(sub.ctx, ast.Load) and isinstance(sub.value, ast.Attribute) and sub.value.attr == "per_module_options":
                par = par or f.module.parents()
                p_ = par.get(sub)
                n += 1
                key = f"{q}: {norm(sub)} is applied by its own apply_changes call"
                if isinstance(p_, ast.Call) and isinstance(p_.func, ast.Attribute) and p_.func.attr == "apply_changes" and p_.args and p_.args[0] is sub and len(p_.args) == 1:
                    r6.ok(key, f.loc(sub))
                else:
                    r6.violation(key, f.loc(sub), f"a section's settings dict is used as `{norm(p_)[:70]}` instead of being handed to apply_changes by itself: merged dicts lose the accumulating effect of enable_error_code / disable_error_code (parse_section stores an empty list for every section, which then overwrites an earlier section's list)")
    if n < 2:
        raise AnalysisError(f"only {n} reads of per_module_options[...] found")
    cfm = ix.func("mypy.options.Options.clone_for_module")
    loops = [l for l in ast.walk(cfm.node) if isinstance(l, ast.For) and "_glob_options" in norm(l.iter)]
    ok = bool(loops) and any(isinstance(c, ast.Call) and isinstance(c.func, ast.Attribute) and c.func.attr == "apply_changes" for l in loops for c in ast.walk(l))
    if ok:
        r6.ok("clone_for_module applies each matching unstructured section inside the loop over _glob_options", cfm.loc(loops[0]))
    else:
        r6.violation("clone_for_module applies each matching unstructured section inside the loop over _glob_options", cfm.loc(), "matching unstructured sections are no longer applied one after the other in file order")


def run_section_aliasing(chk: Check, ix) -> None:
    """R17.7: per-module settings dicts are not shared between modules."""
    r7 = chk.rule("R17.7", "where the config parser stores a settings dict per module/section key inside a loop and later updates stored dicts in place, the stored object is created afresh in every iteration (copy / dict display / comprehension inside the loop body): one shared dict would let a later section written for one module change the settings of the others", floor=1)
    m = ix.module("mypy.config_parser")
    par = m.parents()
    n = 0
    for q, f in sorted(ix.functions.items()):
        if f.module is not m or f.parent is not None:
            continue
        stores = [a for a in ast.walk(f.node) if isinstance(a, ast.Assign) and isinstance(a.targets[0], ast.Subscript) and isinstance(a.targets[0].value, ast.Name) and isinstance(a.value, ast.Name)]
        for st in stores:
            d = st.targets[0].value.id
            inplace = [a for a in ast.walk(f.node) if isinstance(a, (ast.Assign, ast.AugAssign)) and isinstance((a.targets[0] if isinstance(a, ast.Assign) else a.target), ast.Subscript) and isinstance((a.targets[0] if isinstance(a, ast.Assign) else a.target).value, ast.Subscript) and norm((a.targets[0] if isinstance(a, ast.Assign) else a.target).value.value) == d]
            inplace += [c for c in ast.walk(f.node) if isinstance(c, ast.Call) and isinstance(c.func, ast.Attribute) and c.func.attr in ("update", "setdefault", "pop") and isinstance(c.func.value, ast.Subscript) and norm(c.func.value.value) == d]
            loop = par.get(st)
            while loop is not None and not isinstance(loop, ast.For):
                loop = par.get(loop) if loop is not f.node else None
            if not inplace or loop is None:
                continue
            n += 1
            v = st.value.id
            defs = [a for a in ast.walk(f.node) if isinstance(a, ast.Assign) and norm(a.targets[0]) == v]
            fresh = bool(defs) and all(any(a is x for x in ast.walk(loop)) and (isinstance(a.value, (ast.Dict, ast.DictComp)) or (isinstance(a.value, ast.Call) and (call_name_(a.value) in ("copy", "dict", "deepcopy")))) for a in defs)
            key = f"{q}: `{d}[...] = {v}` stores a dict made in the same loop iteration"
            if fresh:
                r7.ok(key, f.loc(st))
            else:
                r7.violation(key, f.loc(st), f"`{v}` is created outside the `for {norm(loop.target)} in {norm(loop.iter)}` loop (or is not a fresh copy), so every key written in the loop refers to the same dict; `{d}[...]` entries are later updated in place, and an update meant for one module then changes the others too")
    if n < 1:
        raise AnalysisError("no per-key stored-and-later-updated settings dict found in config_parser (expected destructure_overrides)")


def call_name_(c: ast.Call):
    return c.func.id if isinstance(c.func, ast.Name) else (c.func.attr if isinstance(c.func, ast.Attribute) else None)


def run_precedence_order(chk: Check, ix) -> None:
    """R17.8: the places where one configuration source is applied over another keep their order."""
    from ..cfg import CFG, call_name
    from ..pattern import has
    r8 = chk.rule("R17.8", "precedence by construction: the config file is parsed into the Options object before the command line is parsed over it; per-module resolution applies structured sections before unstructured ones and wildcards before concrete names; inline `# mypy:` comments are applied on top of the per-module clone (apply_changes on self.options)", floor=4)
    po = ix.func("mypy.main.process_options")
    g = CFG(po.node)
    cfgp = [n for n in g.nodes if any(call_name(c) == "parse_config_file" for c in n.calls())]
    finals = [n for n in g.nodes if any(call_name(c) == "parse_args" and any(isinstance(a, ast.Call) and call_name(a) == "SplitNamespace" for a in c.args) for c in n.calls())]
    if not cfgp or not finals:
        raise AnalysisError("process_options: parse_config_file / final parse_args not found")
    key = "process_options: parse_config_file(options, ...) runs before parser.parse_args(args, SplitNamespace(options, ...))"
    if all(g.must_pass(g.entry, [f_], cfgp, labels_excluded=("exc",)) for f_ in finals) and not any(c in g.reachable(finals, labels_excluded=("exc",)) for c in cfgp):
        r8.ok(key, po.loc(finals[0].stmt))
    else:
        r8.violation(key, po.loc(finals[0].stmt), "the command line is no longer parsed over the values read from the config file: a config-file global can override an explicit flag")
    cfm = ix.func("mypy.options.Options.clone_for_module")
    loops = [l for l in cfm.node.body if isinstance(l, ast.For) or (isinstance(l, ast.If) and any(isinstance(x, ast.For) for x in ast.walk(l)))]
    struct = [i for i, st in enumerate(cfm.node.body) if any(isinstance(x, ast.Subscript) and "_per_module_cache" in norm(x.value) for x in ast.walk(st)) and isinstance(st, ast.For)]
    unstr = [i for i, st in enumerate(cfm.node.body) if any("_glob_options" in norm(x) for x in ast.walk(st) if isinstance(x, ast.Attribute))]
    key = "clone_for_module: structured wildcard lookup first, unstructured glob sections applied on top of it"
    if struct and unstr and max(struct) < min(unstr):
        r8.ok(key, cfm.loc(cfm.node.body[min(unstr)]))
    else:
        r8.violation(key, cfm.loc(), "unstructured sections are no longer applied after (on top of) the structured wildcard result: the documented precedence between `foo.*` and `*.bar` sections is reversed or lost")
    bpc = ix.func("mypy.options.Options.build_per_module_cache")
    key = "build_per_module_cache: wildcards (sorted, so `foo.*` before `foo.bar.*`) are processed before concrete sections"
    if has(bpc.node, "$w = sorted(($k for $k in $sk if $k.endswith('.*')))") and any(isinstance(l, ast.For) and norm(l.iter).replace(" ", "") in ("wildcards+concrete",) for l in ast.walk(bpc.node)):
        r8.ok(key, bpc.loc())
    else:
        r8.violation(key, bpc.loc(), "the processing order of structured sections changed: a less specific wildcard may now override a more specific one or a concrete section")
    aic = ix.func("mypy.build.State.apply_inline_configuration")
    key = "apply_inline_configuration: inline settings are applied onto the module's own (already per-module) options"
    if has(aic.node, "$c, $e = parse_mypy_comments(flags, self.options)", "self.options = self.options.apply_changes($c)"):
        r8.ok(key, aic.loc())
    else:
        r8.violation(key, aic.loc(), "inline `# mypy:` settings are no longer applied on top of the per-module options of this file")


def run_cli_strict(chk: Check, ix) -> None:
    """R17.9: the command line's --strict is applied whatever the config file said."""
    from ..cfg import CFG, call_name, branch_conditions
    r9 = chk.rule("R17.9", "process_options applies the command line's --strict (set_strict_flags) after the config file was read and before the command line is parsed over the options, on a condition that consults only the namespace of the first command-line parse: a condition that also consults what the config file did (the options object, a variable written by the callback handed to parse_config_file) lets a config-file value win over the command line", floor=3)
    po = ix.func("mypy.main.process_options")
    par = po.module.parents()
    g = CFG(po.node)
    # the callback handed to parse_config_file and the names it writes in the enclosing scope
    cfg_calls = [c for c in ast.walk(po.node) if isinstance(c, ast.Call) and call_name(c) == "parse_config_file"]
    if not cfg_calls:
        raise AnalysisError("process_options: parse_config_file call not found")
    nested = {n.name: n for n in ast.walk(po.node) if isinstance(n, ast.FunctionDef) and n is not po.node}
    cb = [a.id for a in cfg_calls[0].args if isinstance(a, ast.Name) and a.id in nested]
    if not cb:
        raise AnalysisError("process_options: no local callback is handed to parse_config_file")
    cbn = cb[0]
    tainted = {norm(cfg_calls[0].args[0])} if cfg_calls[0].args else set()
    for n in ast.walk(nested[cbn]):
        if isinstance(n, ast.Nonlocal):
            tainted |= set(n.names)
    # the namespace of the first parse
    first = [st for st in po.node.body if isinstance(st, ast.Expr) and isinstance(st.value, ast.Call) and call_name(st.value) == "parse_args" and len(st.value.args) == 2 and isinstance(st.value.args[1], ast.Name)]
    if not first:
        raise AnalysisError("process_options: the first parse_args(args, <namespace>) was not found")
    ns = first[0].value.args[1].id
    r9.ok(f"the first parse fills `{ns}`; the config phase can write {sorted(tainted)}", po.loc(first[0]))
    direct = [c for c in ast.walk(po.node) if isinstance(c, ast.Call) and isinstance(c.func, ast.Name) and c.func.id == cbn and not any(c is x for x in ast.walk(nested[cbn]))]
    key = "the command-line strict step exists between the config file and the final parse"
    cfgn = [n for n in g.nodes if any(c is cfg_calls[0] for c in n.calls())]
    if not direct:
        r9.violation(key, po.loc(cfg_calls[0]), f"{cbn}() is never called for the command line: --strict on the command line has no effect")
        return
    dn = [n for n in g.nodes if any(c is direct[0] for c in n.calls())]
    if cfgn and dn and dn[0] in g.reachable(cfgn, labels_excluded=("exc",)) and cfgn[0] not in g.reachable(dn, labels_excluded=("exc",)):
        r9.ok(key, po.loc(direct[0]))
    else:
        r9.violation(key, po.loc(direct[0]), "the command-line strict step runs before the config file is read: explicit config-file keys then override --strict")
    finals = [n for n in g.nodes if any(call_name(c) == "parse_args" and any(isinstance(a, ast.Call) and call_name(a) == "SplitNamespace" for a in c.args) for c in n.calls())]
    key = "the command-line strict step runs before the command line is parsed over the options"
    if finals and dn and finals[0] in g.reachable(dn, labels_excluded=("exc",)) and dn[0] not in g.reachable(finals, labels_excluded=("exc",)):
        r9.ok(key, po.loc(direct[0]))
    else:
        r9.violation(key, po.loc(direct[0]), "--strict is applied after the explicit command-line flags were stored: `--strict --allow-untyped-defs` can no longer relax a strict flag")
    for c in direct:
        st = c
        while not isinstance(st, ast.stmt):
            st = par[st]
        pos, neg = branch_conditions(par, po.node, st, early_exits=True)
        names: set[str] = set()
        for t in pos + neg:
            names |= {n.id for n in ast.walk(t) if isinstance(n, ast.Name)}
        # a test on a local stands for what the local was computed from
        grow = True
        while grow:
            grow = False
            for a in po.node.body:
                if isinstance(a, ast.Assign) and any(isinstance(t, ast.Name) and t.id in names for t in a.targets):
                    more = {n.id for n in ast.walk(a.value) if isinstance(n, ast.Name)} - names
                    if more:
                        names |= more
                        grow = True
        key = f"{cbn}() for the command line is conditional only on the command-line namespace `{ns}`"
        bad = sorted(names & tainted)
        if bad:
            r9.violation(key, po.loc(c), f"the condition consults {bad}, which the config file phase writes: with strict already set by the config file (and a strict flag relaxed by an explicit key of the same section) the command line's --strict is skipped and the config value wins")
        elif ns not in names:
            r9.violation(key, po.loc(c), f"the condition does not consult `{ns}`: strict flags are set (or not) regardless of the command line")
        elif neg:
            r9.violation(key, po.loc(c), f"the step is taken when `{norm(neg[0])}` is false")
        else:
            r9.ok(key, po.loc(c), "guard: " + " and ".join(norm(t) for t in pos))


def run_replayed_lists_reset(chk: Check, ix) -> None:
    """R17.10: a list option that apply_changes replays on top of the parent's result is reset by every section."""
    r = chk.rule("R17.10", "Options.apply_changes builds a module's options by copying the parent's state (including the parent's disable_error_code / enable_error_code lists and the sets already computed from them) and then replaying `new_options.<list>` onto those sets. A section that does not set such a list must therefore carry an empty one, or the copy replays the list of whatever level it was cloned from a second time, after the levels in between: config_parser.parse_section stores `[]` for every list that apply_changes iterates, so precedence (later / more specific beats earlier) holds across three levels too", floor=2)
    ac = ix.func("mypy.options.Options.apply_changes")
    replayed = sorted({lp.iter.attr for lp in ast.walk(ac.node) if isinstance(lp, ast.For) and isinstance(lp.iter, ast.Attribute) and norm(lp.iter.value) == "new_options"})
    if len(replayed) < 2:
        raise AnalysisError(f"Options.apply_changes: lists replayed onto the copied state: {replayed} (expected disable_error_code and enable_error_code)")
    ps = ix.func("mypy.config_parser.parse_section")
    defaults = set()
    for i in ast.walk(ps.node):
        if isinstance(i, ast.If) and isinstance(i.test, ast.Compare) and len(i.test.ops) == 1 and isinstance(i.test.ops[0], ast.NotIn) and isinstance(i.test.left, ast.Constant) and norm(i.test.comparators[0]) == "results":
            for a in i.body:
                if isinstance(a, ast.Assign) and isinstance(a.targets[0], ast.Subscript) and norm(a.targets[0].value) == "results" and isinstance(a.value, ast.List) and not a.value.elts:
                    defaults.add(i.test.left.value)
    for name in replayed:
        key = f"parse_section stores an empty default for the replayed list `{name}`"
        if name in defaults:
            r.ok(key, ps.loc())
        else:
            r.violation(key, ps.loc(), f"apply_changes replays `new_options.{name}`, but a section that does not set `{name}` gets no empty list: it inherits the list of the level it was cloned from and replays it after the levels in between ([mypy] disables X, [mypy-a.*] re-enables X, [mypy-a.b] only enables Y: a.b loses X again, so the global section beats the wildcard)")


def run_comma_lists_stripped(chk: Check, ix) -> None:
    """R17.11: every element of a comma-separated configuration value is stripped before it is used as a name."""
    r = chk.rule("R17.11", "config_parser.py splits comma-separated values in two ways: the per-option converters (`[p.strip() for p in split_commas(s)]`) and the loop over the module patterns of a section header (`for glob in globs.split(',')`). Users write `a, b`; an element that keeps its leading space is a different name (a pattern ' b' matches no module and the section silently does not apply): each consumer strips the element before using it", floor=5)
    m = ix.module("mypy.config_parser")
    n = 0
    # (a) comprehensions over split_commas(...) / x.split(",")
    for node in ast.walk(m.tree):
        if isinstance(node, (ast.ListComp, ast.SetComp, ast.GeneratorExp)) and len(node.generators) == 1:
            it = node.generators[0].iter
            is_split = isinstance(it, ast.Call) and (call_name(it) == "split_commas" or (isinstance(it.func, ast.Attribute) and it.func.attr == "split" and it.args and isinstance(it.args[0], ast.Constant) and it.args[0].value == ","))
            if not is_split or not isinstance(node.generators[0].target, ast.Name):
                continue
            v = node.generators[0].target.id
            n += 1
            key = f"config_parser.py:{node.lineno}: elements of `{norm(it)[:40]}` are stripped"
            stripped = any(isinstance(c, ast.Call) and isinstance(c.func, ast.Attribute) and c.func.attr == "strip" and isinstance(c.func.value, ast.Name) and c.func.value.id == v for c in ast.walk(node.elt))
            if stripped:
                r.ok(key, f"mypy/config_parser.py:{node.lineno}")
            else:
                r.violation(key, f"mypy/config_parser.py:{node.lineno}", f"`{norm(node)[:80]}` uses the raw element: `a, b` yields ' b'")
    # (b) for-loops over x.split(",")
    for f in m.functions.values():
        for lp in ast.walk(f.node):
            if isinstance(lp, ast.For) and isinstance(lp.iter, ast.Call) and isinstance(lp.iter.func, ast.Attribute) and lp.iter.func.attr == "split" and lp.iter.args and isinstance(lp.iter.args[0], ast.Constant) and lp.iter.args[0].value == "," and isinstance(lp.target, ast.Name):
                v = lp.target.id
                n += 1
                key = f"{f.name}: elements of `{norm(lp.iter)[:40]}` are stripped before use"
                first_use_stripped = False
                for st in lp.body:
                    uses = [x for x in ast.walk(st) if isinstance(x, ast.Name) and x.id == v and isinstance(x.ctx, ast.Load)]
                    if uses:
                        first_use_stripped = any(isinstance(c, ast.Call) and isinstance(c.func, ast.Attribute) and c.func.attr == "strip" and isinstance(c.func.value, ast.Name) and c.func.value.id == v for c in ast.walk(st))
                        break
                if first_use_stripped:
                    r.ok(key, f.loc(lp))
                else:
                    r.violation(key, f.loc(lp), f"the loop uses `{v}` as it comes out of split(','): `[mypy-a.*, b]` registers the pattern ' b', which matches no module")
    if n < 5:
        raise AnalysisError(f"config_parser.py: only {n} consumers of comma-separated values found")


def run_glob_stars_span_components(chk: Check, ix) -> None:
    """R17.12: a star in a per-module pattern stands for zero or more module components."""
    import re as _re
    r = chk.rule("R17.12", "Options.compile_glob turns the `*` components of a per-module pattern into regular-expression fragments (string constants in the function). The documented meaning of a star is `zero or more module components`, so each fragment, taken as a regex, matches the empty continuation and continuations of one and of several dotted components (`a`, `a.b` for a leading star; ``, `.a`, `.a.b` for a later one): a fragment that stops at a dot makes `[mypy-*.models]` apply to app.models and silently not to proj.app.models", floor=2)
    f = ix.func("mypy.options.Options.compile_glob")
    frags = []
    for n in ast.walk(f.node):
        if isinstance(n, ast.IfExp):
            # `<escaped literal> if part != "*" else <fragment>`  /  the reverse
            test = norm(n.test)
            if '"*"' in test.replace("'", '"'):
                star_arm = n.orelse if "!=" in test else n.body
                if isinstance(star_arm, ast.Constant) and isinstance(star_arm.value, str):
                    leading = any(isinstance(s, ast.Subscript) and norm(s).endswith("[0]") for s in ast.walk(n.test))
                    frags.append((star_arm.value, leading, n))
    if len(frags) < 2:
        raise AnalysisError(f"compile_glob: {len(frags)} star fragments found (expected the leading and the interior one)")
    for frag, leading, node in frags:
        key = f"compile_glob: the {'leading' if leading else 'interior'} star fragment spans any number of components"
        samples = ["a", "a.b", "a.b.c"] if leading else ["", ".a", ".a.b"]
        try:
            bad = [s for s in samples if _re.fullmatch(frag, s) is None]
        except _re.error as e:
            raise AnalysisError(f"compile_glob: fragment {frag!r} is not a regular expression: {e}")
        if not bad:
            r.ok(key, f.loc(node), f"{frag!r} matches {samples}")
        else:
            r.violation(key, f.loc(node), f"the fragment {frag!r} does not match {bad[0]!r}: a star that stops at a dot covers one component only, so `[mypy-*.models]` no longer applies to proj.app.models (and no longer overrides structured sections or the command line there)")


def run_sections_inherit_from_parents(chk: Check, ix) -> None:
    """R17.13: every structured section is built on top of what its parents give."""
    r13 = chk.rule("R17.13", "Options.build_per_module_cache materialises each structured section (`foo.*`, `foo.bar`) as `clone_for_module(key).apply_changes(own settings)`: clone_for_module(key) supplies what the enclosing wildcard sections and the matching unstructured globs give (`[mypy-foo.*]` also covers `foo` itself). The object whose apply_changes() result is stored in `_per_module_cache[key]` is, for every key of the loop, the result of `self.clone_for_module(key)` (one unconditional definition): a shortcut for some shape of key (no dot, no wildcard) drops the inherited settings for exactly those sections", floor=1)
    f = ix.func("mypy.options.Options.build_per_module_cache")
    n = 0
    for loop in ast.walk(f.node):
        if not isinstance(loop, ast.For) or not isinstance(loop.target, ast.Name):
            continue
        k = loop.target.id
        for a in ast.walk(loop):
            if not (isinstance(a, ast.Assign) and isinstance(a.targets[0], ast.Subscript) and "_per_module_cache" in norm(a.targets[0].value) and norm(a.targets[0].slice) == k):
                continue
            n += 1
            key = "build_per_module_cache: each section's own settings are applied onto clone_for_module(key)"
            v = a.value
            base = v.func.value if isinstance(v, ast.Call) and isinstance(v.func, ast.Attribute) and v.func.attr == "apply_changes" else None
            if base is None:
                r13.violation(key, f.loc(a), f"`{norm(a)[:80]}`: the stored object is not the result of <base>.apply_changes(...)")
                continue
            if isinstance(base, ast.Name):
                defs = [x.value for x in ast.walk(loop) if isinstance(x, ast.Assign) and len(x.targets) == 1 and isinstance(x.targets[0], ast.Name) and x.targets[0].id == base.id]
            else:
                defs = [base]
            good = len(defs) == 1 and isinstance(defs[0], ast.Call) and call_name(defs[0]) == "clone_for_module" and norm(defs[0].func).startswith("self.") and len(defs[0].args) == 1 and norm(defs[0].args[0]) == k
            if good:
                r13.ok(key, f.loc(a))
            else:
                r13.violation(key, f.loc(a), f"the base options are {[norm(d)[:60] for d in defs]}: for some keys the parents' settings (wildcard sections that cover the key, matching unstructured globs) are not inherited, e.g. `[mypy-foo.*] disallow_untyped_defs = True` is lost for module `foo` as soon as an unrelated `[mypy-foo]` section exists")
    if n < 1:
        raise AnalysisError("build_per_module_cache: no store into _per_module_cache[key] inside a loop found")


def run_repeated_patterns_move_to_the_end(chk: Check, ix) -> None:
    """R17.14: the order in which patterns are remembered is the order of their last section in the file."""
    r14 = chk.rule("R17.14", "Options.build_per_module_cache takes the precedence between unstructured patterns ('last in the file wins') from the iteration order of `per_module_options` (a dict: `[k for k in self.per_module_options.keys() if '*' in k[:-1]]`). A Python dict keeps the position of a key that is assigned again, so config_parser's store `options.per_module_options[glob] = updates` is preceded, in the same block, by the removal of the key (`pop(glob, ...)` / `del`): otherwise a pattern named in an early comma list and again in the last section is applied before the sections in between", floor=1)
    b = ix.module("mypy.options")
    bp = ix.func("mypy.options.Options.build_per_module_cache")
    if not any(isinstance(c, ast.Call) and norm(c.func).endswith("per_module_options.keys") for c in ast.walk(bp.node)) and "per_module_options" not in norm(bp.node):
        raise AnalysisError("build_per_module_cache no longer iterates per_module_options: R17.14 needs re-reading")
    m = ix.module("mypy.config_parser")
    n = 0
    for f in m.functions.values():
        par = f.module.parents()
        for a in ast.walk(f.node):
            if not (isinstance(a, ast.Assign) and isinstance(a.targets[0], ast.Subscript) and norm(a.targets[0].value).endswith("per_module_options")):
                continue
            n += 1
            k = norm(a.targets[0].slice)
            block = par[a]
            body = next((getattr(block, fld) for fld in ("body", "orelse", "finalbody") if a in getattr(block, fld, [])), [])
            before = body[: body.index(a)] if a in body else []
            removed = False
            for st in before:
                for x in ast.walk(st):
                    if isinstance(x, ast.Call) and isinstance(x.func, ast.Attribute) and x.func.attr == "pop" and norm(x.func.value).endswith("per_module_options") and x.args and norm(x.args[0]) == k:
                        removed = True
                    if isinstance(x, ast.Delete) and any(isinstance(t, ast.Subscript) and norm(t.value).endswith("per_module_options") and norm(t.slice) == k for t in x.targets):
                        removed = True
            key = f"config_parser.{f.name}: a pattern that is named again moves to the end of per_module_options"
            if removed:
                r14.ok(key, f.loc(a))
            else:
                r14.violation(key, f.loc(a), f"`{norm(a)}` re-assigns an existing key in place: with `[mypy-*.b, zz]`, `[mypy-p.*.b]`, `[mypy-*.b]` the pattern `*.b` keeps its first position and `p.*.b` is applied after it, although the last matching section in the file is `[mypy-*.b]`")
    if n < 1:
        raise AnalysisError("config_parser: no store into per_module_options[...] found")
