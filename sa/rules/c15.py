"""C15 — compiled numeric primitives compute what Python computes (small partial).

R15.0  R05.1 / R05.2 restricted to the int / float / fixed-width primitive bindings.
R15.1  raw C division/modulo (IntOp.DIV / IntOp.MOD) is only emitted under a guard that excludes a
       zero divisor (and -1 for signed types): a compile-time constant divisor not in (-1, 0), or a
       dominating check_for_zero_division; the inline helpers are only called under that guard.
R15.3  the inline fast path of tagged-int multiplication cannot overflow under its guard: from
       clang's expression trees of CPy.h, CPyTagged_Multiply returns `left * (right >> 1)` only
       under CheckShort(left) && CheckShort(right) && !IsMultiplyOverflow(left, right); the guard
       is a disjunction of unsigned comparisons of each operand with a constant bound; with the
       largest admitted (even) tagged operands the product stays below 2**(word bits - 1), i.e.
       remains a valid short tagged int (interval arithmetic on the two constants, LP64 assumed).
R15.4  the inline fast paths of tagged-int `//` and `%` execute a C division only under their
       fault predicate, whose disjuncts include `right == 0` (C division by zero is undefined /
       SIGFPE where Python raises ZeroDivisionError) and, for `//`, the most negative short left
       operand (`MIN / -1` overflows in C).
R15.2  no silent narrowing of int: each Truncate(...) of a value that may exceed the target range is
       dominated by check_fixed_width_range, which branches to the overflow block on both bounds;
       the remaining Truncate sites are tabled.
"""

from __future__ import annotations

import ast

from ..cfg import CFG, call_name
from ..index import AnalysisError, get_index, norm
from ..report import Check
from . import c05
from .c12 import guard_chain

CONST_DIVISOR = "isinstance(rhs, Integer) and rhs.value not in (-1, 0)"


def run(chk: Check) -> None:
    ix = get_index()
    c05.run(chk, only_numeric=True)
    run_shift_guards(chk, ix)
    run_literal_conversion(chk, ix)
    run_floor_of_inexact_quotient(chk, ix)
    run_floor_divide_strength_reduction(chk, ix)
    run_operand_order_kept(chk, ix)
    run_shift_left_operand_typed(chk, ix)

    r1 = chk.rule("R15.1", "every emission of a raw C division/modulo IntOp is guarded against a zero divisor (and -1 for signed operands)", floor=4)
    llb = ix.cls("mypyc.irbuild.ll_builder.LowLevelIRBuilder")
    sites = []
    for q, f in sorted(ix.functions.items()):
        if f.parent is not None or not f.module.name.startswith("mypyc."):
            continue
        for n in ast.walk(f.node):
            if isinstance(n, ast.Call) and call_name(n) in ("int_op", "IntOp"):
                argtxt = [norm(a) for a in n.args] + [norm(k.value) for k in n.keywords]
                if any(a in ("IntOp.DIV", "IntOp.MOD") for a in argtxt):
                    sites.append((f, n, [a for a in argtxt if a in ("IntOp.DIV", "IntOp.MOD")][0]))
                elif "op" in argtxt:
                    texts = [norm(c) for c in guard_chain(f, n, early_exits=True)[0]]
                    hit = [t for t in texts if t in ("op == IntOp.DIV", "op == IntOp.MOD")]
                    if hit:
                        sites.append((f, n, hit[0].split("== ")[1]))
    if len(sites) < 4:
        raise AnalysisError(f"only {len(sites)} IntOp.DIV/MOD emission sites found")
    inline_helpers = {"inline_fixed_width_divide", "inline_fixed_width_mod"}
    for f, n, which in sites:
        texts = [norm(c) for c in guard_chain(f, n, early_exits=True)[0]]
        key = f"{f.qualname}: {norm(n)[:60]} ({which})"
        const_guard = "isinstance(rhs, Integer)" in texts and "rhs.value not in (-1, 0)" in texts
        g = CFG(f.node)
        node = [x for x in g.nodes if any(c is n for c in x.calls())]
        zchecks = [x for x in g.nodes if any(call_name(c) == "check_for_zero_division" for c in x.calls())]
        dominated = bool(node and zchecks) and g.must_pass(g.entry, node, zchecks, labels_excluded=("exc",))
        if const_guard:
            r1.ok(key, f.loc(n), "divisor is a compile-time constant other than 0 and -1")
        elif dominated:
            unsigned = any("uint8" in t for t in texts)
            r1.ok(key, f.loc(n), "check_for_zero_division dominates" + (" (unsigned type: -1 is not representable)" if unsigned else ""))
        elif f.name in inline_helpers:
            # every caller must hold the constant-divisor guard
            bad = []
            for q2, f2 in ix.functions.items():
                if f2.parent is not None:
                    continue
                for c in ast.walk(f2.node):
                    if isinstance(c, ast.Call) and call_name(c) == f.name:
                        t2 = [norm(x) for x in guard_chain(f2, c, early_exits=True)[0]]
                        if not ("isinstance(rhs, Integer)" in t2 and "rhs.value not in (-1, 0)" in t2):
                            bad.append(f2.loc(c))
            if bad:
                r1.violation(key, f.loc(n), f"{f.name} emits a raw C {which} and is called without the constant-divisor guard at {bad}")
            else:
                r1.ok(key, f.loc(n), "helper only called with a constant divisor other than 0 and -1")
        else:
            r1.violation(key, f.loc(n), "a raw C division/modulo is emitted without excluding a zero divisor (undefined behaviour / SIGFPE instead of ZeroDivisionError)")

    run_multiply_guard(chk, ix)
    run_division_guards(chk, ix)

    r2 = chk.rule("R15.2", "Truncate of a possibly out-of-range value is dominated by check_fixed_width_range, which tests both bounds; other Truncate sites are tabled", floor=7)
    cfr = llb.methods.get("check_fixed_width_range")
    if cfr is None:
        raise AnalysisError("check_fixed_width_range vanished")
    cmps = [norm(c.args[2]) for c in ast.walk(cfr.node) if isinstance(c, ast.Call) and call_name(c) == "ComparisonOp" and len(c.args) >= 3]
    branches = [c for c in ast.walk(cfr.node) if isinstance(c, ast.Call) and call_name(c) == "Branch"]
    both = "ComparisonOp.SLT" in cmps and "ComparisonOp.SGE" in cmps and len(branches) >= 2 and all(len(b.args) >= 3 and norm(b.args[2]) == "overflow_block" for b in branches)
    from ..pattern import find_all
    bounds_ok = bool(find_all(cfr.node, [
        "$u = 1 << ($_ * 8 - 1)",
        "if not target_type.is_signed:\n    $u *= 2",
        "$l = -$u",
        "$l = 0",
        "ComparisonOp($_, Integer($u, $_), ComparisonOp.SLT, $_)",
        "ComparisonOp($_, Integer($l, $_), ComparisonOp.SGE, $_)",
    ]))
    if both and bounds_ok:
        r2.ok("check_fixed_width_range branches to overflow on value >= upper and on value < lower, bounds from size/is_signed", cfr.loc())
    else:
        r2.violation("check_fixed_width_range branches to overflow on value >= upper and on value < lower, bounds from size/is_signed", cfr.loc(), f"range check incomplete (comparisons {cmps}, {len(branches)} branches)")
    for q, f in sorted(ix.functions.items()):
        if f.parent is not None or not f.module.name.startswith("mypyc."):
            continue
        for n in ast.walk(f.node):
            if isinstance(n, ast.Call) and call_name(n) == "Truncate" and isinstance(n.func, ast.Name):
                g = CFG(f.node)
                node = [x for x in g.nodes if any(c is n for c in x.calls())]
                checks = [x for x in g.nodes if any(call_name(c) == "check_fixed_width_range" for c in x.calls())]
                key = f"{q}: {norm(n)[:60]}"
                if node and checks and g.must_pass(g.entry, node, checks, labels_excluded=("exc",)):
                    r2.ok(key, f.loc(n), "dominated by check_fixed_width_range")
                else:
                    r2.violation(key, f.loc(n), "a value is truncated to a narrower C type without a dominating range check: an out-of-range int would wrap silently instead of raising OverflowError")


def _strip(n):
    while n.get("kind") in ("ImplicitCastExpr", "ParenExpr", "CStyleCastExpr", "ConstantExpr") and n.get("inner"):
        n = n["inner"][-1]
    return n


def _const(n, env, depth=0):
    """Value of a C integer constant expression (LP64: sizeof of word-sized types is 8)."""
    n = _strip(n)
    k = n.get("kind")
    if depth > 40:
        raise AnalysisError("constant expression too deep")
    if k == "IntegerLiteral":
        return int(n["value"])
    if k == "UnaryExprOrTypeTraitExpr":
        t = (n.get("argType") or "").replace("const", "").strip()
        if t in ("CPyTagged", "size_t", "unsigned long", "Py_ssize_t", "long", "void *", "PyObject *", "uint64_t", "int64_t"):
            return 8
        if t in ("int", "unsigned int", "int32_t", "uint32_t"):
            return 4
        raise AnalysisError(f"sizeof({t}) not known to the analysis")
    if k == "DeclRefExpr":
        if n.get("ref") in env:
            return env[n["ref"]]
        raise AnalysisError(f"reference to non-constant `{n.get('ref')}` in a bound")
    if k == "BinaryOperator":
        a, b = _const(n["inner"][0], env, depth + 1), _const(n["inner"][1], env, depth + 1)
        op = n["opcode"]
        if op == "<<":
            return a << b
        if op == ">>":
            return a >> b
        if op == "+":
            return a + b
        if op == "-":
            return a - b
        if op == "*":
            return a * b
        if op == "/":
            return a // b
    if k == "UnaryOperator" and n.get("opcode") == "-":
        return -_const(n["inner"][0], env, depth + 1)
    raise AnalysisError(f"unsupported constant expression node {k}")


def run_multiply_guard(chk: Check, ix) -> None:
    from ..cfront import function_bodies
    r3 = chk.rule("R15.3", "CPyTagged_Multiply's inline fast path `left * (right >> 1)` is taken only for short operands that CPyTagged_IsMultiplyOverflow admits, and the largest admitted operands give a product below 2**63 (no wrap-around of the tagged result)", floor=2)
    chk.assumptions.append("LP64 data model for the constant bounds of lib-rt (sizeof(size_t) == 8)")
    bodies = function_bodies(ix.root, "CPy.h", ["CPyTagged_IsMultiplyOverflow", "CPyTagged_Multiply", "CPyTagged_ShortAsSsize_t"])
    for nm in ("CPyTagged_IsMultiplyOverflow", "CPyTagged_Multiply", "CPyTagged_ShortAsSsize_t"):
        if nm not in bodies:
            raise AnalysisError(f"{nm}: body not found in CPy.h")
    BITS = 64

    def walk(n):
        yield n
        for c in n.get("inner", []):
            yield from walk(c)

    # --- the guard: bounds per operand
    g = bodies["CPyTagged_IsMultiplyOverflow"]
    params = [c["name"] for c in g["inner"] if c["kind"] == "ParmVarDecl"]
    env = {}
    for n in walk(g):
        if n["kind"] == "VarDecl" and n.get("inner"):
            try:
                env[n["name"]] = _const(n["inner"][-1], env)
            except AnalysisError:
                pass
    rets = [n for n in walk(g) if n["kind"] == "ReturnStmt"]
    if len(rets) != 1:
        raise AnalysisError("CPyTagged_IsMultiplyOverflow: single return expected")
    admitted = {}
    def disj(n):
        n = _strip(n)
        if n["kind"] == "BinaryOperator" and n["opcode"] == "||":
            return disj(n["inner"][0]) + disj(n["inner"][1])
        return [n]
    for cmp_ in disj(rets[0]["inner"][0]):
        if cmp_["kind"] != "BinaryOperator" or cmp_["opcode"] not in (">=", ">"):
            raise AnalysisError(f"CPyTagged_IsMultiplyOverflow: unexpected disjunct {cmp_.get('kind')} {cmp_.get('opcode')}")
        lhs = _strip(cmp_["inner"][0])
        if lhs["kind"] != "DeclRefExpr" or lhs.get("ref") not in params:
            raise AnalysisError("CPyTagged_IsMultiplyOverflow: comparison does not test an operand")
        bound = _const(cmp_["inner"][1], env)
        largest = bound - 1 if cmp_["opcode"] == ">=" else bound
        largest -= largest % 2  # short tagged ints are even
        admitted[lhs["ref"]] = min(largest, admitted.get(lhs["ref"], largest))
    if set(admitted) != set(params):
        r3.violation("CPyTagged_IsMultiplyOverflow bounds both operands", "mypyc/lib-rt/CPy.h", f"only {sorted(admitted)} of {params} are bounded: the other operand can be any short int and the inline product can wrap")
        return
    # --- the fast path
    mul = bodies["CPyTagged_Multiply"]
    mparams = [c["name"] for c in mul["inner"] if c["kind"] == "ParmVarDecl"]
    fast = None
    for n in walk(mul):
        if n["kind"] == "ReturnStmt" and n.get("inner"):
            e = _strip(n["inner"][0])
            if e["kind"] == "BinaryOperator" and e["opcode"] == "*":
                fast = e
    if fast is None:
        raise AnalysisError("CPyTagged_Multiply: inline product not found")
    a, b = _strip(fast["inner"][0]), _strip(fast["inner"][1])
    def is_param(x):
        return x["kind"] == "DeclRefExpr" and x.get("ref") in mparams
    def is_untagged(x):
        return x["kind"] == "CallExpr" and _strip(x["inner"][0]).get("ref") == "CPyTagged_ShortAsSsize_t" and is_param(_strip(x["inner"][1]))
    shape = (is_param(a) and is_untagged(b)) or (is_param(b) and is_untagged(a))
    sh = bodies["CPyTagged_ShortAsSsize_t"]
    shr = [n for n in walk(sh) if n["kind"] == "BinaryOperator" and n["opcode"] == ">>"]
    halves = bool(shr) and _const(shr[0]["inner"][1], {}) == 1
    guards = {(_strip(c["inner"][0]).get("ref")) for c in walk(mul) if c["kind"] == "CallExpr"}
    under = {"CPyTagged_CheckShort", "CPyTagged_IsMultiplyOverflow"} <= guards and any(n["kind"] == "UnaryOperator" and n.get("opcode") == "!" and _strip(n["inner"][0]).get("kind") == "CallExpr" and _strip(_strip(n["inner"][0])["inner"][0]).get("ref") == "CPyTagged_IsMultiplyOverflow" for n in walk(mul))
    if shape and halves and under:
        r3.ok("CPyTagged_Multiply: fast path is `tagged * untagged` under CheckShort x2 and !IsMultiplyOverflow", "mypyc/lib-rt/CPy.h")
    else:
        r3.violation("CPyTagged_Multiply: fast path is `tagged * untagged` under CheckShort x2 and !IsMultiplyOverflow", "mypyc/lib-rt/CPy.h", f"shape ok: {shape}; ShortAsSsize_t halves: {halves}; guarded: {under}")
        return
    L, R = admitted[params[0]], admitted[params[1]]
    worst = max(L * (R // 2), R * (L // 2))
    limit = 1 << (BITS - 1)
    key = f"largest admitted tagged operands {L} and {R}: product {worst} < 2**{BITS - 1}"
    if worst < limit:
        r3.ok("the inline product of the largest admitted operands stays below 2**63", "mypyc/lib-rt/CPy.h", key)
    else:
        r3.violation("the inline product of the largest admitted operands stays below 2**63", "mypyc/lib-rt/CPy.h", f"CPyTagged_IsMultiplyOverflow admits tagged operands up to {L} and {R} (ints {L // 2} and {R // 2}); the fast path computes {L} * {R // 2} = {L * (R // 2)} >= 2**63 on size_t, which wraps: the compiled `a * b` returns a wrong (negative) int instead of taking the slow path")


def run_division_guards(chk: Check, ix) -> None:
    from ..cfront import function_bodies
    r4 = chk.rule("R15.4", "CPyTagged_FloorDivide / CPyTagged_Remainder perform the C `/` or `%` only under !Maybe...Fault(left, right); the fault predicate tests `right == 0`, and the floor-division one also `left == -(1 << 63)`", floor=4)
    names = ["CPyTagged_FloorDivide", "CPyTagged_Remainder", "CPyTagged_MaybeFloorDivideFault", "CPyTagged_MaybeRemainderFault"]
    bodies = function_bodies(ix.root, "CPy.h", names)
    for nm in names:
        if nm not in bodies:
            raise AnalysisError(f"{nm}: body not found in CPy.h")

    def walk(n):
        yield n
        for c in n.get("inner", []):
            yield from walk(c)

    def disj(n):
        n = _strip(n)
        if n["kind"] == "BinaryOperator" and n["opcode"] == "||":
            return disj(n["inner"][0]) + disj(n["inner"][1])
        return [n]

    for fn, guard, opcode, need_min in (("CPyTagged_FloorDivide", "CPyTagged_MaybeFloorDivideFault", "/", True), ("CPyTagged_Remainder", "CPyTagged_MaybeRemainderFault", "%", False)):
        f = bodies[fn]
        # every C division in the function sits inside an `if` whose condition negates the guard call
        ok_all = True
        n_div = 0
        def visit(n, guarded):
            nonlocal ok_all, n_div
            if n["kind"] == "IfStmt":
                cond = n["inner"][0]
                g_here = any(x["kind"] == "UnaryOperator" and x.get("opcode") == "!" and _strip(x["inner"][0]).get("kind") == "CallExpr" and _strip(_strip(x["inner"][0])["inner"][0]).get("ref") == guard for x in walk(cond))
                visit(cond, guarded)
                if len(n["inner"]) > 1:
                    visit(n["inner"][1], guarded or g_here)
                for rest in n["inner"][2:]:
                    visit(rest, guarded)
                return
            if n["kind"] == "BinaryOperator" and n.get("opcode") == opcode:
                n_div += 1
                if not guarded:
                    ok_all = False
            for c in n.get("inner", []):
                visit(c, guarded)
        visit(f, False)
        key = f"{fn}: the C `{opcode}` is executed only under !{guard}(left, right)"
        if n_div and ok_all:
            r4.ok(key, "mypyc/lib-rt/CPy.h")
        else:
            r4.violation(key, "mypyc/lib-rt/CPy.h", f"{n_div} C `{opcode}` operation(s), not all under the fault guard: a zero divisor reaches the hardware division (SIGFPE instead of ZeroDivisionError)")
        g = bodies[guard]
        params = [c["name"] for c in g["inner"] if c["kind"] == "ParmVarDecl"]
        rets = [n for n in walk(g) if n["kind"] == "ReturnStmt"]
        ds = disj(rets[0]["inner"][0]) if len(rets) == 1 else []
        zero = False
        minleft = False
        for d in ds:
            if d["kind"] == "BinaryOperator" and d["opcode"] == "==":
                lhs = _strip(d["inner"][0])
                try:
                    val = _const(d["inner"][1], {})
                except AnalysisError:
                    continue
                if lhs.get("ref") == params[1] and val == 0:
                    zero = True
                if lhs.get("ref") == params[0] and val % (1 << 64) == (1 << 63):
                    minleft = True
        key = f"{guard}: reports a fault for right == 0" + (" and for the most negative left operand" if need_min else "")
        if zero and (minleft or not need_min):
            r4.ok(key, "mypyc/lib-rt/CPy.h")
        else:
            r4.violation(key, "mypyc/lib-rt/CPy.h", f"fault predicate covers right == 0: {zero}" + (f"; left == -(1 << 63): {minleft}" if need_min else "") + " — the uncovered case reaches the C division (division by zero, or MIN / -1 overflow)")


def run_shift_guards(chk: Check, ix) -> None:
    """R15.8: a raw C shift of a fixed-width operand is not emitted for an unchecked shift count."""
    r8 = chk.rule("R15.8", "in C a shift by a negative count or by a count >= the operand's width is undefined (x86 masks the count: `5 >> 64` gives 5), in Python `5 >> 64` is 0 and a negative count raises ValueError; LowLevelIRBuilder.fixed_width_int_op therefore has an arm for IntOp.LEFT_SHIFT / IntOp.RIGHT_SHIFT that checks the count (or handles a constant count) before the raw shift is emitted, as it has for DIV and MOD; falling through to the generic `self.int_op(type, lhs, rhs, op, line)` emits the C shift for every count", floor=1)
    f = ix.func("mypyc.irbuild.ll_builder.LowLevelIRBuilder.fixed_width_int_op")
    arms = [n for n in ast.walk(f.node) if isinstance(n, ast.If) and any(isinstance(x, ast.Attribute) and x.attr in ("LEFT_SHIFT", "RIGHT_SHIFT") for x in ast.walk(n.test))]
    generic = [c for c in ast.walk(f.node) if isinstance(c, ast.Call) and call_name(c) == "int_op" and any(isinstance(a, ast.Name) and a.id == "op" for a in c.args)]
    key = "fixed_width_int_op checks the shift count before emitting a raw C shift"
    if arms:
        r8.ok(key, f.loc(arms[0]))
    elif generic:
        r8.violation(key, f.loc(generic[-1]), "there is no arm for IntOp.LEFT_SHIFT / IntOp.RIGHT_SHIFT: shifts reach the generic `self.int_op(type, lhs, rhs, op, line)` and are emitted as plain C shifts whatever the count")
    else:
        raise AnalysisError("fixed_width_int_op: neither a shift arm nor the generic emission was found")


def run_literal_conversion(chk: Check, ix) -> None:
    """R15.9: an explicit conversion of an out-of-range literal is not folded by masking."""
    r9 = chk.rule("R15.9", "`u8(n)` / `i16(n)` / `i32(n)` of a value that is out of range raise (R15.2 checks the run-time path); the specialisers in mypyc/irbuild/specialize.py that fold a *literal* argument at compile time must not reduce it modulo 2**width (`x & max_unsigned`): C15 says a conversion is rejected exactly when the value is out of range, never truncated", floor=1)
    mod = ix.module("mypyc.irbuild.specialize")
    n = 0
    for f in sorted(mod.functions.values(), key=lambda f: f.node.lineno):
        masks = [b for b in ast.walk(f.node) if isinstance(b, ast.BinOp) and isinstance(b.op, ast.BitAnd) and any(isinstance(x, ast.Name) and "max_unsigned" in x.id for x in ast.walk(b))]
        if not masks:
            continue
        callers = sorted(q for q, g in ix.functions.items() if g.module is mod and g is not f and any(isinstance(c, ast.Call) and call_name(c) == f.name for c in ast.walk(g.node)))
        n += 1
        key = f"{f.qualname}: literal arguments of explicit native-int conversions are not reduced modulo 2**width"
        r9.violation(key, f.loc(masks[0]), f"`{norm(masks[0])}` wraps an out-of-range literal instead of rejecting it; used by {[c.split('.')[-1] for c in callers]}")
    if n == 0:
        r9.ok("no compile-time masking of literal conversion arguments", mod.relpath)


def run_floor_of_inexact_quotient(chk: Check, ix) -> None:
    """R15.10: a quotient that is integral only up to rounding error is snapped to the nearest integer, not floored."""
    from ..cfront import lib_rt_functions
    r = chk.rule("R15.10", "lib-rt (clang AST): where a C function applies floor() to a local that was computed by a floating-point division (float `//`: div = (vx - fmod(vx, wx)) / wx is an exact multiple of wx mathematically but may land one ulp below the integer), the function also corrects the floored value upwards when the difference exceeds 0.5 (CPython's float_divmod: `snap quotient to nearest integral value`); a bare floor() makes `x // y` one less than CPython's result for such operands (-6.0 // -1.9, 2.1 // 0.7)", floor=1)
    funcs, _ = lib_rt_functions(ix.root)
    n = 0
    for name, e in sorted(funcs.items()):
        for s in e.get("floor_of_quotient") or []:
            n += 1
            key = f"{name}: floor({s['var']}) of a computed quotient is snapped to the nearest integer"
            if s["snapped"]:
                r.ok(key, f"mypyc/lib-rt:{name}")
            else:
                r.violation(key, f"mypyc/lib-rt:{name}", f"`{s['var']}` comes out of a floating division and is only approximately integral; the function floors it and never compares `{s['var']} - floor({s['var']})` with 0.5: when the division lands one ulp below an integer the result is 1.0 too small")
    if n < 1:
        raise AnalysisError("no floor() of a computed quotient found in lib-rt (float_ops.c _float_div_mod had one)")


def run_floor_divide_strength_reduction(chk: Check, ix) -> None:
    """R15.11: `x // d` is rewritten to `x >> k` only for d == 2**k."""
    r = chk.rule("R15.11", "irbuild/expression.try_optimize_int_floor_divide replaces `x // d` by `x >> k` for a constant divisor; the two agree for every int x exactly when d == 2**k (in particular d > 0: `x // -8` is not `x >> 3`). The guard of the rewrite and the definition of the shift are small pure integer expressions over the constant; they are evaluated for a set of divisors around every sign and power-of-two boundary (no program is run), and wherever the guard holds the divisor must equal 1 << shift", floor=1)
    f = ix.func("mypyc.irbuild.expression.try_optimize_int_floor_divide")
    rewrite = None
    for i in ast.walk(f.node):
        if isinstance(i, ast.If) and any(isinstance(c, ast.Call) and call_name(c) == "OpExpr" and c.args and isinstance(c.args[0], ast.Constant) and c.args[0].value == ">>" for s in i.body for c in ast.walk(s)):
            rewrite = i
    if rewrite is None:
        raise AnalysisError("try_optimize_int_floor_divide: the rewrite to `>>` was not found")
    # which local is the shift count handed to IntExpr(...), and which name is the divisor?
    shift_names = [norm(c.args[0]) for s in rewrite.body for c in ast.walk(s) if isinstance(c, ast.Call) and call_name(c) == "IntExpr" and c.args]
    if not shift_names:
        raise AnalysisError("try_optimize_int_floor_divide: IntExpr(<shift>) not found in the rewrite")
    shift_name = shift_names[0]
    defs = {norm(a.targets[0]): a.value for a in f.node.body if isinstance(a, ast.Assign) and len(a.targets) == 1 and isinstance(a.targets[0], ast.Name)}
    div_name = next((n for n, v in defs.items() if isinstance(v, ast.Call) and "constant_fold" in norm(v.func)), None)
    if div_name is None or shift_name not in defs:
        raise AnalysisError("try_optimize_int_floor_divide: divisor / shift definitions not recognised")

    class Unknown(Exception):
        pass
    allowed_methods = {"bit_length", "bit_count", "__abs__"}

    def ev(e, env):
        if isinstance(e, ast.Constant) and isinstance(e.value, (int, bool)):
            return e.value
        if isinstance(e, ast.Name):
            if e.id in env:
                return env[e.id]
            if e.id in defs and e.id != div_name:
                return ev(defs[e.id], env)
            raise Unknown(e.id)
        if isinstance(e, ast.UnaryOp):
            v = ev(e.operand, env)
            return {ast.Not: lambda x: not x, ast.USub: lambda x: -x, ast.Invert: lambda x: ~x, ast.UAdd: lambda x: +x}[type(e.op)](v)
        if isinstance(e, ast.BinOp):
            a, b = ev(e.left, env), ev(e.right, env)
            ops = {ast.Add: lambda: a + b, ast.Sub: lambda: a - b, ast.Mult: lambda: a * b, ast.LShift: lambda: a << b if 0 <= b < 4096 else (_ for _ in ()).throw(Unknown("shift")), ast.RShift: lambda: a >> b if 0 <= b < 4096 else (_ for _ in ()).throw(Unknown("shift")), ast.BitAnd: lambda: a & b, ast.BitOr: lambda: a | b, ast.BitXor: lambda: a ^ b, ast.Pow: lambda: a ** b if 0 <= b < 4096 else (_ for _ in ()).throw(Unknown("pow")), ast.FloorDiv: lambda: a // b, ast.Mod: lambda: a % b}
            if type(e.op) not in ops:
                raise Unknown(norm(e))
            return ops[type(e.op)]()
        if isinstance(e, ast.BoolOp):
            if isinstance(e.op, ast.And):
                res = True
                for v in e.values:
                    res = ev(v, env)
                    if not res:
                        return res
                return res
            res = False
            for v in e.values:
                res = ev(v, env)
                if res:
                    return res
            return res
        if isinstance(e, ast.Compare):
            left = ev(e.left, env)
            for op, c in zip(e.ops, e.comparators):
                right = ev(c, env)
                ok = {ast.Eq: left == right, ast.NotEq: left != right, ast.Lt: left < right, ast.LtE: left <= right, ast.Gt: left > right, ast.GtE: left >= right}.get(type(op))
                if ok is None:
                    raise Unknown(norm(e))
                if not ok:
                    return False
                left = right
            return True
        if isinstance(e, ast.Call) and isinstance(e.func, ast.Attribute) and e.func.attr in allowed_methods and not e.args:
            v = ev(e.func.value, env)
            return getattr(int(v), e.func.attr)()
        if isinstance(e, ast.Call) and isinstance(e.func, ast.Name) and e.func.id == "abs" and len(e.args) == 1:
            return abs(ev(e.args[0], env))
        raise Unknown(norm(e)[:40])
    samples = sorted({s * v for v in ([0, 1, 2, 3, 4, 5, 6, 7, 8, 9, 12, 16, 24, 1 << 20, (1 << 20) + 1, 1 << 26, 1 << 27, (1 << 27) - 1, 1 << 28, 1 << 29, 1 << 40, 1 << 62, 1 << 63, 1 << 64]) for s in (1, -1)})
    key = "try_optimize_int_floor_divide: the rewrite to `>> k` is taken only for the divisor 2**k"
    bad = []
    try:
        for d in samples:
            env = {div_name: d}
            if d == 0:
                continue
            if ev(rewrite.test, env):
                k = ev(defs[shift_name], env)
                if not (isinstance(k, int) and k >= 0 and d == (1 << k)):
                    bad.append((d, k))
    except Unknown as u:
        raise AnalysisError(f"try_optimize_int_floor_divide: cannot evaluate `{u}` in the guard `{norm(rewrite.test)}`")
    if not bad:
        r.ok(key, f.loc(rewrite), f"guard `{norm(rewrite.test)}` evaluated for {len(samples)} divisors")
    else:
        d, k = bad[0]
        r.violation(key, f.loc(rewrite), f"for the divisor {d} the guard `{norm(rewrite.test)}` holds and the shift is {k}, but {d} != 1 << {k}: `x // {d}` is compiled to `x >> {k}` (17 // {d} = {17 // d}, 17 >> {k} = {17 >> k if isinstance(k, int) and 0 <= k < 64 else '?'})")


def run_operand_order_kept(chk: Check, ix) -> None:
    """R15.12: the arithmetic dispatch hands its operands on in the order it received them."""
    from ..cfg import branch_conditions
    r12 = chk.rule("R15.12", "LowLevelIRBuilder.binary_op(lreg, rreg, op, line) dispatches on the operand types to helpers that take (left, right); `-`, `//`, `%`, `<<`, `>>` and the ordered comparisons are not commutative. Every call in its body whose arguments are both operands (the parameters or locals re-assigned from them by a coercion) passes them left-before-right, except under a test that restricts `op` to the containment operators (`in` / `not in`), whose helpers take the container first", floor=8)
    cls = ix.cls("mypyc.irbuild.ll_builder.LowLevelIRBuilder")
    f = cls.methods.get("binary_op")
    if f is None:
        raise AnalysisError("LowLevelIRBuilder.binary_op not found")
    params = [a.arg for a in f.node.args.args]
    if len(params) < 3:
        raise AnalysisError("binary_op: expected (self, lreg, rreg, op, line)")
    L, R_ = params[1], params[2]
    par = f.module.parents()
    n = 0
    for c in ast.walk(f.node):
        if not isinstance(c, ast.Call):
            continue
        flat = []
        for a in c.args:
            if isinstance(a, ast.Name) and a.id in (L, R_):
                flat.append(a.id)
            elif isinstance(a, (ast.List, ast.Tuple)):
                flat += [e.id for e in a.elts if isinstance(e, ast.Name) and e.id in (L, R_)]
        if L not in flat or R_ not in flat:
            continue
        n += 1
        st = c
        while not isinstance(st, ast.stmt):
            st = par[st]
        key = f"binary_op: `{norm(c.func)}(...)` receives the operands in source order"
        if flat.index(L) < flat.index(R_):
            r12.ok(key, f.loc(c))
            continue
        pos, _ = branch_conditions(par, f.node, st)
        contain = any(("'in'" in norm(t) or '"in"' in norm(t)) and "op" in norm(t) for t in pos)
        if contain:
            r12.ok(key, f.loc(c), "containment: the helper takes the container (right operand) first")
        else:
            r12.violation(key, f.loc(c), f"`{norm(c)[:70]}` passes the right operand first under {[norm(t)[:40] for t in pos][-3:]}: `b OP n` is compiled as `n OP b`, so `False - 1` gives 1, `False // 3` raises ZeroDivisionError and `False << 3` gives 3 for a native-int right operand")
    if n < 8:
        raise AnalysisError(f"binary_op: only {n} calls taking both operands found")


def run_shift_left_operand_typed(chk: Check, ix) -> None:
    """R15.13: an emitted C shift is performed in the width of the result."""
    from ..cfg import branch_conditions
    r13 = chk.rule("R15.13", "C performs `a << b` / `a >> b` in the promoted type of `a` alone (unlike `+`, where the wider operand decides), and a decimal literal that fits is an `int`. codegen/emitfunc.visit_int_op prints Integer operands as bare literals (reg()), so for both shift operators a literal left operand is given the C type of the op's result: an assignment to the left-operand text that prefixes a `(<ctype of op.type>)` cast, under a test naming the shift operator and `isinstance(op.lhs, Integer)`. Otherwise `1 << x` with x: i64 = 40 is a 32-bit shift (256) and `1024 >> 40` is 4", floor=2)
    cls = ix.cls("mypyc.codegen.emitfunc.FunctionEmitterVisitor")
    f = cls.methods.get("visit_int_op")
    if f is None:
        raise AnalysisError("FunctionEmitterVisitor.visit_int_op not found")
    par = f.module.parents()
    covered = set()
    for a in ast.walk(f.node):
        if not (isinstance(a, ast.Assign) and isinstance(a.targets[0], ast.Name) and a.targets[0].id == "lhs" and isinstance(a.value, ast.JoinedStr)):
            continue
        if not any(isinstance(c, ast.Call) and call_name(c) == "ctype" and c.args and norm(c.args[0]) == "op.type" for c in ast.walk(a.value)):
            continue
        pos, _ = branch_conditions(par, f.node, a)
        text = " and ".join(norm(t) for t in pos)
        if "isinstance(op.lhs, Integer)" in text:
            for sh in ("LEFT_SHIFT", "RIGHT_SHIFT"):
                if sh in text:
                    covered.add(sh)
    for sh in ("LEFT_SHIFT", "RIGHT_SHIFT"):
        key = f"visit_int_op: a literal left operand of {sh} is cast to the result's C type"
        if sh in covered:
            r13.ok(key, f.loc())
        else:
            r13.violation(key, f.loc(), f"no `lhs = f\"({{self.ctype(op.type)}}){{lhs}}\"` under a test of IntOp.{sh} and isinstance(op.lhs, Integer): the emitted `<literal> {'<<' if sh == 'LEFT_SHIFT' else '>>'} x` is computed in C int whatever the native type of the result")
