"""C15 — compiled numeric primitives compute what Python computes (small partial).

R15.0  R05.1 / R05.2 restricted to the int / float / fixed-width primitive bindings.
R15.1  raw C division/modulo (IntOp.DIV / IntOp.MOD) is only emitted under a guard that excludes a
       zero divisor (and -1 for signed types): a compile-time constant divisor not in (-1, 0), or a
       dominating check_for_zero_division; the inline helpers are only called under that guard.
R15.2  no silent narrowing of int: each Truncate(...) of a value that may exceed the target range is
       dominated by check_fixed_width_range, which branches to the overflow block on both bounds;
       the remaining Truncate sites are tabled.
"""

from __future__ import annotations

import ast

from ..cfg import CFG, call_name
from ..index import AnalysisError, get_index, norm
from ..report import Check
from . import c05
from .c12 import guard_chain

CONST_DIVISOR = "isinstance(rhs, Integer) and rhs.value not in (-1, 0)"


def run(chk: Check) -> None:
    ix = get_index()
    c05.run(chk, only_numeric=True)

    r1 = chk.rule("R15.1", "every emission of a raw C division/modulo IntOp is guarded against a zero divisor (and -1 for signed operands)", floor=4)
    llb = ix.cls("mypyc.irbuild.ll_builder.LowLevelIRBuilder")
    sites = []
    for q, f in sorted(ix.functions.items()):
        if f.parent is not None or not f.module.name.startswith("mypyc."):
            continue
        for n in ast.walk(f.node):
            if isinstance(n, ast.Call) and call_name(n) in ("int_op", "IntOp"):
                argtxt = [norm(a) for a in n.args] + [norm(k.value) for k in n.keywords]
                if any(a in ("IntOp.DIV", "IntOp.MOD") for a in argtxt):
                    sites.append((f, n, [a for a in argtxt if a in ("IntOp.DIV", "IntOp.MOD")][0]))
                elif "op" in argtxt:
                    texts = [norm(c) for c in guard_chain(f, n, early_exits=True)[0]]
                    hit = [t for t in texts if t in ("op == IntOp.DIV", "op == IntOp.MOD")]
                    if hit:
                        sites.append((f, n, hit[0].split("== ")[1]))
    if len(sites) < 4:
        raise AnalysisError(f"only {len(sites)} IntOp.DIV/MOD emission sites found")
    inline_helpers = {"inline_fixed_width_divide", "inline_fixed_width_mod"}
    for f, n, which in sites:
        texts = [norm(c) for c in guard_chain(f, n, early_exits=True)[0]]
        key = f"{f.qualname}: {norm(n)[:60]} ({which})"
        const_guard = "isinstance(rhs, Integer)" in texts and "rhs.value not in (-1, 0)" in texts
        g = CFG(f.node)
        node = [x for x in g.nodes if any(c is n for c in x.calls())]
        zchecks = [x for x in g.nodes if any(call_name(c) == "check_for_zero_division" for c in x.calls())]
        dominated = bool(node and zchecks) and g.must_pass(g.entry, node, zchecks, labels_excluded=("exc",))
        if const_guard:
            r1.ok(key, f.loc(n), "divisor is a compile-time constant other than 0 and -1")
        elif dominated:
            unsigned = any("uint8" in t for t in texts)
            r1.ok(key, f.loc(n), "check_for_zero_division dominates" + (" (unsigned type: -1 is not representable)" if unsigned else ""))
        elif f.name in inline_helpers:
            # every caller must hold the constant-divisor guard
            bad = []
            for q2, f2 in ix.functions.items():
                if f2.parent is not None:
                    continue
                for c in ast.walk(f2.node):
                    if isinstance(c, ast.Call) and call_name(c) == f.name:
                        t2 = [norm(x) for x in guard_chain(f2, c, early_exits=True)[0]]
                        if not ("isinstance(rhs, Integer)" in t2 and "rhs.value not in (-1, 0)" in t2):
                            bad.append(f2.loc(c))
            if bad:
                r1.violation(key, f.loc(n), f"{f.name} emits a raw C {which} and is called without the constant-divisor guard at {bad}")
            else:
                r1.ok(key, f.loc(n), "helper only called with a constant divisor other than 0 and -1")
        else:
            r1.violation(key, f.loc(n), "a raw C division/modulo is emitted without excluding a zero divisor (undefined behaviour / SIGFPE instead of ZeroDivisionError)")

    r2 = chk.rule("R15.2", "Truncate of a possibly out-of-range value is dominated by check_fixed_width_range, which tests both bounds; other Truncate sites are tabled", floor=7)
    cfr = llb.methods.get("check_fixed_width_range")
    if cfr is None:
        raise AnalysisError("check_fixed_width_range vanished")
    cmps = [norm(c.args[2]) for c in ast.walk(cfr.node) if isinstance(c, ast.Call) and call_name(c) == "ComparisonOp" and len(c.args) >= 3]
    branches = [c for c in ast.walk(cfr.node) if isinstance(c, ast.Call) and call_name(c) == "Branch"]
    both = "ComparisonOp.SLT" in cmps and "ComparisonOp.SGE" in cmps and len(branches) >= 2 and all(len(b.args) >= 3 and norm(b.args[2]) == "overflow_block" for b in branches)
    from ..pattern import find_all
    bounds_ok = bool(find_all(cfr.node, [
        "$u = 1 << ($_ * 8 - 1)",
        "if not target_type.is_signed:\n    $u *= 2",
        "$l = -$u",
        "$l = 0",
        "ComparisonOp($_, Integer($u, $_), ComparisonOp.SLT, $_)",
        "ComparisonOp($_, Integer($l, $_), ComparisonOp.SGE, $_)",
    ]))
    if both and bounds_ok:
        r2.ok("check_fixed_width_range branches to overflow on value >= upper and on value < lower, bounds from size/is_signed", cfr.loc())
    else:
        r2.violation("check_fixed_width_range branches to overflow on value >= upper and on value < lower, bounds from size/is_signed", cfr.loc(), f"range check incomplete (comparisons {cmps}, {len(branches)} branches)")
    for q, f in sorted(ix.functions.items()):
        if f.parent is not None or not f.module.name.startswith("mypyc."):
            continue
        for n in ast.walk(f.node):
            if isinstance(n, ast.Call) and call_name(n) == "Truncate" and isinstance(n.func, ast.Name):
                g = CFG(f.node)
                node = [x for x in g.nodes if any(c is n for c in x.calls())]
                checks = [x for x in g.nodes if any(call_name(c) == "check_fixed_width_range" for c in x.calls())]
                key = f"{q}: {norm(n)[:60]}"
                if node and checks and g.must_pass(g.entry, node, checks, labels_excluded=("exc",)):
                    r2.ok(key, f.loc(n), "dominated by check_fixed_width_range")
                else:
                    r2.violation(key, f.loc(n), "a value is truncated to a narrower C type without a dominating range check: an out-of-range int would wrap silently instead of raising OverflowError")
