"""C20 — any input produces diagnostics, never an internal failure (small partial).

R20.1  bounded fix-points: every loop that re-queues deferred work (semantic-analysis deferral,
       class-hook passes, fine-grained propagation) increments a counter on every iteration and
       compares it with a constant on every iteration, leaving the loop when the bound is hit; the
       type checker defers a node only while pass_num < last_pass and every second pass increments
       pass_num.
R12.3  (shared with C12) partial arithmetic operators in the constant folders are guarded: an
       unguarded one is an input-triggered crash or hang.
R20.3  no deferral in the final iteration: SemanticAnalyzer.defer asserts `not final_iteration`
       (an AssertionError is an INTERNAL ERROR for the user), so a deferral that is triggered by
       *seeing a placeholder* (isinstance(.., PlaceholderNode/PlaceholderType), has_placeholder(..))
       must also be conditional on not being in the final iteration, or go through
       process_placeholder, which reports a cyclic definition instead. Sites confirmed by a
       crashing input are findings; sites for which no input was found are tabled (unproven).
R20.4  an index variable that takes different integer constants on different paths (arg_index = 0
       / 1, next_group = 0 / += 1) and then subscripts a sequence is compared with len() of that
       very sequence in the guard of the access; an unguarded access is an IndexError for the input
       whose sequence is shorter (INTERNAL ERROR).
R20.2  inventory (evidence only): explicit `raise` of non-CompileError classes and `assert`s in the
       anchored modules, so that a change adding one is visible.
"""

from __future__ import annotations

import ast
from collections import Counter

from ..cfg import CFG, call_name
from ..index import AnalysisError, get_index, norm, walk_no_nested
from ..report import Check
from .c12 import FOLDER_MODULES, check_folder, guard_chain

REQUEUE_CALLS = {"semantic_analyze_target", "apply_hooks_to_class", "reprocess_nodes"}
LOOP_MODULES = ("mypy.semanal_main", "mypy.server.update", "mypy.build", "mypy.semanal", "mypy.checker")
ANCHOR_MODULES = ("mypy.semanal", "mypy.semanal_main", "mypy.typeanal", "mypy.checker", "mypy.checkexpr", "mypy.errors", "mypy.build", "mypy.fastparse", "mypy.server.update")


def const_int(ix, m, e: ast.expr):
    try:
        v = ix.const_eval(m, e)
    except AnalysisError:
        return None
    return v if isinstance(v, int) and not isinstance(v, bool) else None


def run(chk: Check) -> None:
    ix = get_index()
    run_final_iteration(chk, ix)
    run_index_guards(chk, ix)
    run_type_param_guard(chk, ix)
    run_planned_internal_errors(chk, ix)
    run_saved_indexes(chk, ix)
    run_set_pop_guarded(chk, ix)
    run_blocker_rollback(chk, ix)
    run_parser_prevents(chk, ix)
    run_registry_lookups_guarded(chk, ix)
    run_instance_asserts_after_subtype(chk, ix)
    run_format_replacement_lookups(chk, ix)
    run_progress_reads_what_was_written(chk, ix)
    run_literal_strings_encodable(chk, ix)
    run_loop_else_outside_loop(chk, ix)
    run_single_typevartuple(chk, ix)
    run_unpacked_item_asserts(chk, ix)
    run_capture_nodes_are_any_symbol(chk, ix)
    run_count_check_fails_closed(chk, ix)

    r1 = chk.rule("R20.1", "every loop that re-queues deferred work has a per-iteration counter compared with a constant bound that exits the loop; type-checker deferral is limited by pass_num < last_pass", floor=7)
    n_loops = 0
    for modname in LOOP_MODULES:
        m = ix.module(modname)
        for f in [*m.functions.values(), *[mm for c in m.classes.values() for mm in c.methods.values()]]:
            loops = [n for n in walk_no_nested(f.node) if isinstance(n, ast.While)]
            for lp in loops:
                direct = {call_name(c) for s in lp.body for c in ast.walk(s) if isinstance(c, ast.Call)}
                # calls inside nested while loops belong to the inner loop too; keep both
                hit = direct & REQUEUE_CALLS
                if not hit:
                    continue
                inner_only = all(
                    any(isinstance(w, ast.While) and any(isinstance(c, ast.Call) and call_name(c) == h for c in ast.walk(w)) for s in lp.body for w in ast.walk(s))
                    for h in hit
                )
                n_loops += 1
                key = f"{f.qualname}: while {norm(lp.test)[:40]} (re-queues via {sorted(hit)})"
                verdict = counter_bound(ix, f, lp)
                if verdict is True:
                    r1.ok(key, f.loc(lp))
                elif inner_only and shrinking_only(lp):
                    r1.ok(key, f.loc(lp), "inner work-list loop: pops from a list it never extends")
                else:
                    # an inner loop that only drains a list filled before it is bounded by the outer loop
                    inner = drains_only(lp)
                    if inner:
                        r1.ok(key, f.loc(lp), f"drains `{inner}` without refilling it; re-queued items go to another list handled by the enclosing bounded loop")
                    else:
                        r1.violation(key, f.loc(lp), f"loop re-queues work but has no per-iteration counter compared with a constant bound: {verdict}")
    if n_loops < 4:
        raise AnalysisError(f"only {n_loops} re-queueing loops found")
    # type checker: pass bound
    tc = ix.cls("mypy.checker.TypeChecker")
    csp = tc.methods.get("check_second_pass")
    if csp is None:
        raise AnalysisError("TypeChecker.check_second_pass vanished")
    g = CFG(csp.node)
    incs = [n for n in g.nodes if n.kind == "stmt" and isinstance(n.stmt, ast.AugAssign) and norm(n.stmt.target) == "self.pass_num" and isinstance(n.stmt.op, ast.Add)]
    trues = [n for n in g.nodes if n.kind == "stmt" and isinstance(n.stmt, ast.Return) and isinstance(n.stmt.value, ast.Constant) and n.stmt.value.value is True]
    if incs and trues and all(g.must_pass(g.entry, [t], incs, labels_excluded=("exc",)) for t in trues):
        r1.ok("TypeChecker.check_second_pass: pass_num incremented on every path that reports deferred work", csp.loc(incs[0].stmt))
    else:
        r1.violation("TypeChecker.check_second_pass: pass_num incremented on every path that reports deferred work", csp.loc(), "a second pass can report more deferred work without consuming a pass: the build's `while unfinished_modules` loop has no other bound")
    n_defer = 0
    for q, f in ix.functions.items():
        if f.parent is not None or not f.module.name.startswith("mypy."):
            continue
        for n in ast.walk(f.node):
            if isinstance(n, ast.Call) and isinstance(n.func, ast.Attribute) and n.func.attr == "defer_node" and q != "mypy.checker.TypeChecker.defer_node":
                n_defer += 1
                texts = [norm(c) for c in guard_chain(f, n)[0]]
                key = f"{q}: defer_node under [{' ; '.join(t[:40] for t in texts)}]"
                if any(t.replace("chk.", "").replace("self.", "") == "pass_num < last_pass" for t in texts):
                    r1.ok(key, f.loc(n))
                else:
                    r1.violation(key, f.loc(n), "a node is deferred without the `pass_num < last_pass` guard: deferral can repeat forever")
            if isinstance(n, ast.Call) and isinstance(n.func, ast.Attribute) and n.func.attr in ("append", "extend", "insert") and norm(n.func.value).endswith("deferred_nodes"):
                key = f"{q}: writes deferred_nodes"
                if q == "mypy.checker.TypeChecker.defer_node":
                    r1.ok(key, f.loc(n))
                else:
                    r1.violation(key, f.loc(n), "deferred_nodes is extended outside defer_node (bypasses the pass bound)")
    if n_defer < 2:
        raise AnalysisError("defer_node call sites not found")
    lp_const = const_int(ix, ix.module("mypy.checker"), ast.Name(id="DEFAULT_LAST_PASS", ctx=ast.Load()))
    if isinstance(lp_const, int) and 0 < lp_const < 100:
        r1.ok("DEFAULT_LAST_PASS is a small positive constant", "mypy/checker.py", str(lp_const))
    else:
        r1.violation("DEFAULT_LAST_PASS is a small positive constant", "mypy/checker.py", f"value {lp_const}")

    r3 = chk.rule("R12.3", "(shared with C12) partial operators in the constant folders are guarded against every failure precondition: no input constant expression can crash or hang folding", floor=12)
    for modname in FOLDER_MODULES:
        for f in ix.module(modname).functions.values():
            check_folder(f, r3)

    r2 = chk.rule("R20.2", "(inventory, evidence only) explicit raises of non-CompileError classes and asserts in the anchored modules", floor=0)
    inv = {}
    for modname in ANCHOR_MODULES:
        m = ix.module(modname)
        c = Counter()
        for n in ast.walk(m.tree):
            if isinstance(n, ast.Raise) and n.exc is not None:
                e = n.exc.func if isinstance(n.exc, ast.Call) else n.exc
                nm = norm(e).split(".")[-1]
                if nm not in ("CompileError",):
                    c[nm] += 1
            elif isinstance(n, ast.Assert):
                c["assert"] += 1
        inv[modname] = dict(c)
        r2.info(f"{modname}", m.relpath, ", ".join(f"{k}={v}" for k, v in sorted(c.items())))
    chk.extra["raise_inventory"] = inv


def counter_bound(ix, f, lp: ast.While):
    """True if the loop has `X += 1` and a comparison of X with a constant, both on every iteration,
    the comparison leading out of the loop (break / raise / return / assert); else a reason string."""
    g = CFG(f.node)
    heads = [n for n in g.nodes if n.kind == "test" and n.stmt is lp]
    if not heads:
        return "loop head not found in CFG"
    head = heads[0]
    body_nodes = set()
    for s in lp.body:
        for x in ast.walk(s):
            for n in g.nodes_of(x):
                body_nodes.add(n)
    incs = [n for n in body_nodes if n.kind == "stmt" and isinstance(n.stmt, ast.AugAssign) and isinstance(n.stmt.op, ast.Add) and isinstance(n.stmt.target, ast.Name)]
    if not incs:
        return "no `counter += 1` in the loop body"
    tsucc = [m for m, lab in head.succ if lab == "true"]
    reasons = []
    for inc in incs:
        var = inc.stmt.target.id
        # every way round the loop passes the increment
        if not all(g.must_pass(x, [head], [inc], labels_excluded=("exc",)) for x in tsucc):
            reasons.append(f"`{var} += 1` is not executed on every iteration")
            continue
        # the bound test
        cands = []
        for n in body_nodes | {head}:
            exprs = []
            if n.kind == "test":
                exprs = [n.exprs[0]]
            elif n.kind == "stmt" and isinstance(n.stmt, ast.Assert):
                exprs = [n.stmt.test]
            for e in exprs:
                for c in ast.walk(e):
                    if isinstance(c, ast.Compare) and len(c.ops) == 1 and isinstance(c.left, ast.Name) and c.left.id == var and isinstance(c.ops[0], (ast.Gt, ast.GtE, ast.Eq, ast.Lt, ast.LtE)):
                        bound = const_int(ix, f.module, c.comparators[0])
                        if bound is not None:
                            cands.append((n, c, bound))
        if not cands:
            reasons.append(f"`{var}` is never compared with a constant")
            continue
        for n, c, bound in cands:
            on_every = n is head or all(g.must_pass(x, [head], [n], labels_excluded=("exc",)) for x in tsucc)
            if not on_every:
                reasons.append(f"the comparison `{norm(c)}` is not evaluated on every iteration")
                continue
            if n.kind == "stmt":  # assert: failing leaves the loop by raising
                return True
            # one branch of the test must leave the loop without coming back to the head
            for m, lab in n.succ:
                if lab in ("true", "false"):
                    r = g.reachable([m], avoiding=[head], labels_excluded=())
                    leaves = (g.exit in r or g.raise_exit in r or any(x not in body_nodes and x is not head for x in r))
                    comes_back = head in g.reachable([m], labels_excluded=("exc",)) and not any(isinstance(x.stmt, (ast.Break, ast.Raise, ast.Return)) and x.kind == "stmt" for x in g.reachable([m], avoiding=[head], labels_excluded=("exc",)) if x in body_nodes)
                    first = [x for x in g.reachable([m], avoiding=[head], labels_excluded=("exc",)) if x in body_nodes and x.kind == "stmt" and isinstance(x.stmt, (ast.Break, ast.Raise, ast.Return))]
                    if first and must_exit(g, m, head, body_nodes):
                        return True
            if n is head:
                return True
            reasons.append(f"neither branch of `{norm(c)}` is forced to leave the loop")
    return "; ".join(reasons) or "no counter pattern"


def must_exit(g: CFG, start, head, body_nodes) -> bool:
    """From `start`, control cannot return to the loop head (every path leaves the loop)."""
    r = g.reachable([start], labels_excluded=("exc",))
    return head not in r


def shrinking_only(lp: ast.While) -> bool:
    return bool(drains_only(lp))


def drains_only(lp: ast.While):
    """`while L: x = L.pop() ...` with no append/extend/+= to L inside: returns L's name."""
    t = lp.test
    if not isinstance(t, ast.Name):
        return None
    name = t.id
    pops = False
    for n in ast.walk(lp):
        if isinstance(n, ast.Call) and isinstance(n.func, ast.Attribute) and isinstance(n.func.value, ast.Name) and n.func.value.id == name:
            if n.func.attr in ("pop", "popleft"):
                pops = True
            if n.func.attr in ("append", "extend", "insert", "add", "update"):
                return None
        if isinstance(n, (ast.Assign, ast.AugAssign)):
            tg = n.targets if isinstance(n, ast.Assign) else [n.target]
            if any(isinstance(x, ast.Name) and x.id == name for x in tg):
                return None
    return name if pops else None


DEFER_CALLS = {"defer", "mark_incomplete", "record_incomplete_ref"}
DEFER_MODULES = ("mypy.semanal", "mypy.typeanal", "mypy.semanal_namedtuple", "mypy.semanal_typeddict", "mypy.semanal_enum", "mypy.semanal_newtype", "mypy.semanal_shared")


def run_final_iteration(chk: Check, ix) -> None:
    from ..cfg import branch_conditions
    r3 = chk.rule("R20.3", "a deferral triggered by the presence of a placeholder is conditional on not being in the final iteration of semantic analysis (defer() asserts that; an assertion failure is an internal error)", floor=8)
    sa = ix.cls("mypy.semanal.SemanticAnalyzer")
    d = sa.methods.get("defer")
    if d is None or not any(isinstance(a, ast.Assert) and "final_iteration" in norm(a.test) for a in ast.walk(d.node)):
        r3.info("SemanticAnalyzer.defer no longer asserts `not final_iteration`", sa.module.relpath, "the rule has no crash point to protect")
        return
    n = 0
    for modname in DEFER_MODULES:
        if modname not in ix.modules:
            continue
        m = ix.module(modname)
        par = m.parents()
        for q, f in sorted(ix.functions.items()):
            if f.module is not m or f.parent is not None or f.name in DEFER_CALLS:
                continue
            seen_keys = {}
            for c in ast.walk(f.node):
                if not (isinstance(c, ast.Call) and isinstance(c.func, ast.Attribute) and c.func.attr in DEFER_CALLS and norm(c.func.value) in ("self", "self.api")):
                    continue
                st = c
                while not isinstance(st, ast.stmt):
                    st = par[st]
                pos, neg = branch_conditions(par, f.node, st)
                conds = [norm(t) for t in pos] + ["not (" + norm(t) + ")" for t in neg]
                ph = [t for t in [norm(x) for x in pos] if "PlaceholderNode" in t or "PlaceholderType" in t or "has_placeholder(" in t]
                if not ph:
                    continue
                n += 1
                base = f"{q}: {norm(c.func)}() when {ph[0][:70]}"
                k = seen_keys.get(base, 0) + 1
                seen_keys[base] = k
                key = base if k == 1 else f"{base} #{k}"
                if any("final_iteration" in t for t in conds):
                    r3.ok(key, f.loc(c), "also conditional on final_iteration")
                else:
                    r3.violation(key, f.loc(c), "seeing a placeholder leads to a deferral with no regard to final_iteration: on a cyclic definition the placeholder is still there in the final iteration, defer() hits `assert not self.final_iteration` and the user gets INTERNAL ERROR instead of a diagnostic")
            # a "please defer" flag handed to the caller: `return .., True, ..` under a placeholder test
            for rt in ast.walk(f.node):
                if not (isinstance(rt, ast.Return) and isinstance(rt.value, ast.Tuple) and any(isinstance(e, ast.Constant) and e.value is True for e in rt.value.elts)):
                    continue
                conj, _h = guard_chain(f, rt, early_exits=True)
                texts = [norm(t) for t in conj]
                ph = [t for t in texts if ("PlaceholderNode" in t or "PlaceholderType" in t or "has_placeholder(" in t) and not t.startswith("not ")]
                if not ph or "defer" not in (ast.get_docstring(f.node) or "").lower():
                    continue
                n += 1
                key = f"{q}: returns `defer` when {ph[0][:70]}"
                if any("final_iteration" in t for t in texts):
                    r3.ok(key, f.loc(rt), "also conditional on final_iteration")
                else:
                    r3.violation(key, f.loc(rt), "the caller is told to defer because a placeholder was seen, with no regard to final_iteration: on a cyclic definition defer() hits its assertion (INTERNAL ERROR)")
    if n < 8:
        raise AnalysisError(f"only {n} placeholder-triggered deferral sites found")


def run_index_guards(chk: Check, ix) -> None:
    r4 = chk.rule("R20.4", "a subscript whose index is a local that is assigned different integer constants on different paths is guarded by a comparison of that local with len() of the subscripted sequence", floor=2)
    n = 0
    for q, f in sorted(ix.functions.items()):
        mn = f.module.name
        if f.parent is not None or not mn.startswith("mypy.") or ".test" in mn or mn.startswith(("mypy.stub", "mypy.dmypy")):
            continue
        asg: dict[str, list] = {}
        for a in ast.walk(f.node):
            if isinstance(a, ast.Assign) and len(a.targets) == 1 and isinstance(a.targets[0], ast.Name):
                asg.setdefault(a.targets[0].id, []).append(a.value)
        idxvars = {v for v, vals in asg.items() if len(vals) >= 2 and all(isinstance(x, ast.Constant) and isinstance(x.value, int) and not isinstance(x.value, bool) for x in vals)}
        if not idxvars:
            continue
        par = f.module.parents()
        for sub in ast.walk(f.node):
            if not (isinstance(sub, ast.Subscript) and isinstance(sub.slice, ast.Name) and sub.slice.id in idxvars and isinstance(sub.ctx, ast.Load)):
                continue
            n += 1
            conj, _h = guard_chain(f, sub, early_exits=True)
            texts = [norm(c) for c in conj]
            p_ = par.get(sub)
            while p_ is not None and not isinstance(p_, ast.stmt):
                if isinstance(p_, ast.BoolOp) and isinstance(p_.op, ast.And):
                    # earlier conjuncts of the same `and` guard the later ones
                    for v in p_.values:
                        if any(x is sub for x in ast.walk(v)):
                            break
                        texts.append(norm(v))
                p_ = par.get(p_)
            want = f"len({norm(sub.value)})"
            key = f"{q}: {norm(sub)} guarded by a comparison of {sub.slice.id} with {want}"
            if any(want in t and sub.slice.id in t for t in texts):
                r4.ok(key, f.loc(sub))
            else:
                r4.violation(key, f.loc(sub), f"`{sub.slice.id}` takes several constant values but the access is not range-checked against {want}: an input whose sequence is shorter raises IndexError, i.e. INTERNAL ERROR (or a dead daemon)")
    if n < 2:
        raise AnalysisError(f"only {n} constant-index-variable subscripts found")


def run_type_param_guard(chk: Check, ix) -> None:
    """R20.5: the test that protects `assert self.add_symbol(...)` in push_type_args covers every node kind the loop adds."""
    r5 = chk.rule("R20.5", "push_type_args asserts that add_symbol accepted a type parameter unless is_defined_type_param saw the name; is_defined_type_param therefore has to recognise every node class analyze_type_param can produce (they are what an earlier iteration of the same loop put into the scope): a duplicate name whose first declaration is of an unrecognised kind (`def f[*Ts, Ts]`, `[**P, P]`) makes add_symbol refuse and the assertion fail (INTERNAL ERROR; the daemon dies)", floor=4)
    sa = ix.cls("mypy.semanal.SemanticAnalyzer")
    pta, guard, prod = sa.methods["push_type_args"], sa.methods["is_defined_type_param"], sa.methods["analyze_type_param"]
    asserts = [a for a in ast.walk(pta.node) if isinstance(a, ast.Assert) and any(isinstance(c, ast.Call) and call_name(c) == "add_symbol" for c in ast.walk(a.test))]
    if not asserts:
        r5.info("push_type_args no longer asserts on add_symbol", pta.loc(), "the rule has no crash point to protect")
        return
    from ..cfg import branch_conditions
    par = pta.module.parents()
    pos, neg = branch_conditions(par, pta.node, asserts[0], early_exits=True)
    guarded = any(isinstance(c, ast.Call) and call_name(c) == "is_defined_type_param" for t in neg for c in ast.walk(t)) or any(isinstance(t, ast.UnaryOp) and isinstance(t.op, ast.Not) and any(isinstance(c, ast.Call) and call_name(c) == "is_defined_type_param" for c in ast.walk(t.operand)) for t in pos)
    if guarded:
        r5.ok("the assertion on add_symbol is reached only when is_defined_type_param(name) is false", pta.loc(asserts[0]))
    else:
        r5.violation("the assertion on add_symbol is reached only when is_defined_type_param(name) is false", pta.loc(asserts[0]), "a repeated type parameter name reaches the assertion")
    nodes = ix.module("mypy.nodes")
    recognised: set[str] = set()
    for c in ast.walk(guard.node):
        if isinstance(c, ast.Call) and call_name(c) == "isinstance" and len(c.args) == 2:
            k = c.args[1]
            for e in (k.elts if isinstance(k, ast.Tuple) else [k]):
                ci = nodes.classes.get(norm(e))
                if ci is not None:
                    recognised |= {ci.name} | {s.name for s in ci.all_subclasses()}
    if not recognised:
        raise AnalysisError("is_defined_type_param: no isinstance test on a mypy.nodes class found")
    ret = prod.node.returns
    ret_names = {n.id for n in ast.walk(ret) if isinstance(n, ast.Name)} if ret is not None else set()
    base = next((nodes.classes[n] for n in ret_names if n in nodes.classes), None)
    if base is None:
        raise AnalysisError("analyze_type_param: return annotation does not name a mypy.nodes class")
    family = {base.name} | {s.name for s in base.all_subclasses()}
    produced = sorted({call_name(c) for c in ast.walk(prod.node) if isinstance(c, ast.Call) and isinstance(c.func, ast.Name) and c.func.id in family})
    if len(produced) < 3:
        raise AnalysisError(f"analyze_type_param: only {produced} constructed")
    for k in produced:
        key = f"is_defined_type_param recognises {k} (produced by analyze_type_param)"
        if k in recognised:
            r5.ok(key, guard.loc())
        else:
            r5.violation(key, guard.loc(), f"a type parameter of kind {k} already in scope is not seen by is_defined_type_param (it tests {sorted(recognised)[:4]}): a second parameter with the same name reaches `assert self.add_symbol(...)`, add_symbol refuses the redefinition and the assertion fails")
    run_returned_type_params(chk, r5, ix)


def run_planned_internal_errors(chk: Check, ix) -> None:
    """R20.6: an 'internal error' message is never the planned outcome of a branch."""
    r6 = chk.rule("R20.6", "a diagnostic labelled as an internal error is produced only by report_internal_error (for an exception that escaped), never as the planned outcome of a branch that input can reach: where a fix-point bound or an unexpected state is handled by reporting, the report is an ordinary diagnostic", floor=2)
    REPORTERS = {"report", "fail", "note", "error", "print", "report_simple_error", "add_error_info"}
    n = 0
    for q, f in sorted(ix.functions.items()):
        mn = f.module.name
        if f.parent is not None or not mn.startswith("mypy.") or ".test" in mn:
            continue
        for c in ast.walk(f.node):
            if not (isinstance(c, ast.Call) and call_name(c) in REPORTERS):
                continue
            msgs = [a.value for a in ast.walk(c) if isinstance(a, ast.Constant) and isinstance(a.value, str) and "internal error" in a.value.lower()]
            if not msgs:
                continue
            n += 1
            key = f"{q}: reports {msgs[0][:60]!r}"
            if q == "mypy.errors.report_internal_error":
                r6.ok(key, f.loc(c), "the mechanism for escaped exceptions itself")
            else:
                r6.violation(key, f.loc(c), f"{q} reports a message labelled as an internal error as a planned outcome; an input that reaches this call gets an `internal error` instead of a diagnostic about the program")
    if n < 2:
        raise AnalysisError(f"only {n} reported internal-error messages found (report_internal_error vanished?)")


def run_returned_type_params(chk: Check, r5, ix) -> None:
    sa = ix.cls("mypy.semanal.SemanticAnalyzer")
    pta = sa.methods["push_type_args"]
    from ..cfg import branch_conditions
    par = pta.module.parents()
    rets = [r for r in ast.walk(pta.node) if isinstance(r, ast.Return) and isinstance(r.value, ast.Name)]
    if not rets:
        raise AnalysisError("push_type_args: no `return <list>` found")
    lst = rets[-1].value.id
    apps = [c for c in ast.walk(pta.node) if isinstance(c, ast.Call) and isinstance(c.func, ast.Attribute) and c.func.attr == "append" and norm(c.func.value) == lst]
    key = "push_type_args returns only the type parameters that were added to the scope"
    if not apps:
        raise AnalysisError("push_type_args: the returned list is never appended to")
    for c in apps:
        st = c
        while not isinstance(st, ast.stmt):
            st = par[st]
        pos, neg = branch_conditions(par, pta.node, st, early_exits=True)
        excl = any(isinstance(x, ast.Call) and call_name(x) == "is_defined_type_param" for t in neg for x in ast.walk(t)) or any(isinstance(t, ast.UnaryOp) and isinstance(t.op, ast.Not) and any(isinstance(x, ast.Call) and call_name(x) == "is_defined_type_param" for x in ast.walk(t.operand)) for t in pos)
        if excl:
            r5.ok(key, pta.loc(c))
        else:
            r5.violation(key, pta.loc(c), f"`{lst}.append(...)` also runs for a name is_defined_type_param rejected: the `type` statement binds the rejected parameter as the alias type variable while the scope holds the first declaration (`type A[*Ts, Ts] = tuple[*Ts]` fails an assertion in the type analyzer)")


def run_saved_indexes(chk: Check, ix) -> None:
    """R20.7: an index saved for later use accounts for the deletions that follow."""
    r7 = chk.rule("R20.7", "where a loop over enumerate(<list>) saves an index into an attribute and the same function afterwards deletes items of that list by the indexes collected in the loop (`for i in reversed(D): del L[i]`), the saved index is computed from the collection of indexes to delete too; otherwise it points at the wrong item, or past the end (IndexError => INTERNAL ERROR), once an earlier item has been deleted", floor=1)
    for q, f in sorted(ix.functions.items()):
        mn = f.module.name
        if f.parent is not None or not mn.startswith("mypy.") or ".test" in mn:
            continue
        dels = []
        for lp in ast.walk(f.node):
            if isinstance(lp, ast.For) and isinstance(lp.target, ast.Name):
                it = lp.iter
                src = it.args[0] if isinstance(it, ast.Call) and call_name(it) in ("reversed", "sorted") and it.args else it
                if not isinstance(src, ast.Name):
                    continue
                for d in lp.body:
                    if isinstance(d, ast.Delete) and len(d.targets) == 1 and isinstance(d.targets[0], ast.Subscript) and norm(d.targets[0].slice) == lp.target.id and isinstance(d.targets[0].value, ast.Name):
                        dels.append((lp, src.id, d.targets[0].value.id))
        for dl, dname, lname in dels:
            for lp in ast.walk(f.node):
                if not (isinstance(lp, ast.For) and lp.lineno < dl.lineno and isinstance(lp.iter, ast.Call) and call_name(lp.iter) == "enumerate" and lp.iter.args):
                    continue
                base = lp.iter.args[0]
                while isinstance(base, ast.Subscript):
                    base = base.value
                if not (isinstance(base, ast.Name) and base.id == lname and isinstance(lp.target, ast.Tuple) and isinstance(lp.target.elts[0], ast.Name)):
                    continue
                iv = lp.target.elts[0].id
                for a in ast.walk(lp):
                    if isinstance(a, ast.Assign) and len(a.targets) == 1 and isinstance(a.targets[0], ast.Attribute) and any(isinstance(n, ast.Name) and n.id == iv for n in ast.walk(a.value)):
                        key = f"{q}: `{norm(a.targets[0])}` saved from the loop index accounts for the items of `{lname}` deleted afterwards"
                        if any(isinstance(n, ast.Name) and n.id == dname for n in ast.walk(a.value)):
                            r7.ok(key, f.loc(a), norm(a.value))
                        else:
                            r7.violation(key, f.loc(a), f"`{norm(a)}` is an index into `{lname}` before `del {lname}[i]` runs for the indexes in `{dname}`: after an earlier item is deleted the saved index is off by the number of deleted items")


def _is_set_expr(e: ast.expr, f) -> bool:
    if isinstance(e, (ast.Set, ast.SetComp)):
        return True
    if isinstance(e, ast.Call) and getattr(e.func, "id", "") in ("set", "frozenset"):
        return True
    if isinstance(e, ast.BinOp) and isinstance(e.op, (ast.Sub, ast.BitAnd, ast.BitOr, ast.BitXor)):
        return _is_set_expr(e.left, f) or _is_set_expr(e.right, f)
    if isinstance(e, ast.Name):
        defs = [a.value for a in ast.walk(f.node) if isinstance(a, (ast.Assign, ast.AnnAssign)) and a.value is not None and any(isinstance(t, ast.Name) and t.id == e.id for t in (a.targets if isinstance(a, ast.Assign) else [a.target]))]
        anns = [norm(a.annotation) for a in ast.walk(f.node) if isinstance(a, ast.AnnAssign) and isinstance(a.target, ast.Name) and a.target.id == e.id]
        return any(not isinstance(d, ast.Name) and _is_set_expr(d, f) for d in defs) or any(a.lower().startswith("set[") for a in anns)
    return False


def run_set_pop_guarded(chk: Check, ix) -> None:
    """R20.8: pop() on a set happens only where the set is known to be non-empty."""
    from ..cfg import branch_conditions
    r8 = chk.rule("R20.8", "`s.pop()` on a set raises KeyError when the set is empty (an uncaught KeyError is an INTERNAL ERROR); every such call on a set built in the same function (a difference of key sets, a set of found values) is dominated by a test that the set is non-empty: a `while s:` loop, an `if not s:` / `len(s) == 0` exit or re-fill before it, or a tabled reason why it cannot be empty", floor=3)
    n = 0
    for q, f in sorted(ix.functions.items()):
        mn = f.module.name
        if f.parent is not None or not mn.startswith(("mypy.", "mypyc.")) or ".test" in mn:
            continue
        par = None
        for c in ast.walk(f.node):
            if not (isinstance(c, ast.Call) and isinstance(c.func, ast.Attribute) and c.func.attr == "pop" and not c.args and not c.keywords and _is_set_expr(c.func.value, f)):
                continue
            n += 1
            par = par or f.module.parents()
            recv = norm(c.func.value)
            st = c
            while not isinstance(st, ast.stmt):
                st = par[st]
            key = f"{q}: `{recv}.pop()` only on a non-empty set"
            guarded = False
            # inside `while recv:`
            cur = st
            while cur is not None and cur is not f.node:
                p = par.get(cur)
                if isinstance(p, ast.While) and norm(p.test) == recv:
                    guarded = True
                cur = p
            pos, neg = branch_conditions(par, f.node, st, early_exits=True)

            def says_empty(t: ast.expr) -> bool:
                tt = norm(t).replace(" ", "")
                return tt in (f"not{recv}", f"len({recv})==0", f"len({recv})<1", f"not{recv}")
            def says_nonempty(t: ast.expr) -> bool:
                tt = norm(t).replace(" ", "")
                return tt in (recv, f"len({recv})>0", f"len({recv})>=1", f"len({recv})==1")
            if any(says_nonempty(t) for t in pos) or any(says_empty(t) or (isinstance(t, ast.UnaryOp) and isinstance(t.op, ast.Not) and norm(t.operand) == recv) for t in neg):
                guarded = True
            # `if not recv: recv = <non-empty refill>` directly before
            blk_owner = par.get(st)
            for fld in ("body", "orelse"):
                blk = getattr(blk_owner, fld, None)
                if isinstance(blk, list) and any(x is st for x in blk):
                    i = [k for k, x in enumerate(blk) if x is st][0]
                    for prev in blk[:i]:
                        if isinstance(prev, ast.If) and (norm(prev.test).replace(" ", "") in (f"not{recv}", f"len({recv})==0")) and any(isinstance(a, ast.Assign) and norm(a.targets[0]) == recv for a in prev.body):
                            guarded = True
            if guarded:
                r8.ok(key, f.loc(c))
            else:
                r8.violation(key, f.loc(c), f"nothing on the way to `{recv}.pop()` establishes that `{recv}` is non-empty")
    if n < 3:
        raise AnalysisError(f"only {n} set.pop() sites found")


def run_blocker_rollback(chk: Check, ix) -> None:
    """R20.9: after a blocker the daemon forgets every module the failed load had added."""
    r9 = chk.rule("R20.9", "update_module_isolated lets load_graph add the new modules of an edit to the graph and collects them in a list it passes in; when load_graph raises CompileError (a syntax error in one of them) every handler that returns the blocked result first restores the updated module *and every module of that list*: a well-formed sibling left half-loaded in the graph is never analysed, later requests answer from its empty symbol table or fail an assertion in State.load_tree (Daemon crashed!)", floor=2)
    f = ix.func("mypy.server.update.update_module_isolated")
    lg = [c for c in ast.walk(f.node) if isinstance(c, ast.Call) and call_name(c) == "load_graph"]
    if not lg:
        raise AnalysisError("update_module_isolated: load_graph call not found")
    par = f.module.parents()
    n = 0
    for c in lg:
        # the list that collects the new states: 4th positional or new_modules=
        coll = None
        if len(c.args) >= 4 and isinstance(c.args[3], ast.Name):
            coll = c.args[3].id
        for k in c.keywords:
            if k.arg == "new_modules" and isinstance(k.value, ast.Name):
                coll = k.value.id
        tr = c
        while tr is not None and not isinstance(tr, ast.Try):
            tr = par.get(tr)
        if coll is None or tr is None:
            continue
        for h in tr.handlers:
            if h.type is None or "CompileError" not in norm(h.type):
                continue
            n += 1
            rs = [x for x in ast.walk(h) if isinstance(x, ast.Call) and call_name(x) == "restore"]
            key = f"the CompileError handler around load_graph restores every module collected in `{coll}`"
            if rs and any(isinstance(nm, ast.Name) and nm.id == coll for r in rs for a in r.args for nm in ast.walk(a)):
                r9.ok(key, f.loc(rs[0]), norm(rs[0])[:80])
            else:
                r9.violation(key, f.loc(h), f"the handler returns the blocked result after `{norm(rs[0])[:70] if rs else 'no restore() call'}`: modules that load_graph had already added (`{coll}`) stay in the graph and in manager.modules without having been processed")
    rf = [x for x in ast.walk(f.node) if isinstance(x, ast.FunctionDef) and x.name == "restore"]
    key = "restore() removes a module from both manager.modules and the graph"
    if rf and any(isinstance(d, ast.Delete) and "manager.modules" in norm(d.targets[0]) for d in ast.walk(rf[0])) and any(isinstance(d, ast.Delete) and norm(d.targets[0]).startswith("graph[") for d in ast.walk(rf[0])):
        n += 1
        r9.ok(key, f.loc(rf[0]))
    elif rf:
        n += 1
        r9.violation(key, f.loc(rf[0]), "restore() no longer deletes the module from both tables")
    if n < 2:
        raise AnalysisError(f"update_module_isolated: only {n} roll-back obligations found")


def run_parser_prevents(chk: Check, ix) -> None:
    """R20.10: what the checker assumes the parser prevents, both parsers reject with a diagnostic."""
    r10 = chk.rule("R20.10", "checkpattern asserts that a sequence pattern has at most one starred sub-pattern ('Parser should prevent multiple starred patterns'); Python's ast module and the native parser both accept `case [*a, *b]:` (only the byte-code compiler rejects it), so each front end counts the StarredPattern items where it builds a SequencePattern and reports a diagnostic for two or more, and does not itself assert on the count: otherwise that input reaches the assertion (INTERNAL ERROR; the daemon dies)", floor=3)
    cp = ix.module("mypy.checkpattern")
    assumes = [a for f in ix.functions.values() if f.module is cp for a in ast.walk(f.node) if isinstance(a, ast.Assert) and isinstance(a.msg, ast.Constant) and "Parser should prevent" in str(a.msg.value)]
    if not assumes:
        r10.info("checkpattern no longer assumes the parser prevents multiple starred patterns", cp.relpath, "nothing to protect")
        return
    r10.ok("the checker's assumption: " + str(assumes[0].msg.value), f"{cp.relpath}:{assumes[0].lineno}")
    for q in ("mypy.fastparse.ASTConverter.visit_MatchSequence", "mypy.nativeparse.read_pattern"):
        f = ix.func(q)
        builds = [c for c in ast.walk(f.node) if isinstance(c, ast.Call) and call_name(c) == "SequencePattern"]
        if not builds:
            raise AnalysisError(f"{q}: SequencePattern construction not found")
        counts = [c for c in ast.walk(f.node) if isinstance(c, ast.Call) and call_name(c) == "isinstance" and len(c.args) == 2 and norm(c.args[1]) == "StarredPattern"]
        reports = [c for c in ast.walk(f.node) if isinstance(c, ast.Call) and call_name(c) in ("fail", "add_error") and any(isinstance(x, ast.Constant) and isinstance(x.value, str) and "starred" in x.value.lower() for x in ast.walk(c))]
        asserts = [a for a in ast.walk(f.node) if isinstance(a, ast.Assert) and "stars" in norm(a.test)]
        key = f"{q}: two or more starred sub-patterns are reported, not asserted"
        if asserts:
            r10.violation(key, f.loc(asserts[0]), f"`{norm(asserts[0])}`: the ast module accepts `case [*a, *b]:`, so this assertion is reachable from input")
        elif counts and reports:
            r10.ok(key, f.loc(reports[0]))
        else:
            r10.violation(key, f.loc(builds[0]), "the SequencePattern is built without counting its StarredPattern items: `case [*a, *b]:` reaches the checker's assertion 'Parser should prevent multiple starred patterns'")


def run_registry_lookups_guarded(chk: Check, ix) -> None:
    """R20.11: a name that comes from configuration is not used as an unchecked key of the error-code registry."""
    from ..cfg import branch_conditions
    r = chk.rule("R20.11", "errorcodes.error_codes maps the names users write (`--disable-error-code`, `disable_error_code =` in any config section, `# mypy: disable-error-code=`) to ErrorCode objects. Outside errorcodes.py every subscript `error_codes[<name>]` with a non-constant key is under a membership test of that key (`if name in error_codes`, a comprehension filter) or is replaced by `.get`: an unknown name is a configuration error to report, not a KeyError (INTERNAL ERROR)", floor=3)
    n = 0
    for mn in ("mypy.options", "mypy.config_parser", "mypy.main", "mypy.errors", "mypy.build"):
        m = ix.module(mn)
        imported = {a.asname or a.name for s in m.tree.body if isinstance(s, ast.ImportFrom) and s.module == "mypy.errorcodes" for a in s.names if a.name == "error_codes"}
        if not imported:
            continue
        par = m.parents()
        for f in list(m.functions.values()) + [mm for c in m.classes.values() for mm in c.methods.values()]:
            for s in ast.walk(f.node):
                if not (isinstance(s, ast.Subscript) and isinstance(s.value, ast.Name) and s.value.id in imported and isinstance(s.ctx, ast.Load) and not isinstance(s.slice, ast.Constant)):
                    continue
                n += 1
                k = norm(s.slice)
                key = f"{f.qualname}: `{norm(s)}` is under a membership test"
                guarded = False
                # comprehension filter
                p = par.get(s)
                while p is not None and p is not f.node:
                    if isinstance(p, (ast.SetComp, ast.ListComp, ast.GeneratorExp, ast.DictComp)):
                        for g in p.generators:
                            for cond in g.ifs:
                                if isinstance(cond, ast.Compare) and isinstance(cond.ops[0], ast.In) and norm(cond.left) == k and norm(cond.comparators[0]) in imported:
                                    guarded = True
                    p = par.get(p)
                st = s
                while not isinstance(st, ast.stmt):
                    st = par[st]
                pos, neg = branch_conditions(par, f.node, st, early_exits=True)
                for t in pos:
                    for c in ast.walk(t):
                        if isinstance(c, ast.Compare) and isinstance(c.ops[0], ast.In) and norm(c.left) == k and norm(c.comparators[0]) in imported:
                            guarded = True
                if guarded:
                    r.ok(key, f.loc(s))
                else:
                    r.violation(key, f.loc(s), f"`{norm(s)}` raises KeyError for a name that is not a registered error code; the name comes from a config section or an inline comment that nobody validated (`[mypy-a] disable_error_code = bogus`: INTERNAL ERROR)")
    if n < 3:
        raise AnalysisError(f"only {n} subscripts of error_codes found")


def run_instance_asserts_after_subtype(chk: Check, ix) -> None:
    """R20.12: `is_subtype(t, <nominal type>)` does not make t an Instance."""
    from ..cfg import branch_conditions
    r = chk.rule("R20.12", "in the checker modules an `assert isinstance(X, Instance)` that is reached under a test `is_subtype(Y, ...)` (Y is X, or X was obtained from Y by get_proper_type / a plain assignment) is only sound if the other kinds of type that pass a subtype test against a nominal type have been dealt with before: the function returns earlier for TypeVarType (its bound is a subtype), UnionType (all items are) and AnyType; otherwise a type variable bounded by a mapping, a union of mappings or P.kwargs reaches the assertion (INTERNAL ERROR; the daemon dies)", floor=1)
    need = ("TypeVarType", "UnionType", "AnyType")
    n = 0
    for mn in sorted(ix.modules):
        if not (mn.startswith("mypy.check") or mn in ("mypy.typeops", "mypy.meet", "mypy.join", "mypy.binder", "mypy.plugins.default")):
            continue
        m = ix.modules[mn]
        par = m.parents()
        for f in list(m.functions.values()) + [mm for c in m.classes.values() for mm in c.methods.values()]:
            for a in ast.walk(f.node):
                if not (isinstance(a, ast.Assert) and isinstance(a.test, ast.Call) and norm(a.test.func) == "isinstance" and len(a.test.args) == 2 and isinstance(a.test.args[0], ast.Name) and norm(a.test.args[1]) == "Instance"):
                    continue
                x = a.test.args[0].id
                aliases = {x}
                changed = True
                while changed:
                    changed = False
                    for s in ast.walk(f.node):
                        if isinstance(s, ast.Assign) and len(s.targets) == 1 and isinstance(s.targets[0], ast.Name) and s.targets[0].id in aliases:
                            v = s.value
                            src = None
                            if isinstance(v, ast.Name):
                                src = v.id
                            elif isinstance(v, ast.Call) and call_name(v) == "get_proper_type" and v.args and isinstance(v.args[0], ast.Name):
                                src = v.args[0].id
                            if src and src not in aliases:
                                aliases.add(src)
                                changed = True
                pos, neg = branch_conditions(par, f.node, a, early_exits=True)
                subs = [t for t in pos for c in ast.walk(t) if isinstance(c, ast.Call) and call_name(c) == "is_subtype" and c.args and isinstance(c.args[0], ast.Name) and c.args[0].id in aliases]
                if not subs:
                    continue
                n += 1
                handled = set()
                for t in list(neg) + list(pos):
                    for c in ast.walk(t):
                        if isinstance(c, ast.Call) and norm(c.func) == "isinstance" and len(c.args) == 2 and isinstance(c.args[0], ast.Name) and c.args[0].id in aliases:
                            for k in need:
                                if k in norm(c.args[1]):
                                    handled.add(k)
                # only exclusions count: isinstance tests in `neg` (early exits / else arms) or negated in pos
                excl = set()
                for t in neg:
                    for c in ast.walk(t):
                        if isinstance(c, ast.Call) and norm(c.func) == "isinstance" and len(c.args) == 2 and isinstance(c.args[0], ast.Name) and c.args[0].id in aliases:
                            excl |= {k for k in need if k in norm(c.args[1])}
                for t in pos:
                    for u in ast.walk(t):
                        if isinstance(u, ast.UnaryOp) and isinstance(u.op, ast.Not) and isinstance(u.operand, ast.Call) and norm(u.operand.func) == "isinstance" and isinstance(u.operand.args[0], ast.Name) and u.operand.args[0].id in aliases:
                            excl |= {k for k in need if k in norm(u.operand.args[1])}
                key = f"{f.qualname}: `assert isinstance({x}, Instance)` under is_subtype(...) comes after the TypeVar / union / Any cases"
                missing = [k for k in need if k not in excl]
                if not missing:
                    r.ok(key, f.loc(a))
                else:
                    r.violation(key, f.loc(a), f"the assertion is reached whenever `{norm(subs[0])[:70]}` holds, and nothing before it excludes {missing}: `case {{'k': v, **rest}}` on a subject of type `T` (bound Mapping[str, int]), `dict[str, int] | Mapping[str, int]` or `P.kwargs` ends in an AssertionError")
    if n < 1:
        raise AnalysisError("no `assert isinstance(X, Instance)` under an is_subtype test found in the checker modules (construct_sequence_child had one)")


def run_format_replacement_lookups(chk: Check, ix) -> None:
    """R20.13: a str.format replacement may be a TempNode, which has no entry in the type map."""
    r = chk.rule("R20.13", "checkstrformat.StringFormatterChecker represents a replacement taken from `*args` / `**kwargs` by a TempNode that carries its type (get_expr_by_position / get_expr_by_name); such a node is not in the checker's type map, so every `self.chk.lookup_type(repl)` on a replacement expression of a format call is the else-arm of an `isinstance(repl, TempNode)` test (`repl.type if isinstance(repl, TempNode) else self.chk.lookup_type(repl)`): otherwise `'{:c}'.format(*args)` ends in KeyError (INTERNAL ERROR)", floor=2)
    c = ix.cls("mypy.checkstrformat.StringFormatterChecker")
    n = 0
    for name, f in sorted(c.methods.items()):
        params = {a.arg for a in f.params}
        if "repl" not in params and not any(isinstance(x, ast.Name) and x.id == "repl" for x in ast.walk(f.node)):
            continue
        par = f.module.parents()
        for call in ast.walk(f.node):
            if isinstance(call, ast.Call) and call_name(call) == "lookup_type" and call.args and norm(call.args[0]) == "repl":
                n += 1
                key = f"StringFormatterChecker.{name}: lookup_type(repl) only for a replacement that is not a TempNode"
                p = par.get(call)
                ok = False
                while p is not None and p is not f.node:
                    if isinstance(p, ast.IfExp) and "isinstance(repl, TempNode)" in norm(p.test) and any(x is call for x in ast.walk(p.orelse)):
                        ok = True
                    if isinstance(p, ast.If) and "isinstance(repl, TempNode)" in norm(p.test) and any(x is call for s in p.orelse for x in ast.walk(s)):
                        ok = True
                    p = par.get(p)
                if ok:
                    r.ok(key, f.loc(call))
                else:
                    r.violation(key, f.loc(call), "the type map is asked for `repl` whatever it is: for a replacement that comes from `*args` / `**kwargs` it is a TempNode and lookup_type raises KeyError")
    if n < 2:
        raise AnalysisError(f"checkstrformat: {n} lookup_type(repl) sites found (expected 2)")


def run_progress_reads_what_was_written(chk: Check, ix) -> None:
    """R20.14: `did this iteration change anything` compares with a field the previous iteration actually filled."""
    r = chk.rule("R20.14", "semanal_newtype.build_newtype_typeinfo forces another semantic-analysis iteration (process_placeholder(force_progress=updated)) when the NewType's base type differs from the one recorded by the previous iteration. It records the type through make_argument (`Argument(Var(name), type, ...)`: the type lands in Argument.type_annotation, the Var has none), so `updated` must be computed from an attribute path that this constructor call fills; a path that is always None makes every iteration look like progress, and an unresolvable cyclic definition runs into the iteration limit (INTERNAL ERROR) instead of `Cannot resolve name`", floor=1)
    f = ix.func("mypy.semanal_newtype.NewTypeAnalyzer.build_newtype_typeinfo")
    ma = ix.func("mypy.semanal_newtype.NewTypeAnalyzer.make_argument")
    upd = [a for a in ast.walk(f.node) if isinstance(a, ast.Assign) and norm(a.targets[0]) == "updated" and isinstance(a.value, ast.Compare)]
    if not upd:
        raise AnalysisError("build_newtype_typeinfo: `updated = <comparison>` not found")
    # which Argument fields does make_argument fill with the type?
    ret = [r_ for r_ in ast.walk(ma.node) if isinstance(r_, ast.Return) and isinstance(r_.value, ast.Call) and call_name(r_.value) == "Argument"]
    if not ret:
        raise AnalysisError("make_argument no longer returns Argument(...)")
    call = ret[0].value
    arg_params = [a.arg for a in ix.func("mypy.nodes.Argument.__init__").params][1:]
    filled = set()
    for i, a in enumerate(call.args):
        if isinstance(a, ast.Name) and a.id == "type" and i < len(arg_params):
            filled.add(arg_params[i])
    var_typed = any(isinstance(a, ast.Call) and call_name(a) == "Var" and len(a.args) >= 2 for a in call.args)
    for a in upd:
        paths = [norm(x) for x in ast.walk(a.value) if isinstance(x, ast.Attribute) and "arguments" in norm(x)]
        longest = max(paths, key=len) if paths else ""
        key = "build_newtype_typeinfo: `updated` compares with a field the previous iteration filled"
        tail = longest.split("].", 1)[1] if "]." in longest else longest
        ok = tail in filled or (tail == "variable.type" and var_typed)
        if ok:
            r.ok(key, f.loc(a), f"reads .{tail}; make_argument fills {sorted(filled)}")
        else:
            r.violation(key, f.loc(a), f"`{norm(a.value)[:90]}` reads `.{tail}`, but make_argument builds `{norm(call)}`: that attribute is never set (always None), so `updated` is always True and progress is forced on every iteration")


def run_literal_strings_encodable(chk: Check, ix) -> None:
    """R20.15: the value of a string literal in the checked program can be written to the binary cache."""
    r = chk.rule("R20.15", "a LiteralType / Final value is a Python str taken from the source, and a Python str may hold lone surrogates (`\"\\ud800\"`); the binary cache writes it with the native UTF-8 writer (cache.write_literal -> write_str_bare), which raises UnicodeEncodeError for such a value. Either write_literal's str branch encodes it in a way that cannot fail (surrogatepass / an escaped form), or the serialization step of build.write_cache handles the exception (the module is simply not cached); otherwise a valid program ends in INTERNAL ERROR with the default cache format while the JSON format accepts it", floor=1)
    wl = ix.func("mypy.cache.write_literal")
    branch = None
    for i in ast.walk(wl.node):
        if isinstance(i, ast.If) and "isinstance(value, str)" in norm(i.test):
            branch = i
    if branch is None:
        raise AnalysisError("cache.write_literal: the str branch was not found")
    safe_encode = any(isinstance(c, ast.Call) and isinstance(c.func, ast.Attribute) and c.func.attr == "encode" and any(isinstance(a, ast.Constant) and a.value in ("surrogatepass", "surrogateescape", "backslashreplace") for a in list(c.args) + [k.value for k in c.keywords]) for s in branch.body for c in ast.walk(s))
    wc = ix.func("mypy.build.write_cache")
    handled = False
    for t in ast.walk(wc.node):
        if isinstance(t, ast.Try) and any(isinstance(c, ast.Call) and isinstance(c.func, ast.Attribute) and c.func.attr == "write" and norm(c.func.value) == "tree" for s in t.body for c in ast.walk(s)):
            for h in t.handlers:
                if h.type is None or any(n in norm(h.type) for n in ("UnicodeEncodeError", "UnicodeError", "ValueError", "Exception")):
                    handled = True
    key = "a str literal with lone surrogates can be written to the binary cache (or the failure is handled)"
    if safe_encode or handled:
        r.ok(key, wl.loc(branch))
    else:
        r.violation(key, wl.loc(branch), "the str branch hands the value to the strict UTF-8 writer and write_cache has no handler around `tree.write(...)`: `S: Final = \"\\ud800\"` ends in INTERNAL ERROR (UnicodeEncodeError) when the module's cache is written; with --no-fixed-format-cache (JSON) the same program is accepted")


def run_loop_else_outside_loop(chk: Check, ix) -> None:
    """R20.16: the else clause of a loop is analysed outside the loop."""
    from ..cfg import CFG
    r = chk.rule("R20.16", "semanal.SemanticAnalyzer counts loop nesting in self.loop_depth and reports `break` / `continue` outside a loop as a *blocking* error; the checker relies on it (binder.break_frames[-1] / continue_frames[-1] are indexed unguarded). A `for` / `while` statement's else clause is not part of the loop (`break` there is a syntax error in Python), so in every method that increments loop_depth the visit of `s.else_body` comes after the matching decrement on every path; the sibling methods for `for` and `while` agree", floor=2)
    sa_ = ix.cls("mypy.semanal.SemanticAnalyzer")
    n = 0
    for name, f in sorted(sa_.methods.items()):
        incs = [a for a in ast.walk(f.node) if isinstance(a, ast.AugAssign) and isinstance(a.op, ast.Add) and "loop_depth" in norm(a.target)]
        if not incs:
            continue
        g = CFG(f.node)
        decs = [nd for nd in g.nodes if nd.kind == "stmt" and isinstance(nd.stmt, ast.AugAssign) and isinstance(nd.stmt.op, ast.Sub) and "loop_depth" in norm(nd.stmt.target)]
        inc_nodes = [nd for nd in g.nodes if nd.kind == "stmt" and isinstance(nd.stmt, ast.AugAssign) and isinstance(nd.stmt.op, ast.Add) and "loop_depth" in norm(nd.stmt.target)]
        elses = [nd for nd in g.nodes if nd.kind == "stmt" and any(isinstance(c, ast.Call) and c.args and "else_body" in norm(c.args[0]) for c in ast.walk(nd.stmt))]
        if not elses:
            continue
        n += 1
        key = f"SemanticAnalyzer.{name}: the else body is visited after loop_depth has been restored"
        ok = bool(decs) and all(g.must_pass(i, [e], decs, labels_excluded=("exc",)) for i in inc_nodes for e in elses)
        if ok:
            r.ok(key, f.loc(elses[0].stmt))
        else:
            r.violation(key, f.loc(elses[0].stmt), "the else body is analysed while loop_depth still counts the loop: `for x in y: pass\\nelse: break` raises no `\"break\" outside loop` blocker, type checking goes on and the checker indexes the empty break_frames list (INTERNAL ERROR; the daemon dies)")
    if n < 2:
        raise AnalysisError(f"SemanticAnalyzer: {n} loop statements with an else body found (expected for and while)")


def run_single_typevartuple(chk: Check, ix) -> None:
    """R20.17: the type variable list of a class never carries two TypeVarTuples into TypeInfo.add_type_vars."""
    r = chk.rule("R20.17", "TypeInfo.add_type_vars asserts that a class has at most one TypeVarTuple; the list it reads is assembled by SemanticAnalyzer.clean_up_bases_and_infer_type_variables from three sources that each drop (and report) a second TypeVarTuple, and, on the error path, from the concatenation `declared_tvars + all_tvars` of two lists that may each contain one: a statement that merges two type-variable lists is followed in the same block by a filter that keeps a single TypeVarTupleExpr (a loop that tests isinstance(.., TypeVarTupleExpr) and removes the surplus)", floor=1)
    f = ix.func("mypy.semanal.SemanticAnalyzer.clean_up_bases_and_infer_type_variables")
    par = f.module.parents()
    n = 0
    for a in ast.walk(f.node):
        if not (isinstance(a, ast.Assign) and any(isinstance(b, ast.BinOp) and isinstance(b.op, ast.Add) and isinstance(b.left, ast.Name) and isinstance(b.right, ast.Name) and "tvars" in b.left.id and "tvars" in b.right.id for b in ast.walk(a.value))):
            continue
        n += 1
        blk_owner = par[a]
        blk = next((b for fld in ("body", "orelse") for b in [getattr(blk_owner, fld, None)] if isinstance(b, list) and any(x is a for x in b)), None)
        following = blk[[i for i, x in enumerate(blk) if x is a][0] + 1:] if blk else []
        filt = any(isinstance(lp, ast.For) and any(isinstance(c, ast.Call) and norm(c.func) == "isinstance" and "TypeVarTupleExpr" in norm(c) for c in ast.walk(lp)) and any(isinstance(c, ast.Call) and isinstance(c.func, ast.Attribute) and c.func.attr in ("remove", "pop") for c in ast.walk(lp)) for st in following for lp in ast.walk(st))
        key = f"clean_up_bases_and_infer_type_variables: `{norm(a)[:70]}` is followed by the one-TypeVarTuple filter"
        if filt:
            r.ok(key, f.loc(a))
        else:
            r.violation(key, f.loc(a), "two type-variable lists are merged and handed on as they are: `class D[*Ts](Tuple[*Us])` (Us an old-style TypeVarTuple) gives the class two TypeVarTuples and TypeInfo.add_type_vars asserts (INTERNAL ERROR)")
    if n < 1:
        raise AnalysisError("clean_up_bases_and_infer_type_variables: the merge of declared and inferred type variables was not found")


def run_unpacked_item_asserts(chk: Check, ix) -> None:
    """R20.18: the variadic item of a tuple is asserted to be a `builtins.tuple` instance only after the TypeVarTuple case."""
    r18 = chk.rule("R20.18", "a normalised UnpackType holds either a TypeVarTupleType (`*Ts`) or an Instance of builtins.tuple (`*tuple[X, ...]`); both come straight from annotations. Across mypy/ the code that looks inside one first deals with the TypeVarTuple case (`isinstance(unpacked, TypeVarTupleType)` or the same test on `<unpack>.type`, usually replacing it by its upper bound) and then asserts the Instance case. Every `assert isinstance(V, Instance)...` on a V assigned from get_proper_type(<unpack>.type) follows such a test in its function (sites where a caller has normalised the item are tabled): otherwise the assertion is reachable from `tuple[int, *Ts]` in user code and the build ends in INTERNAL ERROR", floor=8)
    n = 0
    for mn, m in sorted(ix.modules.items()):
        if not mn.startswith("mypy.") or mn.startswith(("mypy.test", "mypyc")):
            continue
        for f in list(m.functions.values()) + [mm for c in m.classes.values() for mm in c.methods.values()]:
            # V = get_proper_type(<E>.type)
            assigned: dict[str, list[ast.Assign]] = {}
            for a in ast.walk(f.node):
                if isinstance(a, ast.Assign) and len(a.targets) == 1 and isinstance(a.targets[0], ast.Name) and isinstance(a.value, ast.Call) and call_name(a.value) == "get_proper_type" and a.value.args and isinstance(a.value.args[0], ast.Attribute) and a.value.args[0].attr == "type":
                    assigned.setdefault(a.targets[0].id, []).append(a)
            if not assigned:
                continue
            src = norm(f.node)
            if "UnpackType" not in src:
                continue
            for a in ast.walk(f.node):
                if not isinstance(a, ast.Assert):
                    continue
                for v, defs in assigned.items():
                    if not any(isinstance(c, ast.Call) and call_name(c) == "isinstance" and len(c.args) == 2 and norm(c.args[0]) == v and norm(c.args[1]) == "Instance" for c in ast.walk(a.test)):
                        continue
                    d = max((x for x in defs if x.lineno <= a.lineno), key=lambda x: x.lineno, default=None)
                    if d is None:
                        continue
                    owner = norm(d.value.args[0])
                    n += 1
                    key = f"{mn.removeprefix('mypy.')}.{f.name}: `{norm(a.test)[:60]}` comes after the TypeVarTuple case"
                    handled = False
                    for c in ast.walk(f.node):
                        if isinstance(c, ast.Call) and call_name(c) == "isinstance" and len(c.args) == 2 and "TypeVarTupleType" in norm(c.args[1]) and norm(c.args[0]) in (v, owner) and c.lineno <= a.lineno:
                            handled = True
                    if handled:
                        r18.ok(key, f.loc(a))
                    else:
                        r18.violation(key, f.loc(a), f"`{v}` is the content of an UnpackType and no earlier test in the function handles `TypeVarTupleType`: for `tuple[int, *Ts]` the assertion fails (INTERNAL ERROR, exit 2; the daemon dies)")
    if n < 8:
        raise AnalysisError(f"only {n} Instance assertions on unpacked variadic items found")


def run_capture_nodes_are_any_symbol(chk: Check, ix) -> None:
    """R20.19: the node of a capture name in a match statement is not assumed to be a Var."""
    r19 = chk.rule("R20.19", "a capture pattern binds a NameExpr; the semantic analyzer gives it a new Var only when the name is free, otherwise the node is whatever the name already refers to (a class, a function: `case K:` reports 'Cannot assign to a type' and checking goes on). checkpattern.py therefore never asserts that the `.node` of an expression taken from a captures map is a `Var` (SymbolNode is what the callers need: a dictionary key and a name)", floor=1)
    m = ix.module("mypy.checkpattern")
    n = 0
    for f in list(m.functions.values()) + [mm for c in m.classes.values() for mm in c.methods.values()]:
        node_names = {a.targets[0].id for a in ast.walk(f.node) if isinstance(a, ast.Assign) and len(a.targets) == 1 and isinstance(a.targets[0], ast.Name) and isinstance(a.value, ast.Attribute) and a.value.attr == "node"}
        for a in ast.walk(f.node):
            if not isinstance(a, ast.Assert):
                continue
            for c in ast.walk(a.test):
                if isinstance(c, ast.Call) and call_name(c) == "isinstance" and len(c.args) == 2 and ((isinstance(c.args[0], ast.Name) and c.args[0].id in node_names) or (isinstance(c.args[0], ast.Attribute) and c.args[0].attr == "node")):
                    n += 1
                    key = f"checkpattern.{f.name}: the node of a captured name may be any symbol"
                    if norm(c.args[1]) in ("SymbolNode", "(SymbolNode,)"):
                        r19.ok(key, f.loc(a))
                    else:
                        r19.violation(key, f.loc(a), f"`{norm(a.test)[:70]}`: for `class K: ...` / `match 2: case [K] | K: pass` the node is the TypeInfo of K and the assertion fails (INTERNAL ERROR, exit 2)")
    if n < 1:
        raise AnalysisError("checkpattern: no assertion on the node of a captured name found (get_var expected)")


def run_count_check_fails_closed(chk: Check, ix) -> None:
    """R20.20: the target-count check of a multiple assignment does not answer 'fine' after it has reported an error."""
    from ..cfg import CFG
    r20 = chk.rule("R20.20", "TypeChecker.check_rvalue_count_in_assignment tells check_multi_assignment_from_tuple whether the right-hand items can be dealt out to the targets; on False the targets get Any. After an error report (`self.fail(...)`, `self.msg.<report>(...)`) no CFG path reaches `return True`: otherwise the items are dealt out although the shapes do not fit, a target can receive a bare `*Ts` item, and later uses of that variable hit assertions (`find_unpack_in_list`)", floor=4)
    cls = ix.cls("mypy.checker.TypeChecker")
    f = cls.methods.get("check_rvalue_count_in_assignment")
    if f is None:
        raise AnalysisError("TypeChecker.check_rvalue_count_in_assignment not found")
    g = CFG(f.node)
    trues = [nd for nd in g.nodes if nd.kind == "stmt" and isinstance(nd.stmt, ast.Return) and isinstance(nd.stmt.value, ast.Constant) and nd.stmt.value.value is True]
    if not trues:
        raise AnalysisError("check_rvalue_count_in_assignment: no `return True` found")
    n = 0
    seen_reports: dict[str, int] = {}
    for nd in sorted((x for x in g.nodes if x.kind == "stmt" and x.stmt is not None and isinstance(x.stmt, ast.Expr)), key=lambda x: x.stmt.lineno):
        reports = [c for c in nd.calls() if norm(c.func) == "self.fail" or norm(c.func).startswith("self.msg.")]
        if not reports:
            continue
        n += 1
        what = norm(reports[0].args[0])[:50] if reports[0].args else norm(reports[0].func)
        seen_reports[what] = seen_reports.get(what, 0) + 1
        key = f"check_rvalue_count_in_assignment: the report `{what}`{' #' + str(seen_reports[what]) if seen_reports[what] > 1 else ''} is followed by `return False`"
        reach = g.reachable([nd], labels_excluded=("exc",))
        if any(t in reach for t in trues):
            r20.violation(key, f.loc(nd.stmt), f"after `{norm(nd.stmt)[:70]}` a path reaches `return True`: the caller deals the tuple items out to the targets although the error says they do not fit (`x, y, *xs, z = rv` with `rv: tuple[int, *Ts, int, int]` gives `y` the type `*Ts`; `many(*(y, y))` then ends in INTERNAL ERROR)")
        else:
            r20.ok(key, f.loc(nd.stmt))
    if n < 4:
        raise AnalysisError(f"check_rvalue_count_in_assignment: only {n} error reports found")
